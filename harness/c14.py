"""C14 — Experiment state files are updated atomically and read back faithfully.

Implementation under test (real code, in-process, file operations traced by patching
builtins.open / os.rename / os.replace / os.remove / os.unlink in this process):
  * Status.update / Status.writeToStream / Status.statusFromFile          (model/data.py)
  * OutputAgent.updateLogs (+ conf.ConfigurationFileToJson, Experiment._parse_outputs_file)
  * StatusMonitor.try_generate_status_details                              (runtime/output.py)
  * FlowIRExperimentConfiguration.store_unreplicated_flowir_to_disk, _generate_instance_files
Model: lean/St4sd/Model/FsAtomic.lean (file system traces with crash points) and
lean/St4sd/Model/StatusFile.lean (status file encoding) via drv-c14.  Theorems: lean/St4sd/Props/C14.lean.

Three independent lines of evidence per update:
  1. the traced operations are fed to the Lean model, which evaluates `isAtomicProtocol` and the content
     of the target after every prefix (all crash points); these are compared with the real on-disk bytes
     snapshotted at the same boundaries (every Python-level write flushed);
  2. oracle "process dies": every snapshot (flushed and, separately, with Python's real buffering) is the
     complete old or the complete new version and the real loader accepts it;
  3. oracle "I/O error raised": the update is re-run from the same state with an OSError injected at
     boundary i (a write first writes half of its data), the code's own error handling runs, then the
     target is read back: old or new, loadable.
Fidelity: histories of 1..10 updates of random values, reloaded with the real loaders.
Typed values (St4sd.TypedStore in lean/St4sd/Model/FsAtomic.lean): histories of typed documents whose updates mostly change
only the type / representation of a value (1 / True / 1.0, 0 / False / 0.0 / -0.0, 3 / 3.0, nested, dict keys) are written
by every real writer of the YAML / JSON state files and read back TYPE-EXACTLY (case kind typed-history).
Several writers (lean/St4sd/Model/FsConc.lean, names / files / open handles): two or three real updates of the same file
run in their own threads under a deterministic scheduler that preempts them only at the traced file-operation boundaries
(class Sched); oracle after every operation: previous content or the complete text of one update; the interleaved trace
is replayed by the model (FsConc.crashStates, concSafe, installedBy, interleave).
"""
from __future__ import annotations

import builtins
import copy
import datetime as _datetime
import errno
import json
import os
import re
import shutil
import tempfile
import math
import threading
from fractions import Fraction

from harness import common

LEVEL = "proof"


# ----------------------------------------------------------------------------------------
# helpers
# ----------------------------------------------------------------------------------------

def cp(s):
    return [ord(c) for c in s]


def uncp(l):
    return None if l is None else "".join(chr(c) for c in l)


_orig_open = builtins.open
_orig = dict(rename=os.rename, replace=os.replace, remove=os.remove, unlink=os.unlink)


def read_disk(path):
    """on-disk bytes of `path` right now (no Python buffering involved), decoded as UTF-8; None if absent"""
    try:
        with _orig_open(path, "rb") as fh:
            return fh.read().decode("utf-8", "surrogateescape")
    except FileNotFoundError:
        return None


def write_disk(path, text):
    if text is None:
        try:
            _orig["remove"](path)
        except FileNotFoundError:
            pass
    else:
        with _orig_open(path, "wb") as fh:
            fh.write(text.encode("utf-8", "surrogateescape"))


class InjectedIOError(OSError):
    pass


class _Proxy:
    """stands for the file object returned by open(path, 'w'...) inside the traced region"""

    def __init__(self, tracer, fh, path):
        self.__dict__["_t"] = tracer
        self.__dict__["_fh"] = fh
        self.__dict__["_p"] = path
        self.__dict__["_closed"] = False

    def write(self, data):
        t = self._t
        if t.boundary("append", self._p):
            half = data[:len(data) // 2]
            if half:
                self._fh.write(half)
                self._fh.flush()
                t.record({"k": "append", "p": t.rel(self._p), "b": half})
            raise InjectedIOError(errno.ENOSPC, "injected fault while writing", self._p)
        n = self._fh.write(data)
        if t.flush_each:
            self._fh.flush()
        t.record({"k": "append", "p": t.rel(self._p), "b": data})
        return n

    def writelines(self, lines):
        for l in lines:
            self.write(l)

    def close(self):
        if self._closed:
            return
        t = self._t
        self.__dict__["_closed"] = True
        fault = t.boundary("close", self._p)
        self._fh.close()
        t.record({"k": "close", "p": t.rel(self._p)})
        if fault:
            raise InjectedIOError(errno.EIO, "injected fault at close", self._p)

    def __enter__(self):
        return self

    def __exit__(self, *a):
        self.close()
        return False

    def __getattr__(self, k):
        return getattr(self._fh, k)

    def __setattr__(self, k, v):
        setattr(self._fh, k, v)

    def __iter__(self):
        return iter(self._fh)


class Tracer:
    """Context manager: records the file operations under `root` and snapshots the watched paths at every
    boundary.  `fault_at=i`: the i-th operation raises OSError instead of (or, for a write, after half of)
    its effect."""

    def __init__(self, root, watch, fault_at=None, flush_each=True, sched=None):
        # root: one directory, or {"$I": instance dir, "$O": real output dir (a shadow dir outside the instance)}
        roots = root if isinstance(root, dict) else {"$I": root}
        self.roots = [(k, os.path.realpath(v)) for k, v in roots.items()]
        self.watch = list(watch)
        self.fault_at = fault_at
        self.flush_each = flush_each
        self.ops = []
        self.snaps = []
        self.kinds = []
        self.n = 0
        self.fired = False
        self.sched = sched        # Sched: several writers, one file operation per grant (see class Sched)
        self.intents = []         # renames attempted: {"w","a","b","at": number of ops recorded before the attempt}

    def record(self, op):
        if self.sched is not None:
            op["w"] = self.sched.wid()
        self.ops.append(op)

    def inside(self, p):
        try:
            rp = os.path.realpath(os.fspath(p))
        except TypeError:
            return False
        return any(rp == r or rp.startswith(r + os.sep) for _, r in self.roots)

    def rel(self, p):
        rp = os.path.realpath(os.fspath(p))
        for k, r in self.roots:
            if rp == r or rp.startswith(r + os.sep):
                return k + "/" + os.path.relpath(rp, r)
        return rp

    def snapshot(self):
        self.snaps.append({self.rel(w): read_disk(w) for w in self.watch})

    def boundary(self, kind, path):
        """called just before an operation is performed; returns True when the fault fires here"""
        if self.sched is not None:
            self.sched.yield_()       # park until the scheduler grants this writer its next operation
        self.snapshot()
        self.kinds.append(kind)
        i = self.n
        self.n += 1
        if self.fault_at is not None and i == self.fault_at and not self.fired:
            self.fired = True
            return True
        return False

    # patched entry points -----------------------------------------------------------------
    def _open(self, file, mode="r", *a, **k):
        writing = isinstance(mode, str) and any(c in mode for c in "wax+")
        if not writing or isinstance(file, int) or not self.inside(file):
            return _orig_open(file, mode, *a, **k)
        if "b" in mode:
            raise RuntimeError("C14 tracer: binary write to a state file is not modelled: %s" % file)
        truncating = "w" in mode
        if self.boundary("create", file):
            raise InjectedIOError(errno.EIO, "injected fault at open", os.fspath(file))
        exists = os.path.exists(file)
        fh = _orig_open(file, mode, *a, **k)
        if truncating or not exists:
            self.record({"k": "create", "p": self.rel(file)})
        else:
            self.record({"k": "close", "p": self.rel(file)})   # open for append: no effect on content
        return _Proxy(self, fh, os.fspath(file))

    def _rename(self, a, b, *x, **k):
        if not (self.inside(a) or self.inside(b)):
            return _orig["rename"](a, b, *x, **k)
        if self.boundary("rename", b):
            raise InjectedIOError(errno.EIO, "injected fault at rename", os.fspath(a))
        if self.sched is not None:
            self.intents.append({"w": self.sched.wid(), "a": self.rel(a), "b": self.rel(b), "at": len(self.ops)})
        try:
            _orig["rename"](a, b, *x, **k)
        except FileNotFoundError:
            # ENOENT changes nothing (as in the models); recorded so that snapshots and operations stay aligned
            self.record({"k": "rename", "a": self.rel(a), "b": self.rel(b), "enoent": True})
            raise
        except BaseException:
            self.snaps.pop()
            raise
        self.record({"k": "rename", "a": self.rel(a), "b": self.rel(b)})

    def _remove(self, p, *x, **k):
        if not self.inside(p):
            return _orig["remove"](p, *x, **k)
        if self.boundary("remove", p):
            raise InjectedIOError(errno.EIO, "injected fault at remove", os.fspath(p))
        try:
            _orig["remove"](p, *x, **k)
        except FileNotFoundError:
            self.record({"k": "remove", "p": self.rel(p), "enoent": True})
            raise
        except BaseException:
            self.snaps.pop()
            raise
        self.record({"k": "remove", "p": self.rel(p)})

    def __enter__(self):
        builtins.open = self._open
        os.rename = self._rename
        os.replace = self._rename
        os.remove = self._remove
        os.unlink = self._remove
        return self

    def __exit__(self, *a):
        builtins.open = _orig_open
        os.rename = _orig["rename"]
        os.replace = _orig["replace"]
        os.remove = _orig["remove"]
        os.unlink = _orig["unlink"]
        self.snapshot()
        return False


class SchedError(Exception):
    pass


class Sched:
    """Deterministic cooperative scheduler for several writers (threads) of the same state file.  Exactly one
    thread runs at any time; a writer parks at every traced file-operation boundary (Tracer.boundary) and is
    resumed by `grant`: one grant = the pending file operation plus the code that follows it up to the next
    boundary (the code before the first operation runs with the first operation).  The plan is a list of writer
    ids; naming a writer that has finished does nothing (as FsConc.interleave); a writer blocked on a SchedRLock
    held by another writer is not runnable.  After the plan the remaining writers run to completion in id order."""

    TIMEOUT = 60

    def __init__(self, fns, plan):
        self.fns = list(fns)
        self.plan = list(plan)
        self.n = len(self.fns)
        self.go = [threading.Event() for _ in self.fns]
        self.back = threading.Event()
        self.state = ["new"] * self.n          # new | parked | blocked | done
        self.blocked_on = [None] * self.n
        self.budget = [0] * self.n
        self.results = [None] * self.n
        self.errors = [None] * self.n
        self.tid = {}
        self.granted = []                      # writer ids in the order they were granted a step
        self.blocked_grants = 0
        self.threads = []

    def wid(self):
        return self.tid.get(threading.get_ident())

    # worker side -----------------------------------------------------------------------------------
    def _park(self, w, state):
        self.state[w] = state
        self.back.set()
        if not self.go[w].wait(self.TIMEOUT):
            raise SchedError("writer %d was never resumed" % w)
        self.go[w].clear()

    def yield_(self):
        w = self.wid()
        if w is None:
            return
        if self.budget[w] > 0:
            self.budget[w] -= 1
            return
        self._park(w, "parked")
        self.budget[w] -= 1

    def block(self, lock):
        w = self.wid()
        self.blocked_on[w] = lock
        self._park(w, "blocked")
        self.blocked_on[w] = None

    def _body(self, w):
        self.tid[threading.get_ident()] = w
        self.go[w].wait(self.TIMEOUT)
        self.go[w].clear()
        try:
            self.results[w] = self.fns[w]()
        except BaseException as exc:  # noqa
            self.errors[w] = exc
        finally:
            self.state[w] = "done"
            self.back.set()

    # controller side -------------------------------------------------------------------------------
    def runnable(self, w):
        if self.state[w] == "done":
            return False
        if self.state[w] == "blocked":
            lk = self.blocked_on[w]
            return lk is None or lk.owner in (None, w)
        return True

    def grant(self, w):
        self.budget[w] = 1
        self.back.clear()
        self.go[w].set()
        if not self.back.wait(self.TIMEOUT):
            raise SchedError("writer %d did not reach a boundary within %ds" % (w, self.TIMEOUT))
        self.granted.append(w)

    def run(self):
        for w in range(self.n):
            th = threading.Thread(target=self._body, args=(w,), name="c14-writer-%d" % w, daemon=True)
            self.threads.append(th)
            th.start()
        try:
            for w in self.plan:
                if not (0 <= w < self.n) or self.state[w] == "done":
                    continue
                if not self.runnable(w):
                    self.blocked_grants += 1
                    continue
                self.grant(w)
            while any(st != "done" for st in self.state):
                ws = [w for w in range(self.n) if self.runnable(w)]
                if not ws:
                    raise SchedError("deadlock: states %r" % (self.state,))
                self.grant(ws[0])
        finally:
            # never leave a parked thread behind
            for w in range(self.n):
                if self.state[w] != "done":
                    self.budget[w] = 10 ** 9
                    self.go[w].set()
            for th in self.threads:
                th.join(self.TIMEOUT)


class SchedRLock:
    """stands for a threading.RLock of the implementation while a Sched runs (only one thread runs at a time, so the
    lock is pure bookkeeping): a writer that finds it held by another writer is descheduled until it is released"""

    def __init__(self, sched):
        self.sched = sched
        self.owner = None
        self.count = 0
        self.contended = 0

    def acquire(self, blocking=True, timeout=-1):
        w = self.sched.wid()
        while self.owner is not None and self.owner != w:
            self.contended += 1
            if w is None:
                raise SchedError("lock taken by a thread outside the scheduler")
            self.sched.block(self)
        self.owner = w
        self.count += 1
        return True

    def release(self):
        self.count -= 1
        if self.count == 0:
            self.owner = None

    def __enter__(self):
        self.acquire()
        return self

    def __exit__(self, *a):
        self.release()
        return False


# frozen, deterministic clock for experiment.model.data (Status.update stamps `updated`) --------------

class _FixedDT(_datetime.datetime):
    _n = 0

    @classmethod
    def now(cls, tz=None):
        cls._n += 1
        return cls(2026, 1, 1, 12, 0, 0) + _datetime.timedelta(seconds=cls._n, microseconds=cls._n * 7 % 1000000)


class _DTShim:
    def __init__(self, real):
        self._real = real
        self.datetime = _FixedDT

    def __getattr__(self, k):
        return getattr(self._real, k)


_ENV = {}


def env():
    """imports of the implementation + one-time patches (clock, logging)"""
    if _ENV:
        return _ENV
    import logging
    import experiment.model.data as D
    import experiment.model.conf as C
    import experiment.runtime.output as O
    import tests.utils as TU
    logging.disable(logging.CRITICAL)
    D.datetime = _DTShim(_datetime)
    _ENV.update(D=D, C=C, O=O, TU=TU)
    return _ENV


PER_SLUG = 6


def report(ctx, what, case, detail=None):
    """ctx.fail with a cap per (slug, accepted-by-a-known-finding-classifier) so that one frequent failure cannot
    crowd the others out of the 200 failures the context keeps; everything is still counted in the tags"""
    if isinstance(ctx, _Probe):
        ctx.fail(what, case, detail)
        return
    known = any(fn(what, case, detail or {}) for fn in CLASSIFIERS.values())
    key = "oracle-failure:%s%s" % (what, ":edge-whitespace" if known else "")
    ctx.tag(key)
    if ctx.tags[key] <= PER_SLUG:
        ctx.fail(what, case, detail)


# ----------------------------------------------------------------------------------------
# generators
# ----------------------------------------------------------------------------------------

SPECIAL = ["\\", "\\", "\n", "\n", "\t", "\r", "=", "%", "'", '"', "\\n", "\\x41", "\\u20ac", "\x00", "\x07", "\x1b",
           "\x7f", "\x80", "\x85", "\xa0", "\xe9", "\xff", "\u0100", "\u20ac", "\u2028", "\u3000", "\uffff",
           "\U0001f600", "\U0010ffff", " ", "#", ";", "[", "]", ":", "$", "{", "}"]
WORDS = ["Traceback (most recent call last):", "  File \"/tmp/x.py\", line 3, in <module>", "ValueError: bad value",
         "stage0.simulate failed", "exit code 1", "KeyError: 'x'", "C:\\temp\\new", "50% done", "a=b", "résumé", "naïve",
         "1", "1.0", "True", "0", "None"]
WS_EDGE = [" ", "\n", "\t", "\r\n", "\x0b", "\x0c", "\x1c", "\x85", "\xa0", "\u2003", "\u3000"]


def gen_text(rng, edge_ws_prob=0.08):
    parts = []
    for _ in range(rng.randint(0, 6)):
        r = rng.random()
        if r < 0.45:
            parts.append(rng.choice(SPECIAL))
        elif r < 0.75:
            parts.append(rng.choice(WORDS))
        elif r < 0.9:
            parts.append("".join(chr(rng.randint(33, 126)) for _ in range(rng.randint(1, 6))))
        else:
            c = rng.randint(0, 0x10ffff)
            if 0xd800 <= c <= 0xdfff:
                c = 0x41
            parts.append(chr(c))
    s = "".join(parts)
    # keep the edges free of white space except in the dedicated class (the `.strip()` finding)
    s = s.strip()
    if rng.random() < edge_ws_prob:
        w = rng.choice(WS_EDGE)
        s = (w + s) if rng.random() < 0.5 else (s + w)
    return s


STATES = None


def gen_set(rng, stages):
    """one setter call: (setter name, json-able argument)"""
    global STATES
    if STATES is None:
        import experiment.model.codes as codes
        STATES = sorted(codes.states)
    r = rng.random()
    if r < 0.5:
        return ["setErrorDescription", gen_text(rng)]
    if r < 0.6:
        return ["setExitStatus", rng.choice(["Success", "Failed", "Stopped", "N/A", "ResourceExhausted"])]
    if r < 0.7:
        return ["setStageState", rng.choice(STATES)]
    if r < 0.8:
        return ["setExperimentState", rng.choice(STATES)]
    if r < 0.87:
        return ["setCurrentStage", rng.choice(stages)]
    if r < 0.94:
        return ["setStageProgress", rng.choice([0, 1, 0.5, rng.randint(0, 1000) / 1000.0])]
    return ["setCost", rng.choice([0, 3, rng.randint(0, 10 ** 6), rng.randint(0, 1000) / 8.0])]


SETTER_KEY = {"setErrorDescription": "error-description", "setExitStatus": "exit-status", "setStageState": "stage-state",
              "setExperimentState": "experiment-state", "setCurrentStage": "current-stage",
              "setStageProgress": "stage-progress", "setCost": "cost"}


def gen_history(rng, max_rounds=10):
    stages = ["stage%d" % i for i in range(rng.randint(1, 4))]
    rounds = []
    n = rng.randint(1, max_rounds)
    for i in range(n):
        r = rng.random()
        if i > 0 and r < 0.35:
            rounds.append([])          # update() again without touching anything (what StatusMonitor does)
        else:
            rounds.append([gen_set(rng, stages) for _ in range(rng.randint(1, 3))])
    return {"kind": "status-history", "stages": stages, "rounds": rounds}


# ----------------------------------------------------------------------------------------
# Status: fidelity over histories
# ----------------------------------------------------------------------------------------

def fmt(v):
    return "%s" % (v,)


def is_changed_by_escape(s):
    return any(c == "\\" or ord(c) < 32 or ord(c) > 126 for c in s)


def run_status_history(case, workdir):
    """Runs the history on a real Status object; after every update reloads the file with the real loader.
    Returns per-update records and the model request that mirrors the history."""
    E = env()
    D = E["D"]
    path = os.path.join(workdir, "status.txt")
    write_disk(path, None)
    _FixedDT._n = 0
    st = D.Status(path, {}, list(case["stages"]))
    st.setCreated(D.datetime.datetime.now())
    init = sorted([[k, fmt(v)] for k, v in st.data.items()])
    expected = {k: v for k, v in st.data.items()}           # what the user of the API last wrote
    records = []
    mrounds = []
    for rnd in case["rounds"]:
        for name, arg in rnd:
            getattr(st, name)(arg)
            key = SETTER_KEY[name]
            expected[key] = arg.lower() if name in ("setStageState", "setExperimentState") else arg
        ok = st.update()
        expected["updated"] = st.data["updated"]
        expected["updated-on"] = st.data["updated-on"]
        mround = [[SETTER_KEY[name], fmt(expected[SETTER_KEY[name]])] for name, arg in rnd]
        mround += [["updated", fmt(expected["updated"])], ["updated-on", fmt(expected["updated-on"])]]
        mrounds.append(mround)
        rec = {"update_ok": bool(ok), "text": read_disk(path)}
        try:
            loaded = D.Status.statusFromFile(path)
            rec["loaded"] = {k: (fmt(v)) for k, v in loaded.data.items()}
        except Exception as exc:  # noqa
            rec["load_error"] = type(exc).__name__ + ": " + str(exc)[:200]
        rec["expected"] = {k: fmt(v) for k, v in expected.items()}
        records.append(rec)
    req = {"op": "history", "writer": "new", "init": [[cp(k), cp(v)] for k, v in init],
           "rounds": [[[cp(k), cp(v)] for k, v in r] for r in mrounds]}
    return records, req


def check_status_histories(ctx, cases):
    tmp = tempfile.mkdtemp(prefix="c14-")
    try:
        results = []
        reqs = []
        for case in cases:
            records, req = run_status_history(case, tmp)
            results.append(records)
            # the model replays every prefix of the history (one request per update)
            for i in range(1, len(case["rounds"]) + 1):
                r = dict(req)
                r["rounds"] = req["rounds"][:i]
                reqs.append(r)
        mouts = ctx.model(reqs)
        mi = 0
        for case, records in zip(cases, results):
            descs = [a for r in case["rounds"] for (n, a) in r if n == "setErrorDescription"]
            nontrivial = len(case["rounds"]) >= 2 and any(is_changed_by_escape(d) or "=" in d or "%" in d for d in descs)
            ctx.case(case, nontrivial=nontrivial,
                     tags=["history:updates=%d" % len(case["rounds"])] +
                          sorted({"history:desc-has-" + nm for d in descs for nm, f in (
                              ("backslash", "\\" in d), ("newline", "\n" in d), ("nonascii", any(ord(c) > 126 for c in d)),
                              ("control", any(ord(c) < 32 for c in d)), ("equals", "=" in d), ("percent", "%" in d),
                              ("edge-whitespace", d != d.strip())) if f}))
            for i, rec in enumerate(records):
                where = {"after_update": i + 1}
                if not rec["update_ok"]:
                    report(ctx, "status-update-returned-false", case, where)
                if "load_error" in rec:
                    report(ctx, "status-file-does-not-load", case, dict(where, error=rec["load_error"], text=rec["text"]))
                else:
                    for k, v in sorted(rec["expected"].items()):
                        got = rec["loaded"].get(k)
                        if got != v:
                            report(ctx, "status-value-not-read-back", case,
                                     dict(where, key=k, expected=v, loaded=got))
                            break
                if mouts is not None:
                    m = mouts[mi]
                    ctx.compare("status.txt text after n updates == StatusFile.encode (repaired writer)", case,
                                {"text": uncp(m["text"])}, {"text": rec["text"]})
                    mdec = None if m["decoded"] is None else {uncp(k): uncp(v) for k, v in m["decoded"]}
                    ctx.compare("Status.statusFromFile == StatusFile.decode", case,
                                {"loaded": mdec}, {"loaded": rec.get("loaded")})
                mi += 1
    finally:
        shutil.rmtree(tmp, ignore_errors=True)


def check_escape(ctx, strings):
    """unicode_escape codec vs StatusFile.escape / unescape"""
    reqs = []
    for s in strings:
        reqs.append({"op": "escape", "s": cp(s)})
        reqs.append({"op": "unescape", "s": cp(s)})
    mouts = ctx.model(reqs)
    for i, s in enumerate(strings):
        esc = s.encode("unicode_escape").decode("utf-8")
        back = esc.encode("utf-8").decode("unicode_escape")
        case = {"kind": "escape", "s": s}
        ctx.case(case, nontrivial=is_changed_by_escape(s), tags=["escape"])
        if back != s:
            report(ctx, "unicode-escape-codec-does-not-round-trip", case, {"escaped": esc, "back": back})
        if mouts is None:
            continue
        ctx.compare("str.encode('unicode_escape') == StatusFile.escape", case, {"out": uncp(mouts[2 * i]["out"])}, {"out": esc})
        mun = uncp(mouts[2 * i + 1]["out"])
        if mun is not None and all(ord(c) < 128 for c in s):
            # direct decoder comparison on inputs inside the decoder model's domain
            try:
                import warnings
                with warnings.catch_warnings():
                    warnings.simplefilter("ignore")
                    iun = s.encode("utf-8").decode("unicode_escape")
            except UnicodeDecodeError:
                iun = None
            ctx.compare("bytes.decode('unicode_escape') == StatusFile.unescape (model domain)", case, {"out": mun}, {"out": iun})
            ctx.tag("unescape:in-domain")


# ----------------------------------------------------------------------------------------
# atomicity of one update (generic)
# ----------------------------------------------------------------------------------------

def pick_boundaries(rng, n, tier):
    if n <= 14 or (tier == "thorough" and n <= 400):
        return list(range(n))
    keep = set(range(0, 4)) | set(range(n - 5, n))
    want = 8 if tier == "quick" else 200
    while len(keep) < min(n, 9 + want):
        keep.add(rng.randrange(n))
    return sorted(keep)


def listing(dirs):
    out = set()
    for d in dirs:
        try:
            out |= {os.path.join(d, f) for f in os.listdir(d)}
        except FileNotFoundError:
            pass
    return out


def check_update(ctx, case, label, root, targets, do_update, save_state, restore_state, loaders, boundaries=None):
    """targets: {short name: absolute path}; loaders: {short name: fn(path) raising when the file cannot be loaded}"""
    dirs = sorted({os.path.dirname(p) for p in targets.values()})
    old = {n: read_disk(p) for n, p in targets.items()}
    state0 = save_state()
    before = listing(dirs)

    def restore():
        restore_state(state0)
        for n, p in targets.items():
            write_disk(p, old[n])
        for junk in listing(dirs) - before - set(targets.values()):
            try:
                _orig["remove"](junk)
            except OSError:
                pass

    def attempt(**kw):
        with Tracer(root, list(targets.values()), **kw) as tr:
            try:
                do_update()
                err = None
            except InjectedIOError:
                err = "propagated:InjectedIOError"
            except Exception as exc:  # noqa
                err = "propagated:" + type(exc).__name__
        return tr, err

    # 1. reference run, every write flushed
    tr, err = attempt()
    new = {n: read_disk(p) for n, p in targets.items()}
    ops = tr.ops
    nb = tr.n
    tags = ["%s:ops=%s" % (label, "<=8" if len(ops) <= 8 else "<=64" if len(ops) <= 64 else ">64")]
    ctx.case(case, nontrivial=len(ops) + 1 >= 3, tags=tags)
    if err:
        report(ctx, "update-raises-without-fault-" + label, case, {"error": err})
    relname = {n: tr.rel(p) for n, p in targets.items()}

    def verdict(n, content):
        return content == old[n] or content == new[n]

    def loadable(n, content, scratch):
        if content is None:
            return None
        p = os.path.join(scratch, "probe-" + os.path.basename(targets[n]))
        write_disk(p, content)
        try:
            loaders[n](p)
            return None
        except Exception as exc:  # noqa
            return type(exc).__name__ + ": " + str(exc)[:160]

    scratch = tempfile.mkdtemp(prefix="c14-probe-")
    try:
        # complete versions must load
        for n in targets:
            for which, content in (("old", old[n]), ("new", new[n])):
                why = loadable(n, content, scratch)
                if why:
                    report(ctx, "complete-%s-version-does-not-load-%s" % (which, n), case, {"error": why, "content": content})
        # model: protocol predicate + all crash states
        reqs = []
        for n in targets:
            files = [[cp(relname[m]), cp(old[m])] for m in targets if old[m] is not None]
            reqs.append({"op": "trace", "target": cp(relname[n]), "files": files,
                         "ops": [{k: (cp(v) if k != "k" else v) for k, v in o.items()} for o in ops]})
        mouts = ctx.model(reqs)
        for ti, n in enumerate(targets):
            # the trace has len(ops) ops => len(ops)+1 prefixes; snapshots are taken before each *boundary* and at
            # the end; without a fault every boundary performs exactly one op, so they coincide
            snaps = [s[relname[n]] for s in tr.snaps]
            first_bad = None
            for i, c in enumerate(snaps):
                if not verdict(n, c):
                    first_bad = i
                    break
            if first_bad is not None:
                report(ctx, "crash-leaves-neither-old-nor-new-" + n, case,
                         {"crash_after_ops": first_bad, "next_op": tr.kinds[first_bad] if first_bad < len(tr.kinds) else None,
                          "on_disk": snaps[first_bad], "old": old[n], "new_len": None if new[n] is None else len(new[n]),
                          "ops": [o["k"] + ":" + (o.get("p") or o.get("b")) for o in ops][:12]})
                why = loadable(n, snaps[first_bad], scratch)
                if why:
                    ctx.tag("crash-state-unloadable:" + n)
            if mouts is not None:
                m = mouts[ti]
                ctx.tag("%s:%s:model-atomic=%s" % (label, n, m["atomic"]))
                ctx.compare("on-disk content of %s at every crash point == FsAtomic.crashStates" % n, case,
                            {"states": [uncp(s) for s in m["states"]]}, {"states": snaps})
                ctx.compare("first unsafe crash point of %s == FsAtomic.firstUnsafe" % n, case,
                            {"first_unsafe": m["first_unsafe"]}, {"first_unsafe": first_bad})
                if m["atomic"] and first_bad is not None:
                    ctx.compare("isAtomicProtocol => no unsafe crash point (atomic_protocol_safe)", case,
                                {"unsafe": None}, {"unsafe": first_bad})
        # 2. same update with Python's real buffering: snapshots = what a kill -9 leaves
        restore()
        trb, _ = attempt(flush_each=False)
        for n in targets:
            for i, s in enumerate(trb.snaps):
                c = s[relname[n]]
                if not verdict(n, c):
                    report(ctx, "crash-leaves-neither-old-nor-new-" + n, case,
                             {"buffered": True, "crash_after_ops": i, "on_disk": c, "old": old[n],
                              "new_len": None if new[n] is None else len(new[n])})
                    break
        # 3. injected I/O errors
        bs = boundaries if boundaries is not None else pick_boundaries(ctx.rng, nb, ctx.tier)
        for i in bs:
            restore()
            trf, ferr = attempt(fault_at=i)
            ctx.tag("fault:%s:%s" % (label, tr.kinds[i] if i < len(tr.kinds) else "?"))
            ctx.tag("fault-outcome:" + ("handled" if ferr is None else ferr))
            if not trf.fired:
                ctx.tag("fault:not-reached")
                continue
            if ferr and not ferr.endswith("InjectedIOError"):
                ctx.tag("fault:other-exception")
            for n, p in targets.items():
                c = read_disk(p)
                if not verdict(n, c):
                    report(ctx, "io-error-leaves-neither-old-nor-new-" + n, case,
                             {"fault_at_boundary": i, "boundary_kind": trf.kinds[i], "on_disk": c, "old": old[n],
                              "new_len": None if new[n] is None else len(new[n]),
                              "ops_after_fault": [o["k"] for o in trf.ops][-4:]})
                else:
                    why = loadable(n, c, scratch)
                    if why:
                        report(ctx, "io-error-leaves-unloadable-" + n, case, {"fault_at_boundary": i, "error": why})
        ctx.extra["fault_runs"] = ctx.extra.get("fault_runs", 0) + len(bs)
        ctx.extra["crash_points_enumerated"] = ctx.extra.get("crash_points_enumerated", 0) + (len(tr.snaps) + len(trb.snaps)) * len(targets)
        # leave the world as after a successful update
        restore()
        do_update()
        for junk in listing(dirs) - before - set(targets.values()):
            ctx.tag("junk-temp-file-left-behind:" + label)
            try:
                _orig["remove"](junk)
            except OSError:
                pass
    finally:
        shutil.rmtree(scratch, ignore_errors=True)


# ----------------------------------------------------------------------------------------
# the five writers
# ----------------------------------------------------------------------------------------

def status_atomic(ctx, case, workdir):
    """case: {"kind":"status-atomic","stages":[..],"rounds":[[setter calls]...]}: all but the last round are
    history, the last round is the update under test"""
    E = env()
    D = E["D"]
    path = os.path.join(workdir, "status.txt")
    write_disk(path, None)
    _FixedDT._n = 0
    st = D.Status(path, {}, list(case["stages"]))
    for rnd in case["rounds"][:-1]:
        for name, arg in rnd:
            getattr(st, name)(arg)
        st.update()
    for name, arg in case["rounds"][-1]:
        getattr(st, name)(arg)

    def save():
        return (copy.deepcopy(st.data), _FixedDT._n)

    def restore(s):
        st.data = copy.deepcopy(s[0])
        _FixedDT._n = s[1]

    check_update(ctx, case, "status", workdir, {"status.txt": path}, st.update, save, restore,
                 {"status.txt": D.Status.statusFromFile}, boundaries=case.get("boundaries"))


FLOWIR_TEMPLATE = """
variables:
  default:
    global:
      greeting: %(var)s
components:
%(components)s
output:
  greeting:
    data-in: stage0.c0/out.txt:ref
  Other:
    data-in: stage0.c0/res.csv:copy
"""


def flowir_text(ncomp, var):
    comps = []
    for i in range(ncomp):
        comps.append("- name: c%d\n  stage: %d\n  command:\n    executable: echo\n    arguments: \"%%(greeting)s %d\"\n" % (i, i % 2 if i else 0, i))
    return FLOWIR_TEMPLATE % {"var": json.dumps(var), "components": "".join(comps)}


class _Exp:
    """a real Experiment instance on disk (built once per parameter set, reused by several cases)"""
    cache = {}

    @classmethod
    def get(cls, workdir, ncomp, var):
        key = (ncomp, var)
        if key not in cls.cache:
            E = env()
            cwd = os.getcwd()
            try:
                exp = E["TU"].experiment_from_flowir(flowir_text(ncomp, var), workdir, checkExecutables=False)
            finally:
                os.chdir(cwd)
            cls.cache[key] = exp
            out = os.path.realpath(exp.instanceDirectory.outputDir)
            if not out.startswith(os.path.realpath(workdir) + os.sep):
                _WORK.setdefault("shadow", []).append(os.path.dirname(out))
        return cls.cache[key]

    @staticmethod
    def roots(exp):
        return {"$I": exp.instanceDirectory.location, "$O": os.path.realpath(exp.instanceDirectory.outputDir)}


def load_output_json(path):
    E = env()
    return E["D"].Experiment._parse_outputs_file(path)


def load_output_txt(path):
    import configparser
    cfg = configparser.ConfigParser(interpolation=None)
    with _orig_open(path) as fh:
        cfg.read_file(fh)
    return cfg


def apply_output_update(agent, upd):
    for k, st in upd.items():
        agent.dataReferences[k]["status"].update(st)


def output_case(ctx, case, workdir):
    """case: {"kind":"output","ncomp":..,"var":..,"updates":[{key-output: {version,lastLocation,creationTime,final}}...],
    "atomic": bool}: all updates are performed; fidelity is checked after each; atomicity on the last one"""
    E = env()
    exp = _Exp.get(workdir, case["ncomp"], case["var"])
    agent = E["O"].OutputAgent(exp)
    outdir = os.path.realpath(exp.instanceDirectory.outputDir)
    txt = os.path.join(outdir, "output.txt")
    js = os.path.join(outdir, "output.json")
    write_disk(txt, None)
    write_disk(js, None)
    ups = case["updates"]
    if case.get("atomic"):
        # both files exist (possibly listing nothing) before the update under test: output.json is derived from
        # output.txt, so "previous version" is only meaningful for a consistent pair
        agent.updateLogs()
    if not case.get("atomic"):
        descs = [v["lastLocation"] for u in ups for v in u.values()]
        ctx.case(case, nontrivial=len(ups) >= 2, tags=["output-history:updates=%d" % len(ups)] + sorted(
            {"output:path-has-" + nm for d in descs for nm, f in (("percent", "%" in d), ("equals", "=" in d),
                                                                   ("nonascii", any(ord(c) > 126 for c in d)),
                                                                   ("space", " " in d),
                                                                   ("inline-comment-mark", bool(INLINE_MARK.search(d))),
                                                                   ("comment-char", "#" in d or ";" in d),
                                                                   ("bracket-or-colon", any(c in d for c in "[]:"))) if f})
                 + (["output:free-text-description"] if any(v.get("description") for u in ups for v in u.values()) else []))
    items = []
    for i, upd in enumerate(ups):
        last = i == len(ups) - 1
        apply_output_update(agent, upd)
        if last and case.get("atomic"):
            def save():
                return {k: copy.deepcopy(v["status"]) for k, v in agent.dataReferences.items()}

            def restore(s):
                for k, v in s.items():
                    agent.dataReferences[k]["status"] = copy.deepcopy(v)

            check_update(ctx, case, "output", _Exp.roots(exp), {"output.txt": txt, "output.json": js},
                         agent.updateLogs, save, restore, {"output.txt": load_output_txt, "output.json": load_output_json},
                         boundaries=case.get("boundaries"))
            continue
        where = {"after_update": i + 1}
        try:
            agent.updateLogs()
        except Exception as exc:  # noqa
            report(ctx, "output-update-raises", case, dict(where, error=type(exc).__name__ + ": " + str(exc)[:200]))
            continue
        try:
            loaded = load_output_json(js)
        except Exception as exc:  # noqa
            report(ctx, "output-json-does-not-load", case, dict(where, error=type(exc).__name__ + ": " + str(exc)[:200]))
            continue
        for k, v in agent.dataReferences.items():
            s = v["status"]
            if s["version"] == 0:
                if k in loaded:
                    report(ctx, "output-lists-unproduced-key-output", case, dict(where, key=k))
                continue
            got = loaded.get(k)
            exp_vals = {"filepath": s["lastLocation"], "filename": os.path.split(s["lastLocation"])[1],
                        "version": s["version"], "final": s["final"], "production": s["production"]}
            if isinstance(s.get("description"), str) and isinstance(s.get("type"), str):
                exp_vals.update({"description": s["description"], "type": s["type"]})
            if got is None:
                report(ctx, "output-value-not-read-back", case, dict(where, key=k, field="<entry>", expected=k, loaded=None))
                continue
            for f, e in exp_vals.items():
                if not texact(got.get(f), e):
                    report(ctx, "output-value-not-read-back", case, dict(where, key=k, field=f, expected=e, loaded=got.get(f)))
                    break
        items.append((case, where, listing_fields(agent), load_output_raw(js)))
    if _LDEFER[0] is not None:
        _LDEFER[0].extend(items)
    else:
        _listing_compare(ctx, items)


LISTING_KEYS = ["filename", "filepath", "description", "type", "creationTime", "version", "production", "final"]


def listing_fields(agent):
    """the (option, text) pairs updateLogs writes per produced key-output, formatted as its "%s" / "%d" do"""
    out = {}
    for k, v in agent.dataReferences.items():
        s = v["status"]
        if s["version"] == 0:
            continue
        vals = dict(s, filename=os.path.split(s["lastLocation"])[1], filepath=s["lastLocation"])
        out[k] = [[key, ("%d" % vals[key]) if key == "version" else "%s" % (vals[key],)] for key in LISTING_KEYS]
    return out


def load_output_raw(path):
    """output.json as it is (sections -> option -> text); None when it does not load"""
    try:
        with _orig_open(path) as fh:
            doc = json.load(fh)
        return doc if isinstance(doc, dict) else None
    except Exception:  # noqa
        return None


_LDEFER = [None]      # when a list: the model comparisons of key-output listings are collected and answered in one batch


def _listing_compare(ctx, items):
    """St4sd.Listing (the dosini reader without inline comment prefixes, theorem listing_line_roundtrip) against the
    output.json the real updateLogs derived from the output.txt it wrote"""
    flat = [(case, where, k, fields, (raw or {}).get(k)) for case, where, allf, raw in items for k, fields in sorted(allf.items())
            if all("\n" not in v and "\r" not in v for _, v in fields)]
    if not flat:
        return
    mo = ctx.model([{"op": "listing", "inl": [], "fields": [[cp(a), cp(b)] for a, b in fields]} for _, _, _, fields, _ in flat])
    if mo is None:
        return
    for (case, where, k, fields, impl), m in zip(flat, mo):
        model = None
        if isinstance(m, dict) and "read" in m:
            model = {}
            for r in m["read"]:
                if r is None:
                    model = None
                    break
                model[uncp(r[0])] = uncp(r[1])
        ctx.compare("listing-section-read-back", dict(case, _where=dict(where, key=k)), model,
                    impl if impl is None or isinstance(impl, dict) else "<not a section>")


STAGE_FLOWIR = """
components:
- name: c0
  command:
    executable: echo
    arguments: hi
output:
%(outputs)s
"""

STAGE_TOKENS = [" #", " ;", " # ", " ;", "#", ";", " ", "-", "(", ")", "é", " = ", "=", "%", "  #", "\t;"]


def gen_stage_name(rng):
    parts = [rng.choice(NAME_WORDS)]
    for _ in range(rng.randint(1, 2)):
        parts += [rng.choice(STAGE_TOKENS), rng.choice(NAME_WORDS)]
    return "".join(parts) + rng.choice([".csv", ".txt", ""])


def gen_output_stage(rng):
    names = {}
    for k in ("Summary", "Notes", "plain"):
        sub = (gen_stage_name(rng) + "/") if rng.random() < 0.25 else ""
        names[k] = sub + (gen_stage_name(rng) if k != "plain" else "plain.csv")
    return dict(kind="output-stage", names=names, rounds=rng.randint(1, 3))


def output_stage_case(ctx, case, workdir):
    """case: {"kind":"output-stage","names":{key-output: path below the working directory of stage0.c0},"rounds":n}: a real
    experiment whose key-outputs are the files with those names (which exist); OutputAgent.process_stage(0) n times (the
    path elaunch takes after every stage), then the listing is read back with Experiment._parse_outputs_file"""
    E = env()
    names = case["names"]
    marks = sorted({nm for d in names.values() for nm, f in (("inline-comment-mark", bool(INLINE_MARK.search(d))),
                                                              ("comment-char", "#" in d or ";" in d)) if f})
    d = tempfile.mkdtemp(prefix="stage-", dir=workdir)
    cwd = os.getcwd()
    try:
        outputs = "".join("  %s:\n    data-in: %s\n" % (k, json.dumps("stage0.c0/%s:copy" % v, ensure_ascii=False))
                          for k, v in sorted(names.items()))
        try:
            exp = E["TU"].experiment_from_flowir(STAGE_FLOWIR % {"outputs": outputs}, d, checkExecutables=False)
            agent = E["O"].OutputAgent(exp)
            refs = {k: agent.dataReferences[k]["references"][0].location(exp.experimentGraph) for k in names}
        except Exception as exc:  # noqa
            # the front end does not accept this reference: nothing is ever written, no case
            ctx.case(case, nontrivial=False, tags=["output-stage:reference-rejected:" + type(exc).__name__])
            return
        finally:
            os.chdir(cwd)
        ctx.case(case, nontrivial=bool(marks) and case["rounds"] >= 2,
                 tags=["output-stage:rounds=%d" % case["rounds"]] + ["output-stage:name-has-" + m for m in marks])
        inst = exp.instanceDirectory.location
        outdir = os.path.realpath(exp.instanceDirectory.outputDir)
        if not outdir.startswith(os.path.realpath(workdir) + os.sep):
            _WORK.setdefault("shadow", []).append(os.path.dirname(outdir))
        js = os.path.join(outdir, "output.json")
        for k, loc in refs.items():
            os.makedirs(os.path.dirname(loc), exist_ok=True)
            with _orig_open(loc, "w") as fh:
                fh.write("a,b\n1,2\n")
        items = []
        for i in range(case["rounds"]):
            where = {"after_update": i + 1}
            try:
                agent.process_stage(0)
            except Exception as exc:  # noqa
                report(ctx, "output-update-raises", case, dict(where, error=type(exc).__name__ + ": " + str(exc)[:200]))
                continue
            try:
                loaded = load_output_json(js)
            except Exception as exc:  # noqa
                report(ctx, "output-json-does-not-load", case, dict(where, error=type(exc).__name__ + ": " + str(exc)[:200]))
                continue
            for k, loc in sorted(refs.items()):
                st = agent.dataReferences[k]["status"]
                written = os.path.relpath(loc, inst)
                if st["version"] != i + 1 or st["lastLocation"] != written:
                    report(ctx, "output-stage-not-recorded", case, dict(where, key=k, status={a: repr(b) for a, b in st.items()}))
                    continue
                got = loaded.get(k)
                exp_vals = {"filepath": written, "filename": os.path.split(written)[1], "version": i + 1, "final": st["final"]}
                if got is None:
                    report(ctx, "output-value-not-read-back", case, dict(where, key=k, field="<entry>", expected=k, loaded=None))
                    continue
                for f, e in exp_vals.items():
                    if not texact(got.get(f), e):
                        report(ctx, "output-value-not-read-back", case,
                               dict(where, key=k, field=f, expected=e, loaded=got.get(f)))
                        break
            items.append((case, where, listing_fields(agent), load_output_raw(js)))
        if _LDEFER[0] is not None:
            _LDEFER[0].extend(items)
        else:
            _listing_compare(ctx, items)
    finally:
        os.chdir(cwd)
        shutil.rmtree(d, ignore_errors=True)


class _FakeStatusDB:
    def __init__(self):
        self.doc = None

    def getWorkflowStatus(self, json_friendly=True):
        return self.doc


def details_case(ctx, case, workdir):
    """case: {"kind":"details","ncomp","var","docs":[json documents]}: atomicity on the last document"""
    E = env()
    exp = _Exp.get(workdir, case["ncomp"], case["var"])
    mon = E["O"].StatusMonitor(exp, report_components=False)
    db = _FakeStatusDB()
    mon._status_database = db
    outdir = os.path.realpath(exp.instanceDirectory.outputDir)
    target = os.path.join(outdir, "status_details.json")
    write_disk(target, None)
    for doc in case["docs"][:-1]:
        db.doc = doc
        mon.try_generate_status_details()
        got = json.load(_orig_open(target))
        if not texact(got, doc):
            report(ctx, "status-details-not-read-back", case, {"expected": doc, "loaded": got})
    db.doc = case["docs"][-1]

    def load(p):
        with _orig_open(p) as fh:
            return json.load(fh)

    check_update(ctx, case, "details", _Exp.roots(exp), {"status_details.json": target},
                 mon.try_generate_status_details, lambda: None, lambda s: None, {"status_details.json": load},
                 boundaries=case.get("boundaries"))
    got = load(target)
    if not texact(got, case["docs"][-1]):
        report(ctx, "status-details-not-read-back", case, {"expected": case["docs"][-1], "loaded": got})


def load_flowir_instance(path):
    import yaml
    with _orig_open(path) as fh:
        doc = yaml.safe_load(fh)
    if not isinstance(doc, dict) or not doc.get("components"):
        raise ValueError("flowir_instance.yaml does not hold a FlowIR dictionary with components")
    import experiment.model.frontends.flowir as F
    F.FlowIRConcrete(doc, "default", {})
    return doc


def load_manifest(path):
    import yaml
    with _orig_open(path) as fh:
        doc = yaml.safe_load(fh)
    if not isinstance(doc, dict) or not doc:
        raise ValueError("manifest.yaml does not hold a dictionary")
    import experiment.model.frontends.flowir as F
    F.Manifest(doc, validate=True)
    return doc


def instance_case(ctx, case, workdir):
    """case: {"kind":"instance","ncomp","var","writer":"store"|"generate","fresh":bool}"""
    exp = _Exp.get(workdir, case["ncomp"], case["var"])
    conf = exp.configuration
    confdir = os.path.realpath(conf._conf_dir)
    inst = os.path.join(confdir, "flowir_instance.yaml")
    man = os.path.join(confdir, "manifest.yaml")
    if case.get("fresh"):
        write_disk(inst, None)
        if case["writer"] == "generate":
            write_disk(man, None)
    if case["writer"] == "store":
        def upd():
            conf.store_unreplicated_flowir_to_disk()
        targets = {"flowir_instance.yaml": inst}
    else:
        def upd():
            errs = []
            conf._generate_instance_files(True, True, errs)
            if errs:
                raise errs[0]
        targets = {"flowir_instance.yaml": inst, "manifest.yaml": man}
    check_update(ctx, case, "instance-" + case["writer"], _Exp.roots(exp), targets, upd,
                 lambda: None, lambda s: None, {"flowir_instance.yaml": load_flowir_instance, "manifest.yaml": load_manifest},
                 boundaries=case.get("boundaries"))
    if case.get("reload"):
        E = env()
        try:
            cwd = os.getcwd()
            E["D"].Experiment.experimentFromInstance(exp.instanceDirectory.location, updateInstanceConfiguration=False)
            os.chdir(cwd)
            ctx.tag("instance:reloaded-with-experimentFromInstance")
        except Exception as exc:  # noqa
            report(ctx, "instance-does-not-reload-after-update", case, {"error": type(exc).__name__ + ": " + str(exc)[:300]})


# ----------------------------------------------------------------------------------------
# typed values in the YAML / JSON state files: exact (type-exact) read-back over update histories
# ----------------------------------------------------------------------------------------
# Python's == identifies 1 / True / 1.0, 0 / False / 0.0 / -0.0, 3 / 3.0 (also inside lists and dicts); the files do not.
# "Reading back returns exactly the values last written" is checked with a TYPE-EXACT comparison: both sides are
# translated to the tagged encoding the Lean model (St4sd.TypedStore.YVal) uses and the encodings are compared.

def _ksort(k):
    """type-blind canonical order of the keys of one dict (keys of one dict are pairwise ==-different)"""
    if isinstance(k, (bool, int)):
        return (0, Fraction(int(k)), "")
    if isinstance(k, float):
        if math.isinf(k) or math.isnan(k):
            return (0, Fraction(10 ** 400 if k > 0 else -10 ** 400), "")
        return (0, Fraction(k), "")
    if isinstance(k, str):
        return (1, 0, k)
    if k is None:
        return (2, 0, "")
    return (3, 0, repr(k))


def yenc(v):
    """typed value -> tagged encoding (JSON-able, exact for floats)"""
    if v is None:
        return {"t": "n"}
    if type(v) is bool:
        return {"t": "b", "v": v}
    if type(v) is int:
        return {"t": "i", "v": v}
    if type(v) is float:
        if v == 0 and math.copysign(1, v) < 0:
            return {"t": "x", "k": 0}
        if math.isinf(v):
            return {"t": "x", "k": 1 if v > 0 else 2}
        if math.isnan(v):
            return {"t": "o", "v": "nan"}
        n, d = v.as_integer_ratio()
        return {"t": "f", "m": n, "e": d.bit_length() - 1}
    if type(v) is str:
        return {"t": "s", "v": [ord(c) for c in v]}
    if type(v) is list:
        return {"t": "l", "v": [yenc(x) for x in v]}
    if type(v) is dict:
        flat = []
        for k in sorted(v, key=_ksort):
            flat += [yenc(k), yenc(v[k])]
        return {"t": "m", "v": flat}
    return {"t": "o", "v": "%s:%r" % (type(v).__name__, v)}


def ydec(e):
    t = e["t"]
    if t == "n":
        return None
    if t in ("b", "i"):
        return e["v"]
    if t == "f":
        return float(Fraction(e["m"], 2 ** e["e"]))
    if t == "x":
        return [-0.0, float("inf"), float("-inf")][e["k"]]
    if t == "s":
        return "".join(chr(c) for c in e["v"])
    if t == "l":
        return [ydec(x) for x in e["v"]]
    if t == "m":
        return {ydec(e["v"][i]): ydec(e["v"][i + 1]) for i in range(0, len(e["v"]), 2)}
    raise common.InfraError("cannot decode typed value %r" % (e,))


def ycanon(e):
    return None if e is None else json.dumps(e, sort_keys=True)


def texact(a, b):
    """type-exact equality of two loaded / written values (dict insertion order is not a value)"""
    return ycanon(yenc(a)) == ycanon(yenc(b))


def has_tag_o(e):
    if e["t"] == "o":
        return True
    if e["t"] in ("l", "m"):
        return any(has_tag_o(x) for x in e["v"])
    return False


TYPED_FLOWIR = """
variables:
  default:
    global:
      greeting: hello
      dt: 1
    stages:
      0:
        sv: 1
components:
- name: c0
  stage: 0
  command:
    executable: echo
    arguments: "%(greeting)s %(dt)s"
  variables:
    cv: 1
  resourceManager:
    config:
      walltime: 60.0
  resourceRequest:
    numberProcesses: 1
  workflowAttributes:
    maxRestarts: 3
    isMigratable: false
- name: c1
  stage: 1
  command:
    executable: echo
    arguments: "%(greeting)s"
output:
  greeting:
    data-in: stage0.c0/out.txt:ref
  Other:
    data-in: stage0.c0/res.csv:copy
"""

STORE_SLOTS = ["global:dt", "global:c14typed", "stage0:sv", "comp:cv", "opt:#resourceManager.config.walltime",
               "opt:#resourceRequest.numberProcesses", "opt:#workflowAttributes.maxRestarts",
               "opt:#workflowAttributes.isMigratable"]


def _typed_exp(workdir, fresh=False, key=("typed",)):
    E = env()
    if fresh:
        _Exp.cache.pop(key, None)
    if key not in _Exp.cache:
        cwd = os.getcwd()
        sub = tempfile.mkdtemp(prefix="typed-", dir=workdir)
        vf = os.path.join(sub, "vars.yaml")
        with _orig_open(vf, "w") as fh:
            fh.write("global:\n  uv: 1\n")
        try:
            exp = E["TU"].experiment_from_flowir(TYPED_FLOWIR, sub, checkExecutables=False, variable_files=[vf])
        finally:
            os.chdir(cwd)
        _Exp.cache[key] = exp
        out = os.path.realpath(exp.instanceDirectory.outputDir)
        if not out.startswith(os.path.realpath(workdir) + os.sep):
            _WORK.setdefault("shadow", []).append(os.path.dirname(out))
    return _Exp.cache[key]


def _store_slot_set(U, slot, value):
    kind, _, name = slot.partition(":")
    if kind == "global":
        U.set_global_variable(name, value)
    elif kind == "stage0":
        U.set_stage_variable(0, name, value)
    elif kind == "comp":
        U.set_component_option((0, "c0"), name, value)
    elif kind == "opt":
        U.set_component_option((0, "c0"), name, value)
    else:
        raise common.InfraError("unknown slot %r" % slot)


_MISSING = "<missing>"


def _store_slot_get(doc, slot):
    kind, _, name = slot.partition(":")
    try:
        if kind == "global":
            return doc["variables"]["default"]["global"][name]
        if kind == "stage0":
            return doc["variables"]["default"]["stages"][0][name]
        comp = [c for c in doc["components"] if c.get("name") == "c0" and c.get("stage", 0) == 0][0]
        if kind == "comp":
            return comp["variables"][name]
        cur = comp
        for part in name[1:].split("."):
            cur = cur[part]
        return cur
    except (KeyError, IndexError, TypeError):
        return _MISSING


def _yload(path):
    import experiment.model.frontends.flowir as F
    with _orig_open(path) as fh:
        return F.yaml_load(fh)


def typed_history(ctx, case, workdir):
    """case: {"kind":"typed-history","driver":"dump"|"store"|"generate"|"manifest"|"restart"|"details","docs":[tagged
    documents], ...}: every document is written by the real writer of `driver` (one update each), the file is loaded
    with the real loader after every update and must hold exactly (type-exactly) the document just written.
      dump     - FlowIRExperimentConfiguration._yaml_dump_atomically(doc, path, **style) (the primitive behind
                 flowir_instance.yaml and manifest.yaml), any document
      store    - documents are {slot: scalar}: the slots (global / stage / component variables, component options) are
                 set through the FlowIRConcrete API of the live configuration, then store_unreplicated_flowir_to_disk()
      generate - as store, written by _generate_instance_files(True, True, errors)
      manifest - documents are {target: source} string maps: Manifest.update(doc) then _generate_instance_files
      restart  - documents are {variable: scalar}: input/variables.yaml of the instance is rewritten, then
                 Experiment.experimentFromInstance(location) updates the instance files
      details  - JSON documents returned by the status database, StatusMonitor.try_generate_status_details()"""
    E = env()
    driver = case["driver"]
    docs = [ydec(d) for d in case["docs"]]
    written, reads, extra_fail = [], [], []
    cwd = os.getcwd()
    if driver == "dump":
        d = tempfile.mkdtemp(prefix="typed-dump-", dir=workdir)
        path = os.path.join(d, "conf.yaml")
        style = dict(sort_keys=False, default_flow_style=False) if case.get("style") == "instance" else {}
        dump = E["C"].FlowIRExperimentConfiguration._yaml_dump_atomically
        for doc in docs:
            dump(copy.deepcopy(doc), path, **style)
            written.append(doc)
            reads.append(_yload(path))
        junk = sorted(set(os.listdir(d)) - {"conf.yaml"})
        if junk:
            ctx.tag("junk-temp-file-left-behind:typed-dump")
        shutil.rmtree(d, ignore_errors=True)
    elif driver in ("store", "generate"):
        exp = _typed_exp(workdir, fresh=bool(case.get("fresh")))
        conf = exp.configuration
        U = conf._unreplicated
        inst = os.path.join(os.path.realpath(conf._conf_dir), "flowir_instance.yaml")
        state = {}
        import experiment.model.frontends.flowir as F
        for i, doc in enumerate(docs):
            for slot, value in doc.items():
                _store_slot_set(U, slot, value)
                state[slot] = value
            if driver == "store":
                conf.store_unreplicated_flowir_to_disk()
            else:
                errs = []
                conf._generate_instance_files(True, True, errs)
                if errs:
                    extra_fail.append(("typed-update-raises", {"after_update": i + 1, "error": repr(errs[0])[:300]}))
            loaded = _yload(inst)
            # the values last written = what the live configuration holds now (FlowIRConcrete.instance() normalises the
            # type of some known component options, e.g. walltime -> float: that happens before the file is written)
            whole = U.instance(ignore_errors=True, inject_missing_fields=False, fill_in_all=False, is_primitive=True)
            written.append({slot: _store_slot_get(whole, slot) for slot in state})
            reads.append({slot: _store_slot_get(loaded, slot) for slot in state})
            if not texact(whole, loaded):
                extra_fail.append(("typed-instance-document-not-read-back",
                                   {"after_update": i + 1, "slots": {k: repr(v) for k, v in state.items()},
                                    "loaded_slots": {k: repr(_store_slot_get(loaded, k)) for k in state}}))
    elif driver == "manifest":
        exp = _typed_exp(workdir, fresh=bool(case.get("fresh")))
        conf = exp.configuration
        man = os.path.join(os.path.realpath(conf._conf_dir), "manifest.yaml")
        base = set(conf.manifestData)
        for i, doc in enumerate(docs):
            conf._manifest.update(doc)
            errs = []
            conf._generate_instance_files(True, True, errs)
            if errs:
                extra_fail.append(("typed-update-raises", {"after_update": i + 1, "error": repr(errs[0])[:300]}))
            loaded = _yload(man)
            now = conf.manifestData
            written.append({k: v for k, v in now.items() if k not in base})
            reads.append({k: v for k, v in loaded.items() if k not in base} if isinstance(loaded, dict) else loaded)
            if not texact(now, loaded):
                extra_fail.append(("typed-manifest-not-read-back", {"after_update": i + 1}))
        for k in list(conf._manifest._manifest):
            if k not in base:
                del conf._manifest._manifest[k]
    elif driver == "restart":
        import yaml
        exp = _typed_exp(workdir, fresh=bool(case.get("fresh")), key=("typed-restart",))
        loc = exp.instanceDirectory.location
        inst = os.path.join(os.path.realpath(exp.configuration._conf_dir), "flowir_instance.yaml")
        uv = os.path.join(loc, "input", "variables.yaml")
        for i, doc in enumerate(docs):
            with _orig_open(uv, "w") as fh:
                yaml.safe_dump({"global": doc}, fh)
            try:
                E["D"].Experiment.experimentFromInstance(loc)
            except Exception as exc:  # noqa
                extra_fail.append(("typed-update-raises", {"after_update": i + 1, "error": type(exc).__name__ + ": " + str(exc)[:300]}))
            finally:
                os.chdir(cwd)
            loaded = _yload(inst)
            written.append(dict(doc))
            try:
                st0 = loaded["variables"]["default"]["stages"][0]
            except (KeyError, TypeError):
                st0 = {}
            reads.append({k: st0.get(k, _MISSING) for k in doc})
        with _orig_open(uv, "w") as fh:
            fh.write("global:\n  uv: 1\n")
    elif driver == "details":
        exp = _typed_exp(workdir)
        mon = E["O"].StatusMonitor(exp, report_components=False)
        db = _FakeStatusDB()
        mon._status_database = db
        target = os.path.join(os.path.realpath(exp.instanceDirectory.outputDir), "status_details.json")
        write_disk(target, None)
        for doc in docs:
            db.doc = copy.deepcopy(doc)
            mon.try_generate_status_details()
            written.append(doc)
            with _orig_open(target) as fh:
                reads.append(json.load(fh))
    else:
        raise common.InfraError("unknown typed-history driver %r" % driver)

    encw = [yenc(w) for w in written]
    encr = [yenc(r) for r in reads]
    retyped = sum(1 for a, b in zip(written, written[1:]) if a == b and not texact(a, b))
    ident = sum(1 for a, b in zip(written, written[1:]) if texact(a, b))
    ctx.case(case, nontrivial=len(docs) >= 2 and retyped >= 1,
             tags=["typed:%s:updates=%d" % (driver, len(docs)), "typed:%s:retyped-updates=%s" % (driver, min(retyped, 3)),
                   "typed:%s:identical-rewrites=%s" % (driver, min(ident, 2))])
    for what, detail in extra_fail:
        report(ctx, what, case, detail)
    for i, (w, r) in enumerate(zip(encw, encr)):
        if ycanon(w) != ycanon(r):
            report(ctx, "typed-value-not-read-back-" + driver, case,
                   {"after_update": i + 1, "written": repr(written[i]), "loaded": repr(reads[i]),
                    "previous": repr(written[i - 1]) if i else None,
                    "equal_under_python_eq": bool(written[i] == reads[i])})
            break
    if any(has_tag_o(e) for e in encw + encr):
        return
    if _TDEFER[0] is not None and not isinstance(ctx, _Probe):
        _TDEFER[0].append((case, driver, encw, encr))
        return
    _typed_compare(ctx, [(case, driver, encw, encr)])


_TDEFER = [None]      # when a list: the model comparisons of typed histories are collected and answered in one batch


def _typed_compare(ctx, items):
    if not items:
        return
    mo = ctx.model([{"op": "ystore", "docs": encw} for _, _, encw, _ in items])
    if mo is None:
        return
    for (case, driver, encw, encr), m in zip(items, mo):
        ctx.compare("value loaded after every update of a %s history == TypedStore.readBacks writeAlways" % driver, case,
                    {"reads": [ycanon(x) for x in m["reads"]]}, {"reads": [ycanon(x) for x in encr]})
        if not all(m["pyeq_skip_same"]):
            ctx.tag("typed:history-distinguishes-a-pyeq-skipping-writer")
        if not m["structural_skip_same"]:
            ctx.compare("structural_skip_harmless", case, {"same": True}, {"same": False})


EQ_CLASSES = [[0, False, 0.0, -0.0], [1, True, 1.0], [3, 3.0], [-1, -1.0], [2, 2.0], [60, 60.0], [2 ** 53, float(2 ** 53)],
              [10 ** 22, 1e22], [100, 100.0, 1e2]]
LOOKALIKES = [[None, "", "null", "~", "None"], [1, "1", "1.0", "true", "True", "yes", "on"], [0.5, "0.5", "5e-1", ".5"],
              [0, "0", "0.0", "false", "no", "off", "-0.0"], [3, "3", "3.0", "0x3", "03", "3e0"], [float("inf"), ".inf", "inf"],
              ["a", "a ", "A"], [12, "12", "1_2", "0o14"]]
OTHER_SCALARS = [2.5, -3, 7, 1e-5, 0.1, "x", "hello world", "é€", "a: b", "- x", "#c", "%(dt)s", "[1]", "{a: 1}", "multi\nline",
                 "2026-09-26", "1:30", "=", "<<", 4.5, 10 ** 30]


def _eq_variant(rng, v):
    """another value that Python's == identifies with v but that is of another type / representation (or None)"""
    for cls in EQ_CLASSES:
        for x in cls:
            if type(x) is type(v) and x == v and repr(x) == repr(v):
                others = [y for y in cls if repr(y) != repr(v)]
                return rng.choice(others)
    if type(v) is int and abs(v) < 2 ** 53:
        return float(v)
    if type(v) is float and v.is_integer() and abs(v) < 2 ** 53:
        return int(v)
    return None


def gen_scalar(rng, domain):
    """domain: 'any' | 'var' (FlowIR variable: no None) | 'json' | 'str'"""
    r = rng.random()
    if domain == "str":
        return str(rng.choice(rng.choice(LOOKALIKES + [OTHER_SCALARS]))) if r < 0.8 else gen_text(rng, 0.0)
    if r < 0.45:
        v = rng.choice(rng.choice(EQ_CLASSES))
    elif r < 0.7:
        v = rng.choice(rng.choice(LOOKALIKES))
    elif r < 0.95:
        v = rng.choice(OTHER_SCALARS)
    else:
        v = rng.randint(-5, 5) * rng.choice([1, 1.0, 0.5])
    if domain == "var" and v is None:
        v = ""
    if domain == "var" and isinstance(v, str) and any(ch in v for ch in "[]%{}\n"):
        # FlowIR interprets these inside variable values (array access, references to variables): not a plain value
        v = "plain"
    if domain == "json" and type(v) is float and (math.isinf(v) or math.isnan(v)):
        v = 1.5
    if domain == "json" and type(v) is int and abs(v) > 2 ** 60:
        v = 2 ** 53
    return v


def gen_tree(rng, domain, depth=0):
    r = rng.random()
    if depth >= 2 or r < 0.45:
        return gen_scalar(rng, domain)
    if r < 0.7:
        return [gen_tree(rng, domain, depth + 1) for _ in range(rng.randint(0, 3))]
    out = {}
    for _ in range(rng.randint(1, 3)):
        if domain == "json" or rng.random() < 0.7:
            k = rng.choice(["a", "b", "dt", "1", "true", "null", "", "é", "a b"])
        else:
            k = rng.choice([0, 1, True, 1.0, 2, 2.0, None, 0.5, -1, False])
        out[k] = gen_tree(rng, domain, depth + 1)
    return out


def _mutate(rng, v, domain, mode):
    """one update of a document: 'retype' replaces one scalar (or one key) by an ==-equal one of another type,
    'same' returns an identical copy, 'reorder' the same mapping with another insertion order, 'change' a really
    different value somewhere"""
    v = copy.deepcopy(v)
    if mode == "same":
        return v
    if type(v) is dict and v:
        if mode == "reorder":
            ks = list(v)
            rng.shuffle(ks)
            return {k: (_mutate(rng, v[k], domain, mode) if type(v[k]) in (dict, list) else v[k]) for k in ks}
        ks = list(v)
        if mode == "retype" and domain != "json" and rng.random() < 0.2:
            # retype a key: {1: x} -> {True: x} -> {1.0: x}
            cands = [k for k in ks if type(k) is not str and k is not None and _eq_variant(rng, k) is not None]
            if cands:
                k = rng.choice(cands)
                nk = _eq_variant(rng, k)
                return {(nk if kk is k or (type(kk) is type(k) and kk == k) else kk): vv for kk, vv in v.items()}
        if mode == "retype" and domain != "json" and rng.random() < 0.1:
            # a key and its look-alike of another type: 1 / '1', True / 'true', None / 'null' (never ==-equal)
            pairs = [(1, "1"), ("1", 1), (True, "true"), ("true", True), (None, "null"), ("null", None), (0.5, "0.5"), (2, "2")]
            cands = [k for k in ks if any(type(k) is type(a) and k == a for a, _ in pairs)]
            if cands:
                k = rng.choice(cands)
                nk = [b for a, b in pairs if type(k) is type(a) and k == a][0]
                if not any(type(kk) is type(nk) and kk == nk for kk in ks):
                    return {(nk if (type(kk) is type(k) and kk == k) else kk): vv for kk, vv in v.items()}
        # prefer a child where the mutation can apply
        rng.shuffle(ks)
        for k in ks:
            nv = _mutate(rng, v[k], domain, mode)
            if not texact(nv, v[k]):
                v[k] = nv
                return v
        if mode == "change":
            v[rng.choice(["a", "zz", "dt"])] = gen_scalar(rng, domain)
        return v
    if type(v) is list and v:
        if mode == "reorder":
            return [_mutate(rng, x, domain, mode) if type(x) in (dict, list) else x for x in v]
        idx = list(range(len(v)))
        rng.shuffle(idx)
        for i in idx:
            nv = _mutate(rng, v[i], domain, mode)
            if not texact(nv, v[i]):
                v[i] = nv
                return v
        if mode == "change":
            v.append(gen_scalar(rng, domain))
        return v
    if mode == "retype":
        nv = _eq_variant(rng, v) if type(v) in (bool, int, float) else None
        if nv is not None and domain == "json" and type(nv) is float and (math.isinf(nv) or (nv == 0 and math.copysign(1, nv) < 0)):
            nv = None if type(v) is float else 0.0
        if nv is not None:
            return nv
        # strings / None: a look-alike of another type ('' / None, '1' / 1): never ==-equal, always a real change
        for cls in LOOKALIKES:
            if any(type(x) is type(v) and x == v for x in cls):
                pool = [y for y in cls if repr(y) != repr(v) and not (domain == "var" and y is None)
                        and not (domain == "json" and type(y) is float and math.isinf(y))]
                if pool:
                    return rng.choice(pool)
        return v
    if mode == "change":
        for _ in range(5):
            nv = gen_scalar(rng, domain)
            if not (nv == v):
                return nv
        return "changed"
    return v


def _history(rng, first, domain, n):
    docs = [first]
    for _ in range(n - 1):
        mode = rng.choice(["retype"] * 6 + ["same"] * 2 + ["change"] * 2 + ["reorder"])
        docs.append(_mutate(rng, docs[-1], domain, mode))
    return docs


def gen_typed_history(rng, driver):
    n = rng.randint(2, 7)
    case = {"kind": "typed-history", "driver": driver}
    if driver == "dump":
        first = gen_tree(rng, "any")
        if type(first) is not dict or not first:
            first = {"variables": {"default": {"global": {"dt": first}}}, "n": gen_scalar(rng, "any")}
        docs = _history(rng, first, "any", n)
        case["style"] = rng.choice(["instance", "manifest"])
    elif driver in ("store", "generate"):
        slots = rng.sample(STORE_SLOTS, rng.randint(1, 4))
        first = {s: gen_scalar(rng, "var") for s in slots}
        docs = _history(rng, first, "var", n)
    elif driver == "manifest":
        def src():
            return gen_scalar(rng, "str").replace(":", "_") + rng.choice(["", ":copy", ":link"])
        first = {rng.choice(["c14data", "c14/x", "1", "1.0", "true", "null"]): src() for _ in range(rng.randint(1, 3))}
        docs = [first]
        for _ in range(n - 1):
            d = dict(docs[-1])
            if rng.random() < 0.3:
                pass
            else:
                d[rng.choice(list(d))] = src()
            docs.append(d)
    elif driver == "restart":
        names = rng.sample(["uv", "dt", "greeting", "zz"], rng.randint(1, 3))
        first = {k: gen_scalar(rng, "var") for k in names}
        docs = _history(rng, first, "var", n)
        case["fresh"] = rng.random() < 0.3
    elif driver == "details":
        first = gen_tree(rng, "json")
        if type(first) is not dict or not first:
            first = {"stages": first, "n": gen_scalar(rng, "json")}
        docs = _history(rng, first, "json", n)
    else:
        raise common.InfraError(driver)
    case["docs"] = [yenc(d) for d in docs]
    return case


def _tdocs(*docs):
    return [yenc(d) for d in docs]


TYPED_CORPUS = [
    {"kind": "typed-history", "driver": "dump", "style": "instance",
     "docs": _tdocs({"dt": 2}, {"dt": 3}, {"dt": 3.0}, {"dt": 4.5}, {"dt": 1}, {"dt": True}, {"dt": 0}, {"dt": False}, {"dt": 0.0}, {"dt": -0.0}, {"dt": 7})},
    {"kind": "typed-history", "driver": "dump", "style": "manifest",
     "docs": _tdocs({"a": [1, {"b": 0}], 1: "x"}, {"a": [True, {"b": 0}], 1: "x"}, {"a": [True, {"b": False}], 1: "x"}, {"a": [True, {"b": False}], 1.0: "x"},
                    {"a": [True, {"b": False}], 1.0: "x"}, {1.0: "x", "a": [True, {"b": False}]})},
    {"kind": "typed-history", "driver": "dump", "style": "manifest",
     "docs": _tdocs({"v": None}, {"v": ""}, {"v": "null"}, {"v": "1"}, {"v": 1}, {"v": "1.0"}, {"v": 1.0}, {"v": "true"}, {"v": True})},
    {"kind": "typed-history", "driver": "store", "docs": _tdocs({"global:dt": 3}, {"global:dt": 3.0}, {"global:dt": 3.0}, {"global:dt": 1}, {"global:dt": True})},
    {"kind": "typed-history", "driver": "store",
     "docs": _tdocs({"opt:#resourceManager.config.walltime": 60.0, "stage0:sv": 0}, {"opt:#resourceManager.config.walltime": 60, "stage0:sv": 0},
                    {"opt:#resourceManager.config.walltime": 60, "stage0:sv": False}, {"comp:cv": 1.0}, {"comp:cv": 1})},
    {"kind": "typed-history", "driver": "generate", "docs": _tdocs({"global:c14typed": 0}, {"global:c14typed": 0.0}, {"global:c14typed": False})},
    {"kind": "typed-history", "driver": "restart", "docs": _tdocs({"dt": 2}, {"dt": 3}, {"dt": 3.0}, {"dt": 1}, {"dt": True}, {"dt": 0}, {"dt": False}, {"dt": 0.0})},
    {"kind": "typed-history", "driver": "manifest", "docs": _tdocs({"c14data": "1"}, {"c14data": "1.0"}, {"c14data": "1.0"}, {"c14data": "true:link"})},
    {"kind": "typed-history", "driver": "details",
     "docs": _tdocs({"n": 1, "l": [0, 1.0]}, {"n": True, "l": [0, 1.0]}, {"n": True, "l": [False, 1]}, {"n": 1.0, "l": [0.0, 1]}, {"n": 1.0, "l": [0.0, 1]})},
]


# ----------------------------------------------------------------------------------------
# several writers of one state file: deterministic interleavings at the file-operation boundaries
# ----------------------------------------------------------------------------------------

def complete_versions(tr):
    """{target (relative name): [complete texts]}: the text of every write session (open .. close of one writer on one
    path, all its writes) that the same writer, after closing it, renames or tries to rename onto the target"""
    versions = {}
    cur = {}
    by_at = {}
    for it in tr.intents:
        by_at.setdefault(it["at"], []).append(it)
    for i in range(len(tr.ops) + 1):
        for it in by_at.get(i, []):
            c = cur.get(it["w"])
            if c and c["p"] == it["a"] and c["closed"]:
                versions.setdefault(it["b"], []).append("".join(c["chunks"]))
        if i == len(tr.ops):
            break
        op = tr.ops[i]
        w = op.get("w")
        if op["k"] == "create":
            cur[w] = {"p": op["p"], "chunks": [], "closed": False}
        elif op["k"] == "append" and w in cur and cur[w]["p"] == op["p"] and not cur[w]["closed"]:
            cur[w]["chunks"].append(op["b"])
        elif op["k"] == "close" and w in cur and cur[w]["p"] == op["p"]:
            cur[w]["closed"] = True
    return versions


def run_concurrent(root, targets, fns, plan, flush_each, install_locks=None):
    sched = Sched(fns, plan)
    undo = install_locks(sched) if install_locks else None
    try:
        with Tracer(root, list(targets.values()), flush_each=flush_each, sched=sched) as tr:
            sched.run()
    finally:
        if undo:
            undo()
    return tr, sched


def switches(seq):
    return sum(1 for a, b in zip(seq, seq[1:]) if a != b)


def _tick(label, t=[None]):
    if os.environ.get("C14_TIMING"):
        import sys
        import time
        now = time.time()
        if t[0] is not None:
            sys.stderr.write("C14 timing: %-28s %.1fs\n" % (label, now - t[0]))
        t[0] = now


def flush_deferred(ctx, deferred):
    """one driver invocation for the model comparisons of many interleavings"""
    reqs = [r for rs, _ in deferred for r in rs]
    mouts = ctx.model(reqs) if reqs else []
    i = 0
    for rs, fin in deferred:
        fin(None if mouts is None else mouts[i:i + len(rs)])
        i += len(rs)
    del deferred[:]


_DEFER = [None]      # when a list: model comparisons of concurrent runs are collected and answered in one batch


def check_concurrent(ctx, case, label, root, targets, fns, loaders, install_locks=None, programs=False, defer=None):
    """Runs the writers `fns` (one thread each) under the plan of the case; oracle: after every file operation of
    every writer each target holds its previous content or the complete text of one update, at the end the complete
    text of an update that was installed, and the real loader accepts it.  Flushed runs are replayed by the model."""
    old = {n: read_disk(p) for n, p in targets.items()}
    flush = bool(case.get("flush", True))
    tr, sched = run_concurrent(root, targets, fns, case.get("plan", []), flush, install_locks)
    relname = {n: tr.rel(p) for n, p in targets.items()}
    versions = complete_versions(tr)
    nsw = switches(sched.granted)
    tags = ["%s:conc:writers=%d" % (label, len(fns)), "%s:conc:%s" % (label, "flushed" if flush else "buffered"),
            "%s:conc:switches=%s" % (label, nsw if nsw < 3 else ">=3")]
    if sched.blocked_grants:
        tags.append("%s:conc:lock-serialised" % label)
    lens = {len(v) for vs in versions.values() for v in vs}
    ctx.case(case, nontrivial=nsw >= 2 or (nsw >= 1 and len(lens) >= 2), tags=tags)
    for w, exc in enumerate(sched.errors):
        if exc is not None:
            if isinstance(exc, SchedError):
                raise common.InfraError("C14 scheduler: %s" % exc)
            # not a statement of the property by itself: whatever the update left on disk is judged below
            ctx.tag("%s:conc:update-raised:%s" % (label, type(exc).__name__))
    scratch = tempfile.mkdtemp(prefix="c14-probe-")
    try:
        firsts = {}
        for n, p in targets.items():
            vs = versions.get(relname[n], [])
            allowed = [old[n]] + vs
            snaps = [sn[relname[n]] for sn in tr.snaps]
            first_bad = next((i for i, c in enumerate(snaps) if c not in allowed), None)
            firsts[n] = first_bad
            final = snaps[-1]
            detail = {"granted": sched.granted, "old": old[n], "complete_versions": vs,
                      "ops": ["%s:%s:%s" % (o.get("w"), o["k"], o.get("p") or o.get("b")) for o in tr.ops][:40]}
            if first_bad is not None:
                report(ctx, "concurrent-updates-leave-neither-old-nor-a-complete-version-" + n, case,
                       dict(detail, after_ops=first_bad, on_disk=snaps[first_bad], final=final))
            elif any(o["k"] == "rename" and o["b"] == relname[n] and not o.get("enoent") for o in tr.ops) and final not in vs:
                report(ctx, "concurrent-updates-end-with-a-version-nobody-wrote-" + n, case, dict(detail, final=final))
            if final is not None:
                pp = os.path.join(scratch, "probe-" + os.path.basename(p))
                write_disk(pp, final)
                try:
                    loaders[n](pp)
                except Exception as exc:  # noqa
                    report(ctx, "concurrent-updates-leave-unloadable-" + n, case,
                           dict(detail, final=final, error=type(exc).__name__ + ": " + str(exc)[:160]))
        ctx.extra["interleavings_run"] = ctx.extra.get("interleavings_run", 0) + 1
        ctx.extra["crash_points_enumerated"] = ctx.extra.get("crash_points_enumerated", 0) + len(tr.snaps) * len(targets)
        if not flush:
            return tr, sched
        # model: inode-level replay of the interleaved trace
        evs = [{k: (cp(v) if k in ("p", "a", "b") else v) for k, v in o.items()} for o in tr.ops]
        reqs = []
        for n in targets:
            files = [[cp(relname[m]), cp(old[m])] for m in targets if old[m] is not None]
            reqs.append({"op": "ctrace", "target": cp(relname[n]), "files": files, "evs": evs,
                         "versions": [cp(v) for v in versions.get(relname[n], [])]})
        if programs:
            ups = []
            for w in range(len(fns)):
                mine = [o for o in tr.ops if o.get("w") == w]
                tmp = next((o["p"] for o in mine if o["k"] == "create"), "")
                ups.append({"tmp": cp(tmp), "chunks": [cp(o["b"]) for o in mine if o["k"] == "append"]})
            n0 = next(iter(targets))
            reqs.append({"op": "sched", "target": cp(relname[n0]), "updates": ups, "sched": sched.granted})
        def finish(mouts):
            if mouts is None:
                return
            for ti, n in enumerate(targets):
                m = mouts[ti]
                snaps = [sn[relname[n]] for sn in tr.snaps]
                ctx.tag("%s:conc:%s:model-safe=%s" % (label, n, m["safe"]))
                ctx.compare("on-disk content of %s after every operation of the interleaving == FsConc.crashStates" % n, case,
                            {"states": [uncp(x) for x in m["states"]]}, {"states": snaps})
                ctx.compare("first mixed state of %s == FsConc.firstMixed" % n, case,
                            {"first_mixed": m["first_mixed"]}, {"first_mixed": firsts[n]})
                if m["safe"]:
                    ctx.compare("concSafe => old or an installed complete version at every crash point "
                                "(interleaved_atomic_updates_safe)", case, {"mixed": None}, {"mixed": firsts[n]})
                    ctx.compare("texts installed over %s == FsConc.installedBy" % n, case,
                                {"installed": sorted(uncp(x) for x in m["installed"])},
                                {"installed": sorted(installed_texts(tr, relname[n]))})
            if programs:
                m = mouts[-1]
                mine = [{k: (uncp(v) if k in ("p", "a", "b") else v) for k, v in e.items()} for e in m["evs"]]
                real = [{k: v for k, v in o.items() if not (k == "w" and o["k"] in ("rename", "remove")) and
                         not (k == "p" and o["k"] in ("append", "close")) and k != "enoent"} for o in tr.ops]
                ctx.compare("operations of the scheduled updates == FsConc.interleave of their programs", case,
                            {"evs": mine, "safe": m["safe"]}, {"evs": real, "safe": True})
        defer = defer if defer is not None else _DEFER[0]
        if defer is not None and not isinstance(ctx, _Probe):
            defer.append((reqs, finish))
        else:
            finish(ctx.model(reqs))
        return tr, sched
    finally:
        shutil.rmtree(scratch, ignore_errors=True)


def installed_texts(tr, target):
    """texts of the sessions whose staging file was successfully renamed onto `target` (from the recorded operations)"""
    out = []
    cur = {}
    closed = {}
    for o in tr.ops:
        w = o.get("w")
        if o["k"] == "create":
            cur[w] = {"p": o["p"], "chunks": []}
            closed.pop(o["p"], None)
        elif o["k"] == "append" and w in cur:
            cur[w]["chunks"].append(o["b"])
        elif o["k"] == "close" and w in cur:
            c = cur.pop(w)
            closed[c["p"]] = "".join(c["chunks"])
        elif o["k"] == "rename" and not o.get("enoent"):
            if o["b"] == target and o["a"] in closed:
                out.append(closed[o["a"]])
            closed.pop(o["a"], None)
        elif o["k"] == "remove":
            closed.pop(o["p"], None)
    return out


def status_conc(ctx, case, workdir):
    """case: {"kind":"status-conc","stages":[..],"history":[[setter calls]...] (each followed by update(), sequentially),
    "writers":[[setter calls], ...] (writer i = its own thread: the setter calls, then update()), "shared": one Status
    object for all writers (threads of elaunch) or one object per writer loaded from the file (processes),
    "plan":[writer ids], "flush": bool}"""
    E = env()
    D = E["D"]
    path = os.path.join(workdir, "status.txt")
    write_disk(path, None)
    for junk in listing([workdir]) - {path}:
        _orig["remove"](junk)
    _FixedDT._n = 0
    st = D.Status(path, {}, list(case["stages"]))
    st.setCreated(D.datetime.datetime.now())
    for rnd in case.get("history", [[]]):
        for name, arg in rnd:
            getattr(st, name)(arg)
        st.update()
    objs = []
    for i in range(len(case["writers"])):
        objs.append(st if case.get("shared", True) or i == 0 else D.Status.statusFromFile(path))

    def mk(i):
        def fn():
            for name, arg in case["writers"][i]:
                getattr(objs[i], name)(arg)
            return bool(objs[i].update())
        return fn

    tr, sched = check_concurrent(ctx, case, "status", workdir, {"status.txt": path}, [mk(i) for i in range(len(objs))],
                                 {"status.txt": D.Status.statusFromFile}, programs=bool(case.get("flush", True)))
    for w, r in enumerate(sched.results):
        if r is False:
            ctx.tag("status:conc:update-returned-false")
    for junk in listing([workdir]) - {path}:
        ctx.tag("junk-temp-file-left-behind:status-conc")
        _orig["remove"](junk)
    return tr, sched


def output_conc(ctx, case, workdir):
    """two OutputAgent.updateLogs() calls (each after its own change of the key-output statuses) from two threads; the
    RLock instanceDirectory.mtx_output that updateLogs takes is replaced by a SchedRLock for the run"""
    E = env()
    exp = _Exp.get(workdir, case["ncomp"], case["var"])
    agent = E["O"].OutputAgent(exp)
    outdir = os.path.realpath(exp.instanceDirectory.outputDir)
    txt = os.path.join(outdir, "output.txt")
    js = os.path.join(outdir, "output.json")
    write_disk(txt, None)
    write_disk(js, None)
    agent.updateLogs()

    def mk(upd):
        def fn():
            apply_output_update(agent, upd)
            agent.updateLogs()
        return fn

    def install(sched):
        real = exp.instanceDirectory.mtx_output
        exp.instanceDirectory.mtx_output = SchedRLock(sched)

        def undo():
            exp.instanceDirectory.mtx_output = real
        return undo

    return check_concurrent(ctx, case, "output", _Exp.roots(exp), {"output.txt": txt, "output.json": js},
                            [mk(u) for u in case["writers"]], {"output.txt": load_output_txt, "output.json": load_output_json},
                            install_locks=install)


def details_conc(ctx, case, workdir):
    """StatusMonitor.try_generate_status_details() from two threads (monitor thread, main thread of elaunch at the end);
    StatusMonitor.mtx_compute_status is replaced by a SchedRLock for the run"""
    E = env()
    exp = _Exp.get(workdir, case["ncomp"], case["var"])
    mon = E["O"].StatusMonitor(exp, report_components=False)
    docs = case["writers"]

    class _DB:
        def getWorkflowStatus(self, json_friendly=True):
            return docs[mon_sched[0].wid() or 0]

    mon_sched = [None]
    mon._status_database = _DB()
    outdir = os.path.realpath(exp.instanceDirectory.outputDir)
    target = os.path.join(outdir, "status_details.json")
    write_disk(target, json.dumps(case.get("old", {"old": 1})))

    def load(p):
        with _orig_open(p) as fh:
            return json.load(fh)

    def install(sched):
        mon_sched[0] = sched
        real = mon.mtx_compute_status
        mon.mtx_compute_status = SchedRLock(sched)

        def undo():
            mon.mtx_compute_status = real
        return undo

    return check_concurrent(ctx, case, "details", _Exp.roots(exp), {"status_details.json": target},
                            [mon.try_generate_status_details for _ in docs], {"status_details.json": load},
                            install_locks=install)


def instance_conc(ctx, case, workdir):
    """FlowIRExperimentConfiguration.store_unreplicated_flowir_to_disk() from two threads (it takes no lock of its own; the
    Controller calls it under comp_lock after a DoWhile iteration, elaunch once at start-up)"""
    exp = _Exp.get(workdir, case["ncomp"], case["var"])
    conf = exp.configuration
    confdir = os.path.realpath(conf._conf_dir)
    inst = os.path.join(confdir, "flowir_instance.yaml")
    conf._unreplicated.set_global_variable("c14note", "-")
    conf.store_unreplicated_flowir_to_disk()

    def mk(note):
        # each writer stores a different document (what a DoWhile iteration does by adding components): a global
        # variable with a writer-specific value; the document is computed before the file is opened
        def fn():
            conf._unreplicated.set_global_variable("c14note", note)
            conf.store_unreplicated_flowir_to_disk()
        return fn

    try:
        return check_concurrent(ctx, case, "instance-store", _Exp.roots(exp), {"flowir_instance.yaml": inst},
                                [mk(n) for n in case["writers"]], {"flowir_instance.yaml": load_flowir_instance})
    finally:
        conf._unreplicated.set_global_variable("c14note", "-")
        conf.store_unreplicated_flowir_to_disk()


def fs_semantics(ctx, case, workdir):
    """case: {"kind":"fs-semantics","old": text|None,"prog":[events]}: the events (several handles, possibly on the same
    path) are performed on the real file system and by FsConc.step; ties the inode-level model (truncation by a second
    open, writes through a handle whose file was renamed, holes) to the kernel"""
    d = tempfile.mkdtemp(prefix="c14-fs-", dir=workdir)
    try:
        t = os.path.join(d, "t")
        write_disk(t, case.get("old"))
        fds = {}
        snaps = [read_disk(t)]
        evs = []
        for e in case["prog"]:
            k = e["k"]
            try:
                if k == "create":
                    if e["w"] in fds:
                        fds.pop(e["w"]).close()
                    fds[e["w"]] = _orig_open(os.path.join(d, e["p"]), "w")
                elif k == "append":
                    if e["w"] in fds:
                        fds[e["w"]].write(e["b"])
                        fds[e["w"]].flush()
                elif k == "close":
                    if e["w"] in fds:
                        fds.pop(e["w"]).close()
                elif k == "rename":
                    _orig["rename"](os.path.join(d, e["a"]), os.path.join(d, e["b"]))
                elif k == "remove":
                    _orig["remove"](os.path.join(d, e["p"]))
            except FileNotFoundError:
                pass
            evs.append({kk: (cp(v) if kk in ("p", "a", "b") else v) for kk, v in e.items()})
            snaps.append(read_disk(t))
        for fh in fds.values():
            fh.close()
        shared = len({e["p"] for e in case["prog"] if e["k"] == "create"}) < sum(1 for e in case["prog"] if e["k"] == "create")
        ctx.case(case, nontrivial=len(case["prog"]) >= 4, tags=["fs-semantics", "fs-semantics:shared-path=%s" % shared])
        reqs = [{"op": "ctrace", "target": cp("t"), "files": ([[cp("t"), cp(case["old"])]] if case.get("old") is not None else []),
                 "evs": evs, "versions": []}]

        def finish(mouts):
            if mouts is not None:
                ctx.tag("fs-semantics:model-safe=%s" % mouts[0]["safe"])
                ctx.compare("content of the target after every operation (several handles) == FsConc.crashStates", case,
                            {"states": [uncp(x) for x in mouts[0]["states"]]}, {"states": snaps})
        if _DEFER[0] is not None and not isinstance(ctx, _Probe):
            _DEFER[0].append((reqs, finish))
        else:
            finish(ctx.model(reqs))
    finally:
        shutil.rmtree(d, ignore_errors=True)


def gen_fs_prog(rng):
    paths = ["x", "x", "y", "t"]
    prog = []
    for _ in range(rng.randint(3, 12)):
        r = rng.random()
        w = rng.randint(0, 2)
        if r < 0.25:
            prog.append({"k": "create", "w": w, "p": rng.choice(paths)})
        elif r < 0.6:
            prog.append({"k": "append", "w": w, "b": "".join(rng.choice("abc123\n") for _ in range(rng.randint(0, 4)))})
        elif r < 0.75:
            prog.append({"k": "close", "w": w})
        elif r < 0.93:
            prog.append({"k": "rename", "a": rng.choice(paths), "b": rng.choice(paths)})
        else:
            prog.append({"k": "remove", "p": rng.choice(paths)})
    return {"kind": "fs-semantics", "old": rng.choice([None, "", "old", "0123456789"]), "prog": prog}


FS_CORPUS = [
    # a write of nothing at a position beyond the end (file truncated by another handle) does not extend the file
    {"kind": "fs-semantics", "old": None, "prog": [
        {"k": "create", "w": 0, "p": "t"}, {"k": "append", "w": 0, "b": "23a1"}, {"k": "create", "w": 2, "p": "t"},
        {"k": "append", "w": 0, "b": ""}, {"k": "append", "w": 0, "b": "z"}]},
    # Witness.C14.shared_tmp_path_mixes_versions
    {"kind": "fs-semantics", "old": "old", "prog": [
        {"k": "create", "w": 0, "p": "x"}, {"k": "create", "w": 1, "p": "x"}, {"k": "append", "w": 1, "b": "123"},
        {"k": "close", "w": 1}, {"k": "rename", "a": "x", "b": "t"}, {"k": "append", "w": 0, "b": "a"},
        {"k": "close", "w": 0}, {"k": "rename", "a": "x", "b": "t"}]},
    # Witness.C14.shared_tmp_truncation_leaves_hole
    {"kind": "fs-semantics", "old": "old", "prog": [
        {"k": "create", "w": 0, "p": "x"}, {"k": "append", "w": 0, "b": "ab"}, {"k": "create", "w": 1, "p": "x"},
        {"k": "append", "w": 0, "b": "c"}, {"k": "close", "w": 0}, {"k": "rename", "a": "x", "b": "t"}]},
]


def pair_plan(first, i, j, counts):
    """writer `first` performs i operations, the other writer j operations, then `first` finishes, then the other"""
    other = 1 - first
    return [first] * i + [other] * j + [first] * max(0, counts[first] - i) + [other] * max(0, counts[other] - j)


def conc_family(ctx, base, runner, wd, pairs=None, random_plans=0, buffered=0):
    """base case (without plan) -> the sequential run (to learn the number of operations of each writer), the plans
    "writer f performs i operations, the other j, f finishes, the other finishes" for all / `pairs` sampled (f, i, j),
    `random_plans` random plans, and `buffered` of these plans again with Python's real buffering"""
    rng = ctx.rng
    tr, _ = runner(ctx, dict(base, plan=[], flush=True), wd)
    nw = len(base["writers"])
    counts = [sum(1 for o in tr.ops if o.get("w") == w) for w in range(nw)]
    plans = []
    if nw == 2:
        allp = [(f, i, j) for f in (0, 1) for i in range(counts[f] + 1) for j in range(counts[1 - f] + 1)]
        if pairs is not None and len(allp) > pairs:
            # always the nested forms (the other writer runs completely inside an update that is parked after its
            # open / before its close / before its rename), the rest sampled
            must = [(f, i, counts[1 - f]) for f in (0, 1) for i in (1, counts[f] - 2, counts[f] - 1) if 0 < i <= counts[f]]
            allp = must + rng.sample(allp, max(0, pairs - len(must)))
        plans += [pair_plan(f, i, j, counts) for f, i, j in allp]
    for _ in range(random_plans):
        pl = []
        for w in range(nw):
            pl += [w] * counts[w]
        rng.shuffle(pl)
        plans.append(pl)
    for pl in plans:
        runner(ctx, dict(base, plan=pl, flush=True), wd)
    for pl in (plans if buffered >= len(plans) else rng.sample(plans, buffered)):
        runner(ctx, dict(base, plan=pl, flush=False), wd)
    return counts


def gen_status_conc(rng, nwriters=2):
    stages = ["stage%d" % i for i in range(rng.randint(1, 3))]
    writers = []
    for w in range(nwriters):
        sets = [gen_set(rng, stages) for _ in range(rng.randint(0, 2))]
        if rng.random() < 0.5:
            sets.append(["setErrorDescription", "\n".join(rng.choice(WORDS) for _ in range(rng.randint(1, 5)))])
        writers.append(sets)
    return {"kind": "status-conc", "stages": stages, "history": [[gen_set(rng, stages) for _ in range(rng.randint(0, 2))]],
            "writers": writers, "shared": rng.random() < 0.7}


STATUS_CONC_CORPUS = [
    # the StatusMonitor thread records progress while the main thread of elaunch records a failure (multi-line description)
    {"kind": "status-conc", "stages": ["stage0", "stage1"],
     "history": [[["setCurrentStage", "stage0"], ["setStageState", "running"], ["setExperimentState", "running"]]],
     "writers": [[["setStageProgress", 0.5]],
                 [["setExitStatus", "Failed"], ["setStageState", "failed"], ["setExperimentState", "failed"],
                  ["setErrorDescription", "Unexpected exception reached top level\n  File \"control.py\", line 100, in stage_0\n"
                                          "\traise ValueError(\"component 0 = failed\")\nValueError: component 0 = failed"]]],
     "shared": True},
]


# ----------------------------------------------------------------------------------------
# generators of the remaining case kinds
# ----------------------------------------------------------------------------------------

PATH_CHARS = ["a", "b", "x", "1", "_", "-", ".", " ", "=", "%", "é", "€", "#", ";", "(", ")", "s", "%(version)s", "%%"]

# what a dosini reader may treat as syntax inside a value: inline comment marks (white space + '#' / ';'), comment
# characters without white space, delimiters, section brackets, interpolation, quotes, continuation-like blanks
DOSINI_TOKENS = [" #", " ;", " # ", " ; ", "\t#", "\t;", "\xa0#", "\u3000;", "#", ";", " //", " = ", "=", ":", " : ", "[", "]",
                 "[s]", "%(filename)s", "%", "%%", "  ", "'", '"', "\\", " -- ", " ! ", "!", "$", "${x}", "REM "]
NAME_WORDS = ["summary", "notes", "draft", "1", "2", "v2", "out", "energies", "é", "final", "x"]
INLINE_MARK = re.compile(r"\s[#;]")


def gen_dosini_text(rng, nmax=3):
    """words joined by dosini-syntax tokens, no white space at the two ends, one line"""
    parts = [rng.choice(NAME_WORDS)]
    for _ in range(rng.randint(1, nmax)):
        parts.append(rng.choice(DOSINI_TOKENS[:10]) if rng.random() < 0.5 else rng.choice(DOSINI_TOKENS))
        parts.append(rng.choice(NAME_WORDS))
    if rng.random() < 0.15:
        parts.pop()                # ends with the token
    if rng.random() < 0.1:
        parts.pop(0)               # starts with the token
    return "".join(parts).strip() or "f"


def gen_relpath(rng):
    if rng.random() < 0.4:
        # names (of the file or of a directory on its path) that contain dosini syntax
        name = gen_dosini_text(rng).replace("/", "_")
        mid = ""
        if rng.random() < 0.3:
            mid = gen_dosini_text(rng, 1).replace("/", "_") + "/"
        return "stages/stage0/c0/" + mid + name + rng.choice([".txt", ".csv", ""])
    name = "".join(rng.choice(PATH_CHARS) for _ in range(rng.randint(1, 6))).strip() or "f"
    if rng.random() < 0.7:
        # most names are ordinary: the '%' class is a small share
        name = name.replace("%", "p")
    if rng.random() < 0.04:
        name = name + " "
    return "stages/stage0/c0/" + name + rng.choice([".txt", ".csv", ""])


def gen_output_case(rng, atomic, params):
    ups = []
    ver = {"greeting": 0, "Other": 0}
    for _ in range(rng.randint(1, 2 if atomic else 6)):
        u = {}
        for k in ("greeting", "Other"):
            if rng.random() < 0.7:
                ver[k] += 1
                u[k] = {"version": ver[k], "lastLocation": gen_relpath(rng) if not atomic else "stages/stage0/c0/out%d.txt" % ver[k],
                        "creationTime": rng.randint(10 ** 9, 2 * 10 ** 9) + rng.randint(0, 999) / 1000.0,
                        "final": rng.choice(["yes", "no"]), "lastStage": 0}
                if not atomic and rng.random() < 0.3:
                    # the free-text fields of a key-output (FlowIR output.<name>.description / type)
                    u[k]["description"] = rng.choice(["", gen_dosini_text(rng, 4), " ".join(rng.choice(WORDS).split())])
                    u[k]["type"] = rng.choice(["", "csv", gen_dosini_text(rng, 1)])
        if not u:
            ver["greeting"] += 1
            u["greeting"] = {"version": ver["greeting"], "lastLocation": "stages/stage0/c0/out.txt", "creationTime": 1.5e9,
                             "final": "no", "lastStage": 0}
        ups.append(u)
    return dict(kind="output", atomic=atomic, updates=ups, **params)


def gen_json_doc(rng, depth=0):
    r = rng.random()
    if depth >= 3 or r < 0.3:
        return rng.choice([0, 1, -3, 2.5, True, None, "", "x", gen_text(rng, 0.3), "stage0.c0", "finished"])
    if r < 0.6:
        return [gen_json_doc(rng, depth + 1) for _ in range(rng.randint(0, 4))]
    return {rng.choice(["stage0", "c0", "state", "exit-reason", "é", "a b", gen_text(rng, 0.3)]): gen_json_doc(rng, depth + 1)
            for _ in range(rng.randint(0, 4))}


def gen_details_case(rng, params):
    docs = []
    for _ in range(rng.randint(1, 3)):
        d = gen_json_doc(rng)
        if not isinstance(d, dict) or not d:
            d = {"stages": d, "n": rng.randint(0, 9)}
        docs.append(d)
    return dict(kind="details", docs=docs, **params)


def gen_status_atomic(rng):
    h = gen_history(rng, max_rounds=3)
    h["kind"] = "status-atomic"
    if rng.random() < 0.6:
        h["rounds"][-1].append(["setErrorDescription", "\n".join(rng.choice(WORDS) for _ in range(rng.randint(1, 4)))])
    return h


# ----------------------------------------------------------------------------------------
# classification of known findings, shrinking
# ----------------------------------------------------------------------------------------

def classify_edge_whitespace(what, case, detail):
    """the value read back differs from the value written only by white space stripped at its two ends"""
    if what not in ("status-value-not-read-back", "output-value-not-read-back"):
        return False
    e, l = detail.get("expected"), detail.get("loaded")
    return isinstance(e, str) and isinstance(l, str) and e != l and e.strip() == l


CLASSIFIERS = {"c14_edge_whitespace_stripped": classify_edge_whitespace}


class _Probe:
    """a silent stand-in for ctx used while shrinking"""

    def __init__(self, ctx):
        self.rng = ctx.rng
        self.tier = "quick"
        self.failures = []
        self.extra = {}

    def model(self, reqs):
        return None

    def case(self, *a, **k):
        pass

    def tag(self, *a, **k):
        pass

    def compare(self, *a, **k):
        return True

    def fail(self, what, case, detail=None):
        self.failures.append((what, detail))


def _fails(ctx, what, case):
    p = _Probe(ctx)
    try:
        dispatch(p, case)
    except Exception:
        return False
    return any(w == what and not classify_edge_whitespace(w, case, d) for w, d in p.failures)


def shrinker(ctx):
    def shrink(what, case):
        try:
            return shrink_(what, case)
        finally:
            cleanup()

    def shrink_(what, case):
        if case.get("kind") == "status-history":
            cur = dict(case)

            def with_rounds(rs):
                return dict(cur, rounds=rs)
            cur = with_rounds(common.shrink_list(cur["rounds"], lambda rs: len(rs) >= 1 and _fails(ctx, what, with_rounds(rs)), 60))
            # drop setter calls inside rounds
            for i in range(len(cur["rounds"])):
                def with_round(r, i=i):
                    rs = list(cur["rounds"])
                    rs[i] = r
                    return dict(cur, rounds=rs)
                cur = with_round(common.shrink_list(cur["rounds"][i], lambda r: _fails(ctx, what, with_round(r)), 30))
            # shorten error descriptions
            for i, r in enumerate(cur["rounds"]):
                for j, (name, arg) in enumerate(r):
                    if name == "setErrorDescription" and isinstance(arg, str):
                        def with_desc(s, i=i, j=j):
                            rs = [list(map(list, x)) for x in cur["rounds"]]
                            rs[i][j][1] = s
                            return dict(cur, rounds=rs)
                        cur = with_desc(common.shrink_str(arg, lambda s: _fails(ctx, what, with_desc(s)), 80))
            return cur if _fails(ctx, what, cur) else None
        if case.get("kind") == "typed-history":
            cur = dict(case, fresh=True)     # a new instance: the shrunk history does not depend on earlier cases
            docs = common.shrink_list(cur["docs"], lambda ds: len(ds) >= 1 and _fails(ctx, what, dict(cur, docs=ds)), 40)
            cur = dict(cur, docs=docs)
            return cur if _fails(ctx, what, cur) else None
        if case.get("kind") == "output" and not case.get("atomic"):
            cur = dict(case)
            ups = common.shrink_list(cur["updates"], lambda us: len(us) >= 1 and _fails(ctx, what, dict(cur, updates=us)), 40)
            cur = dict(cur, updates=ups)
            return cur if _fails(ctx, what, cur) else None
        return None
    return shrink


# ----------------------------------------------------------------------------------------
# entry points
# ----------------------------------------------------------------------------------------

_WORK = {}


def workdir():
    if "d" not in _WORK:
        _WORK["d"] = tempfile.mkdtemp(prefix="c14-work-")
    return _WORK["d"]


def cleanup():
    d = _WORK.pop("d", None)
    _Exp.cache.clear()
    for sh in _WORK.pop("shadow", []):
        if sh.endswith(".shadow"):
            shutil.rmtree(sh, ignore_errors=True)
    if d:
        shutil.rmtree(d, ignore_errors=True)


def dispatch(ctx, case):
    k = case["kind"]
    if k == "status-history":
        check_status_histories(ctx, [case])
    elif k == "status-atomic":
        d = tempfile.mkdtemp(prefix="c14-st-")
        try:
            status_atomic(ctx, case, d)
        finally:
            shutil.rmtree(d, ignore_errors=True)
    elif k == "output":
        output_case(ctx, case, workdir())
    elif k == "output-stage":
        output_stage_case(ctx, case, workdir())
    elif k == "details":
        details_case(ctx, case, workdir())
    elif k == "instance":
        instance_case(ctx, case, workdir())
    elif k == "typed-history":
        typed_history(ctx, case, workdir())
    elif k == "escape":
        check_escape(ctx, [case["s"]])
    elif k == "status-conc":
        d = tempfile.mkdtemp(prefix="c14-sc-")
        try:
            status_conc(ctx, case, d)
        finally:
            shutil.rmtree(d, ignore_errors=True)
    elif k == "output-conc":
        output_conc(ctx, case, workdir())
    elif k == "details-conc":
        details_conc(ctx, case, workdir())
    elif k == "instance-conc":
        instance_conc(ctx, case, workdir())
    elif k == "fs-semantics":
        fs_semantics(ctx, case, workdir())
    else:
        raise common.InfraError("unknown C14 case kind %r" % k)


def _oup(path, version=1, **kw):
    return dict({"version": version, "lastLocation": path, "creationTime": 1.5e9 + version, "final": "no", "lastStage": 0}, **kw)


# key-output listings whose values contain what a dosini reader may take for syntax
OUTPUT_CORPUS = [
    {"kind": "output", "atomic": False, "ncomp": 2, "var": "hello", "updates": [
        {"greeting": _oup("stages/stage0/c0/summary #1.csv"), "Other": _oup("stages/stage0/c0/notes ;draft.txt")},
        {"greeting": _oup("stages/stage0/c0/run #2/out.txt", 2), "Other": _oup("stages/stage0/c0/a;b#c.txt", 2)}]},
    {"kind": "output", "atomic": False, "ncomp": 2, "var": "hello", "updates": [
        {"greeting": _oup("stages/stage0/c0/[x] = y : z.txt", description="energies ; in eV # per atom", type="csv ;v2"),
         "Other": _oup("stages/stage0/c0/100%(filename)s %% done.txt", description="", type="")}]},
    {"kind": "output-stage", "names": {"Summary": "summary #1.csv", "Notes": "drafts ;old/notes ;draft.txt", "plain": "plain.csv"},
     "rounds": 2},
]


CORPUS_HISTORIES = [
    {"kind": "status-history", "stages": ["stage0"], "rounds": [[["setErrorDescription", "\\"]], []]},
    {"kind": "status-history", "stages": ["stage0"], "rounds": [[["setErrorDescription", "a\nb"]], [], []]},
    {"kind": "status-history", "stages": ["stage0", "stage1"],
     "rounds": [[["setErrorDescription", "C:\\temp\\new = 50% \u20ac \U0001f600"]], [["setStageState", "running"]]]},
    {"kind": "status-history", "stages": ["stage0"], "rounds": [[["setErrorDescription", " x"]]]},
    {"kind": "status-history", "stages": ["stage0"], "rounds": [[["setErrorDescription", "boom\n"]]]},
    {"kind": "status-history", "stages": ["stage0"], "rounds": [[["setExitStatus", "Failed"]], [["setErrorDescription", "x=y"]]]},
]


def _setup(ctx):
    ctx.classifiers = CLASSIFIERS
    ctx.shrinker = shrinker(ctx)
    ctx.rule = ("cases: (a) status histories = 1..10 rounds of real Status setter calls each followed by update(), "
                "error descriptions drawn from backslash/newline/tab/CR/control/'='/'%'/quotes/non-ASCII up to U+10FFFF/"
                "traceback-like lines (8% with white space at an edge), reloaded with Status.statusFromFile after every "
                "update; non-trivial = >= 2 updates and a description that unicode_escape changes or that contains = or %. "
                "(b) one traced update of status.txt / output.txt+output.json / status_details.json / flowir_instance.yaml / "
                "manifest.yaml on a real Experiment instance: non-trivial = trace with >= 3 crash points; every crash point "
                "snapshotted (flushed and buffered), OSError injected at the sampled (quick) or all (thorough, <= 400) "
                "boundaries. (c) key-output listings: 1..6 updateLogs() with generated relative paths - 40% of them built "
                "from words joined by dosini syntax (white space + '#' / ';' inline comment marks, bare '#' ';', '=', ':', "
                "brackets, '%(x)s', quotes, backslash) in the file name or a directory on the path - and, in 30% of the updates, "
                "free-text description / type fields of the same kind, reloaded with Experiment._parse_outputs_file (filepath, "
                "filename, version, final, production, description, type must be the values written) and compared section by "
                "section with St4sd.Listing.readLine (no inline prefixes) on the written lines; plus real experiments whose "
                "key-outputs are existing files with such names driven through OutputAgent.process_stage 1..3 times. (d) strings through the unicode_escape codec. (e) several writers of one file: "
                "2-3 real Status.update() calls (each preceded by its own setter calls, on one shared Status object or one "
                "object per writer), 2 OutputAgent.updateLogs(), 2 StatusMonitor.try_generate_status_details(), 2 "
                "store_unreplicated_flowir_to_disk() storing different documents, each writer in its own thread under a "
                "deterministic scheduler that switches writers only at the traced file-operation boundaries (one grant = one "
                "file operation); plans = 'writer f performs i operations, the other j, f finishes, the other finishes' for "
                "ALL (f, i, j) on the corpus status case (both orders, every write flushed) and sampled (f, i, j) plus random "
                "plans elsewhere, a sample again with Python's real buffering; the RLocks the implementation takes "
                "(instanceDirectory.mtx_output, StatusMonitor.mtx_compute_status) are replaced by scheduler-aware locks; after "
                "every operation every target must hold its previous content or the complete text one update wrote between "
                "its open and its close, at the end a text that was installed, and the loader must accept it; non-trivial = "
                ">= 2 writer switches, or 1 switch and complete texts of different lengths. (f) random programs of file "
                "operations through several handles (shared paths included) on the real file system vs FsConc.step. "
                "(g) typed histories: 2..7 successive documents written by the real writers - "
                "FlowIRExperimentConfiguration._yaml_dump_atomically (any YAML document, instance and manifest dump styles), "
                "store_unreplicated_flowir_to_disk / _generate_instance_files after setting global / stage / component "
                "variables and component options through the FlowIRConcrete API, Manifest.update + _generate_instance_files, "
                "Experiment.experimentFromInstance after rewriting input/variables.yaml, try_generate_status_details - where "
                "most updates change only the TYPE or representation of one value or key to one that Python's == identifies "
                "with the stored one (0/False/0.0/-0.0, 1/True/1.0, 3/3.0, 2**53, 1e22; nested in lists and dicts; dict keys), "
                "others rewrite the identical document, permute the insertion order, swap look-alikes ('' / None / 'null', "
                "1 / '1' / 'true') or really change a value; after every update the file is loaded with the real loader and "
                "compared TYPE-EXACTLY (tagged encoding, exact floats) with the document just written and with "
                "TypedStore.readBacks; non-trivial = >= 2 updates of which >= 1 is ==-equal to its predecessor but not "
                "type-exactly equal. Distinct by canonical JSON.")
    ctx.assumptions = [
        "os.rename/os.replace atomically replace the target; open(...,'w') truncates; a flushed write reaches the file (POSIX)",
        "crash = process death at a Python-level file-operation boundary; the flushed run makes every write a boundary, the "
        "buffered run shows the boundaries CPython's io buffering really produces; power-loss reordering/fsync durability is not modelled",
        "free-form characters only in error-description (the field the code escapes), in key-output paths and in the one-line description / type fields of the key-output listing; the other status "
        "fields take values from their real domains (state names, numbers, stage names, time stamps)",
        "values are Unicode scalar values (no lone surrogates)",
        "StatusDB is a stub returning generated JSON documents; key-output statuses are set as OutputAgent.process_stage sets them",
        "several writers: who writes what from which thread (read from the code): output/status.txt — Status.update() takes no "
        "lock; callers: StatusMonitor thread (CheckStatus, holding instanceDirectory.mtx_output), main thread of elaunch "
        "(after deployment and at clean-up, holding mtx_output), Experiment constructor, ewrap.py (other process), any user of "
        "the public class; output.txt/output.json — OutputAgent.updateLogs() holds mtx_output (RLock) for its whole body; caller: "
        "main thread of elaunch via process_stage after every stage; status_details.json — try_generate_status_details() holds "
        "StatusMonitor.mtx_compute_status; callers: StatusMonitor thread and main thread of elaunch at clean-up; "
        "flowir_instance.yaml — store_unreplicated_flowir_to_disk() takes no lock; callers: elaunch at start-up, Controller "
        "thread after a DoWhile iteration (holding Controller.comp_lock); manifest.yaml — _generate_instance_files at start-up only",
        "writers are preempted only at Python-level file-operation boundaries (open/write/close/rename/remove); preemption inside "
        "pure Python code between two file operations is not explored (the writers share no other mutable state on the write path: "
        "Status.writeToStream copies the dictionary before the first write)",
    ]
    ctx.trusted.append("C14: tracer of builtins.open/os.rename/os.replace/os.remove in harness/c14.py; PyYAML/json/configparser "
                       "as libraries (their write patterns are traced, their parsers are the loaders); the cooperative scheduler "
                       "(Sched/SchedRLock) of harness/c14.py; the kernel semantics of rename/truncate/write-at-offset through "
                       "several handles are not assumed but compared with St4sd.FsConc on every run (case kind fs-semantics)")


def run(ctx):
    _setup(ctx)
    rng = ctx.rng
    quick = ctx.tier == "quick"
    try:
        _tick("start")
        env()
        # (d) escape codec
        strings = ["", "\\", "\\\\", "\n", "a\\nb", "\\x4", "\\u12", "\\", "\\q", "é", "\U0001f600", "\x7f", "\x80", "\\'", '\\"']
        strings += [gen_text(rng, 0.2) for _ in range(600 if quick else 6000)]
        strings += ["".join(rng.choice(["\\", "x", "u", "U", "n", "t", "r", "0", "1", "a", "f", "G", "'", " "])
                            for _ in range(rng.randint(1, 12))) for _ in range(400 if quick else 4000)]
        strings += [chr(c) for c in list(range(0, 0x180)) + [0xd7ff, 0xe000, 0xfffe, 0xffff, 0x10000, 0x10ffff]]
        check_escape(ctx, strings)
        # (a) status histories
        hist = list(CORPUS_HISTORIES) + [gen_history(rng) for _ in range(150 if quick else 1500)]
        check_status_histories(ctx, hist)
        # (b) atomicity
        for _ in range(12 if quick else 80):
            dispatch(ctx, gen_status_atomic(rng))
        params = [{"ncomp": 2, "var": "hello"}]
        if not quick:
            params += [{"ncomp": 6, "var": "h\u00e9llo \u20ac"}, {"ncomp": 1, "var": "x: y"}]
        for p in params:
            for _ in range(4 if quick else 20):
                dispatch(ctx, gen_details_case(rng, p))
        # (c) key-output listing fidelity
        _LDEFER[0] = []
        try:
            for c in OUTPUT_CORPUS:
                dispatch(ctx, copy.deepcopy(c))
            for _ in range(40 if quick else 400):
                dispatch(ctx, gen_output_case(rng, False, params[0]))
            for _ in range(3 if quick else 30):
                dispatch(ctx, gen_output_stage(rng))
            _listing_compare(ctx, _LDEFER[0])
        finally:
            _LDEFER[0] = None
        for p in params:
            for _ in range(3 if quick else 12):
                dispatch(ctx, gen_output_case(rng, True, p))
            for fresh in (True, False):
                dispatch(ctx, dict(kind="instance", writer="store", fresh=fresh, **p))
                dispatch(ctx, dict(kind="instance", writer="generate", fresh=fresh, reload=(not fresh), **p))
        # (g) typed values: histories of updates that change only the type / representation of a stored value
        _tick("single-writer parts")
        _TDEFER[0] = []
        try:
            for c in TYPED_CORPUS:
                dispatch(ctx, copy.deepcopy(c))
            plan = []
            for drv, nq, nt in (("dump", 60, 500), ("store", 30, 150), ("generate", 8, 40), ("manifest", 8, 40),
                                ("restart", 12, 60), ("details", 25, 200)):
                plan += [drv] * (nq if quick else nt)
            rng.shuffle(plan)
            for drv in plan:
                dispatch(ctx, gen_typed_history(rng, drv))
            _typed_compare(ctx, _TDEFER[0])
        finally:
            _TDEFER[0] = None
        _tick("typed histories")
        # (e) several writers of one file: deterministic interleavings at the file-operation boundaries
        _DEFER[0] = []
        try:
            for c in FS_CORPUS + [gen_fs_prog(rng) for _ in range(150 if quick else 1500)]:
                dispatch(ctx, c)
            flush_deferred(ctx, _DEFER[0])
            _tick("fs-semantics")
            d = tempfile.mkdtemp(prefix="c14-sc-")
            try:
                def srun(cx, case, wd):
                    return status_conc(cx, case, wd)
                for base in STATUS_CONC_CORPUS:
                    # all boundary pairs, both orders, flushed; a sample of them with Python's buffering
                    conc_family(ctx, base, srun, d, pairs=None, random_plans=20 if quick else 200,
                                buffered=80 if quick else 10 ** 6)
                    flush_deferred(ctx, _DEFER[0])
                _tick("status-conc corpus")
                for _ in range(4 if quick else 25):
                    conc_family(ctx, gen_status_conc(rng), srun, d, pairs=24 if quick else 120, random_plans=6 if quick else 30,
                                buffered=8 if quick else 40)
                for _ in range(2 if quick else 15):
                    conc_family(ctx, gen_status_conc(rng, 3), srun, d, random_plans=8 if quick else 40, buffered=3 if quick else 10)
                flush_deferred(ctx, _DEFER[0])
                _tick("status-conc generated")
            finally:
                shutil.rmtree(d, ignore_errors=True)
            for p in params:
                wd = workdir()
                for _ in range(1 if quick else 4):
                    a, b = gen_output_case(rng, True, p), gen_output_case(rng, True, p)
                    conc_family(ctx, dict(kind="output-conc", writers=[a["updates"][0], b["updates"][-1]], **p),
                                lambda cx, case, w: output_conc(cx, case, w), wd, pairs=10 if quick else 80,
                                random_plans=2 if quick else 10, buffered=3 if quick else 10)
                for _ in range(1 if quick else 4):
                    docs = gen_details_case(rng, p)["docs"]
                    conc_family(ctx, dict(kind="details-conc", writers=[docs[0], docs[-1] if len(docs) > 1 else {"other": [1, 2, 3]}], **p),
                                lambda cx, case, w: details_conc(cx, case, w), wd, pairs=8 if quick else 60,
                                random_plans=2 if quick else 10, buffered=2 if quick else 10)
                conc_family(ctx, dict(kind="instance-conc", writers=["w0", "writer one " * rng.randint(2, 9)], **p),
                            lambda cx, case, w: instance_conc(cx, case, w), wd, pairs=5 if quick else 40,
                            random_plans=1 if quick else 6, buffered=1 if quick else 6)
                flush_deferred(ctx, _DEFER[0])
                _tick("output/details/instance conc")
        finally:
            _DEFER[0] = None
        ctx.exhaustive = not quick
    finally:
        cleanup()


def replay(ctx, doc):
    _setup(ctx)
    case = doc.get("input")
    if case is None:
        for b in doc.get("no_longer_checks", []):
            if b.get("kind") == "correspondence":
                case = b["input"]
    if case is None:
        return
    try:
        env()
        dispatch(ctx, case)
    finally:
        cleanup()
