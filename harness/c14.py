"""C14 — Experiment state files are updated atomically and read back faithfully.

Implementation under test (real code, in-process, file operations traced by patching
builtins.open / os.rename / os.replace / os.remove / os.unlink in this process):
  * Status.update / Status.writeToStream / Status.statusFromFile          (model/data.py)
  * OutputAgent.updateLogs (+ conf.ConfigurationFileToJson, Experiment._parse_outputs_file)
  * StatusMonitor.try_generate_status_details                              (runtime/output.py)
  * FlowIRExperimentConfiguration.store_unreplicated_flowir_to_disk, _generate_instance_files
Model: lean/St4sd/Model/FsAtomic.lean (file system traces with crash points) and
lean/St4sd/Model/StatusFile.lean (status file encoding) via drv-c14.  Theorems: lean/St4sd/Props/C14.lean.

Three independent lines of evidence per update:
  1. the traced operations are fed to the Lean model, which evaluates `isAtomicProtocol` and the content
     of the target after every prefix (all crash points); these are compared with the real on-disk bytes
     snapshotted at the same boundaries (every Python-level write flushed);
  2. oracle "process dies": every snapshot (flushed and, separately, with Python's real buffering) is the
     complete old or the complete new version and the real loader accepts it;
  3. oracle "I/O error raised": the update is re-run from the same state with an OSError injected at
     boundary i (a write first writes half of its data), the code's own error handling runs, then the
     target is read back: old or new, loadable.
Fidelity: histories of 1..10 updates of random values, reloaded with the real loaders.
"""
from __future__ import annotations

import builtins
import copy
import datetime as _datetime
import errno
import json
import os
import shutil
import tempfile

from harness import common

LEVEL = "proof"


# ----------------------------------------------------------------------------------------
# helpers
# ----------------------------------------------------------------------------------------

def cp(s):
    return [ord(c) for c in s]


def uncp(l):
    return None if l is None else "".join(chr(c) for c in l)


_orig_open = builtins.open
_orig = dict(rename=os.rename, replace=os.replace, remove=os.remove, unlink=os.unlink)


def read_disk(path):
    """on-disk bytes of `path` right now (no Python buffering involved), decoded as UTF-8; None if absent"""
    try:
        with _orig_open(path, "rb") as fh:
            return fh.read().decode("utf-8", "surrogateescape")
    except FileNotFoundError:
        return None


def write_disk(path, text):
    if text is None:
        try:
            _orig["remove"](path)
        except FileNotFoundError:
            pass
    else:
        with _orig_open(path, "wb") as fh:
            fh.write(text.encode("utf-8", "surrogateescape"))


class InjectedIOError(OSError):
    pass


class _Proxy:
    """stands for the file object returned by open(path, 'w'...) inside the traced region"""

    def __init__(self, tracer, fh, path):
        self.__dict__["_t"] = tracer
        self.__dict__["_fh"] = fh
        self.__dict__["_p"] = path
        self.__dict__["_closed"] = False

    def write(self, data):
        t = self._t
        if t.boundary("append", self._p):
            half = data[:len(data) // 2]
            if half:
                self._fh.write(half)
                self._fh.flush()
                t.ops.append({"k": "append", "p": t.rel(self._p), "b": half})
            raise InjectedIOError(errno.ENOSPC, "injected fault while writing", self._p)
        n = self._fh.write(data)
        if t.flush_each:
            self._fh.flush()
        t.ops.append({"k": "append", "p": t.rel(self._p), "b": data})
        return n

    def writelines(self, lines):
        for l in lines:
            self.write(l)

    def close(self):
        if self._closed:
            return
        t = self._t
        self.__dict__["_closed"] = True
        fault = t.boundary("close", self._p)
        self._fh.close()
        t.ops.append({"k": "close", "p": t.rel(self._p)})
        if fault:
            raise InjectedIOError(errno.EIO, "injected fault at close", self._p)

    def __enter__(self):
        return self

    def __exit__(self, *a):
        self.close()
        return False

    def __getattr__(self, k):
        return getattr(self._fh, k)

    def __setattr__(self, k, v):
        setattr(self._fh, k, v)

    def __iter__(self):
        return iter(self._fh)


class Tracer:
    """Context manager: records the file operations under `root` and snapshots the watched paths at every
    boundary.  `fault_at=i`: the i-th operation raises OSError instead of (or, for a write, after half of)
    its effect."""

    def __init__(self, root, watch, fault_at=None, flush_each=True):
        # root: one directory, or {"$I": instance dir, "$O": real output dir (a shadow dir outside the instance)}
        roots = root if isinstance(root, dict) else {"$I": root}
        self.roots = [(k, os.path.realpath(v)) for k, v in roots.items()]
        self.watch = list(watch)
        self.fault_at = fault_at
        self.flush_each = flush_each
        self.ops = []
        self.snaps = []
        self.kinds = []
        self.n = 0
        self.fired = False

    def inside(self, p):
        try:
            rp = os.path.realpath(os.fspath(p))
        except TypeError:
            return False
        return any(rp == r or rp.startswith(r + os.sep) for _, r in self.roots)

    def rel(self, p):
        rp = os.path.realpath(os.fspath(p))
        for k, r in self.roots:
            if rp == r or rp.startswith(r + os.sep):
                return k + "/" + os.path.relpath(rp, r)
        return rp

    def snapshot(self):
        self.snaps.append({self.rel(w): read_disk(w) for w in self.watch})

    def boundary(self, kind, path):
        """called just before an operation is performed; returns True when the fault fires here"""
        self.snapshot()
        self.kinds.append(kind)
        i = self.n
        self.n += 1
        if self.fault_at is not None and i == self.fault_at and not self.fired:
            self.fired = True
            return True
        return False

    # patched entry points -----------------------------------------------------------------
    def _open(self, file, mode="r", *a, **k):
        writing = isinstance(mode, str) and any(c in mode for c in "wax+")
        if not writing or isinstance(file, int) or not self.inside(file):
            return _orig_open(file, mode, *a, **k)
        if "b" in mode:
            raise RuntimeError("C14 tracer: binary write to a state file is not modelled: %s" % file)
        truncating = "w" in mode
        exists = os.path.exists(file)
        if self.boundary("create", file):
            raise InjectedIOError(errno.EIO, "injected fault at open", os.fspath(file))
        fh = _orig_open(file, mode, *a, **k)
        if truncating or not exists:
            self.ops.append({"k": "create", "p": self.rel(file)})
        else:
            self.ops.append({"k": "close", "p": self.rel(file)})   # open for append: no effect on content
        return _Proxy(self, fh, os.fspath(file))

    def _rename(self, a, b, *x, **k):
        if not (self.inside(a) or self.inside(b)):
            return _orig["rename"](a, b, *x, **k)
        if self.boundary("rename", b):
            raise InjectedIOError(errno.EIO, "injected fault at rename", os.fspath(a))
        _orig["rename"](a, b, *x, **k)
        self.ops.append({"k": "rename", "a": self.rel(a), "b": self.rel(b)})

    def _remove(self, p, *x, **k):
        if not self.inside(p):
            return _orig["remove"](p, *x, **k)
        if self.boundary("remove", p):
            raise InjectedIOError(errno.EIO, "injected fault at remove", os.fspath(p))
        _orig["remove"](p, *x, **k)
        self.ops.append({"k": "remove", "p": self.rel(p)})

    def __enter__(self):
        builtins.open = self._open
        os.rename = self._rename
        os.replace = self._rename
        os.remove = self._remove
        os.unlink = self._remove
        return self

    def __exit__(self, *a):
        builtins.open = _orig_open
        os.rename = _orig["rename"]
        os.replace = _orig["replace"]
        os.remove = _orig["remove"]
        os.unlink = _orig["unlink"]
        self.snapshot()
        return False


# frozen, deterministic clock for experiment.model.data (Status.update stamps `updated`) --------------

class _FixedDT(_datetime.datetime):
    _n = 0

    @classmethod
    def now(cls, tz=None):
        cls._n += 1
        return cls(2026, 1, 1, 12, 0, 0) + _datetime.timedelta(seconds=cls._n, microseconds=cls._n * 7 % 1000000)


class _DTShim:
    def __init__(self, real):
        self._real = real
        self.datetime = _FixedDT

    def __getattr__(self, k):
        return getattr(self._real, k)


_ENV = {}


def env():
    """imports of the implementation + one-time patches (clock, logging)"""
    if _ENV:
        return _ENV
    import logging
    import experiment.model.data as D
    import experiment.model.conf as C
    import experiment.runtime.output as O
    import tests.utils as TU
    logging.disable(logging.CRITICAL)
    D.datetime = _DTShim(_datetime)
    _ENV.update(D=D, C=C, O=O, TU=TU)
    return _ENV


PER_SLUG = 6


def report(ctx, what, case, detail=None):
    """ctx.fail with a cap per (slug, accepted-by-a-known-finding-classifier) so that one frequent failure cannot
    crowd the others out of the 200 failures the context keeps; everything is still counted in the tags"""
    if isinstance(ctx, _Probe):
        ctx.fail(what, case, detail)
        return
    known = any(fn(what, case, detail or {}) for fn in CLASSIFIERS.values())
    key = "oracle-failure:%s%s" % (what, ":edge-whitespace" if known else "")
    ctx.tag(key)
    if ctx.tags[key] <= PER_SLUG:
        ctx.fail(what, case, detail)


# ----------------------------------------------------------------------------------------
# generators
# ----------------------------------------------------------------------------------------

SPECIAL = ["\\", "\\", "\n", "\n", "\t", "\r", "=", "%", "'", '"', "\\n", "\\x41", "\\u20ac", "\x00", "\x07", "\x1b",
           "\x7f", "\x80", "\x85", "\xa0", "\xe9", "\xff", "\u0100", "\u20ac", "\u2028", "\u3000", "\uffff",
           "\U0001f600", "\U0010ffff", " ", "#", ";", "[", "]", ":", "$", "{", "}"]
WORDS = ["Traceback (most recent call last):", "  File \"/tmp/x.py\", line 3, in <module>", "ValueError: bad value",
         "stage0.simulate failed", "exit code 1", "KeyError: 'x'", "C:\\temp\\new", "50% done", "a=b", "résumé", "naïve"]
WS_EDGE = [" ", "\n", "\t", "\r\n", "\x0b", "\x0c", "\x1c", "\x85", "\xa0", "\u2003", "\u3000"]


def gen_text(rng, edge_ws_prob=0.08):
    parts = []
    for _ in range(rng.randint(0, 6)):
        r = rng.random()
        if r < 0.45:
            parts.append(rng.choice(SPECIAL))
        elif r < 0.75:
            parts.append(rng.choice(WORDS))
        elif r < 0.9:
            parts.append("".join(chr(rng.randint(33, 126)) for _ in range(rng.randint(1, 6))))
        else:
            c = rng.randint(0, 0x10ffff)
            if 0xd800 <= c <= 0xdfff:
                c = 0x41
            parts.append(chr(c))
    s = "".join(parts)
    # keep the edges free of white space except in the dedicated class (the `.strip()` finding)
    s = s.strip()
    if rng.random() < edge_ws_prob:
        w = rng.choice(WS_EDGE)
        s = (w + s) if rng.random() < 0.5 else (s + w)
    return s


STATES = None


def gen_set(rng, stages):
    """one setter call: (setter name, json-able argument)"""
    global STATES
    if STATES is None:
        import experiment.model.codes as codes
        STATES = sorted(codes.states)
    r = rng.random()
    if r < 0.5:
        return ["setErrorDescription", gen_text(rng)]
    if r < 0.6:
        return ["setExitStatus", rng.choice(["Success", "Failed", "Stopped", "N/A", "ResourceExhausted"])]
    if r < 0.7:
        return ["setStageState", rng.choice(STATES)]
    if r < 0.8:
        return ["setExperimentState", rng.choice(STATES)]
    if r < 0.87:
        return ["setCurrentStage", rng.choice(stages)]
    if r < 0.94:
        return ["setStageProgress", rng.choice([0, 1, 0.5, rng.randint(0, 1000) / 1000.0])]
    return ["setCost", rng.choice([0, 3, rng.randint(0, 10 ** 6), rng.randint(0, 1000) / 8.0])]


SETTER_KEY = {"setErrorDescription": "error-description", "setExitStatus": "exit-status", "setStageState": "stage-state",
              "setExperimentState": "experiment-state", "setCurrentStage": "current-stage",
              "setStageProgress": "stage-progress", "setCost": "cost"}


def gen_history(rng, max_rounds=10):
    stages = ["stage%d" % i for i in range(rng.randint(1, 4))]
    rounds = []
    n = rng.randint(1, max_rounds)
    for i in range(n):
        r = rng.random()
        if i > 0 and r < 0.35:
            rounds.append([])          # update() again without touching anything (what StatusMonitor does)
        else:
            rounds.append([gen_set(rng, stages) for _ in range(rng.randint(1, 3))])
    return {"kind": "status-history", "stages": stages, "rounds": rounds}


# ----------------------------------------------------------------------------------------
# Status: fidelity over histories
# ----------------------------------------------------------------------------------------

def fmt(v):
    return "%s" % (v,)


def is_changed_by_escape(s):
    return any(c == "\\" or ord(c) < 32 or ord(c) > 126 for c in s)


def run_status_history(case, workdir):
    """Runs the history on a real Status object; after every update reloads the file with the real loader.
    Returns per-update records and the model request that mirrors the history."""
    E = env()
    D = E["D"]
    path = os.path.join(workdir, "status.txt")
    write_disk(path, None)
    _FixedDT._n = 0
    st = D.Status(path, {}, list(case["stages"]))
    st.setCreated(D.datetime.datetime.now())
    init = sorted([[k, fmt(v)] for k, v in st.data.items()])
    expected = {k: v for k, v in st.data.items()}           # what the user of the API last wrote
    records = []
    mrounds = []
    for rnd in case["rounds"]:
        for name, arg in rnd:
            getattr(st, name)(arg)
            key = SETTER_KEY[name]
            expected[key] = arg.lower() if name in ("setStageState", "setExperimentState") else arg
        ok = st.update()
        expected["updated"] = st.data["updated"]
        expected["updated-on"] = st.data["updated-on"]
        mround = [[SETTER_KEY[name], fmt(expected[SETTER_KEY[name]])] for name, arg in rnd]
        mround += [["updated", fmt(expected["updated"])], ["updated-on", fmt(expected["updated-on"])]]
        mrounds.append(mround)
        rec = {"update_ok": bool(ok), "text": read_disk(path)}
        try:
            loaded = D.Status.statusFromFile(path)
            rec["loaded"] = {k: (fmt(v)) for k, v in loaded.data.items()}
        except Exception as exc:  # noqa
            rec["load_error"] = type(exc).__name__ + ": " + str(exc)[:200]
        rec["expected"] = {k: fmt(v) for k, v in expected.items()}
        records.append(rec)
    req = {"op": "history", "writer": "new", "init": [[cp(k), cp(v)] for k, v in init],
           "rounds": [[[cp(k), cp(v)] for k, v in r] for r in mrounds]}
    return records, req


def check_status_histories(ctx, cases):
    tmp = tempfile.mkdtemp(prefix="c14-")
    try:
        results = []
        reqs = []
        for case in cases:
            records, req = run_status_history(case, tmp)
            results.append(records)
            # the model replays every prefix of the history (one request per update)
            for i in range(1, len(case["rounds"]) + 1):
                r = dict(req)
                r["rounds"] = req["rounds"][:i]
                reqs.append(r)
        mouts = ctx.model(reqs)
        mi = 0
        for case, records in zip(cases, results):
            descs = [a for r in case["rounds"] for (n, a) in r if n == "setErrorDescription"]
            nontrivial = len(case["rounds"]) >= 2 and any(is_changed_by_escape(d) or "=" in d or "%" in d for d in descs)
            ctx.case(case, nontrivial=nontrivial,
                     tags=["history:updates=%d" % len(case["rounds"])] +
                          sorted({"history:desc-has-" + nm for d in descs for nm, f in (
                              ("backslash", "\\" in d), ("newline", "\n" in d), ("nonascii", any(ord(c) > 126 for c in d)),
                              ("control", any(ord(c) < 32 for c in d)), ("equals", "=" in d), ("percent", "%" in d),
                              ("edge-whitespace", d != d.strip())) if f}))
            for i, rec in enumerate(records):
                where = {"after_update": i + 1}
                if not rec["update_ok"]:
                    report(ctx, "status-update-returned-false", case, where)
                if "load_error" in rec:
                    report(ctx, "status-file-does-not-load", case, dict(where, error=rec["load_error"], text=rec["text"]))
                else:
                    for k, v in sorted(rec["expected"].items()):
                        got = rec["loaded"].get(k)
                        if got != v:
                            report(ctx, "status-value-not-read-back", case,
                                     dict(where, key=k, expected=v, loaded=got))
                            break
                if mouts is not None:
                    m = mouts[mi]
                    ctx.compare("status.txt text after n updates == StatusFile.encode (repaired writer)", case,
                                {"text": uncp(m["text"])}, {"text": rec["text"]})
                    mdec = None if m["decoded"] is None else {uncp(k): uncp(v) for k, v in m["decoded"]}
                    ctx.compare("Status.statusFromFile == StatusFile.decode", case,
                                {"loaded": mdec}, {"loaded": rec.get("loaded")})
                mi += 1
    finally:
        shutil.rmtree(tmp, ignore_errors=True)


def check_escape(ctx, strings):
    """unicode_escape codec vs StatusFile.escape / unescape"""
    reqs = []
    for s in strings:
        reqs.append({"op": "escape", "s": cp(s)})
        reqs.append({"op": "unescape", "s": cp(s)})
    mouts = ctx.model(reqs)
    for i, s in enumerate(strings):
        esc = s.encode("unicode_escape").decode("utf-8")
        back = esc.encode("utf-8").decode("unicode_escape")
        case = {"kind": "escape", "s": s}
        ctx.case(case, nontrivial=is_changed_by_escape(s), tags=["escape"])
        if back != s:
            report(ctx, "unicode-escape-codec-does-not-round-trip", case, {"escaped": esc, "back": back})
        if mouts is None:
            continue
        ctx.compare("str.encode('unicode_escape') == StatusFile.escape", case, {"out": uncp(mouts[2 * i]["out"])}, {"out": esc})
        mun = uncp(mouts[2 * i + 1]["out"])
        if mun is not None and all(ord(c) < 128 for c in s):
            # direct decoder comparison on inputs inside the decoder model's domain
            try:
                import warnings
                with warnings.catch_warnings():
                    warnings.simplefilter("ignore")
                    iun = s.encode("utf-8").decode("unicode_escape")
            except UnicodeDecodeError:
                iun = None
            ctx.compare("bytes.decode('unicode_escape') == StatusFile.unescape (model domain)", case, {"out": mun}, {"out": iun})
            ctx.tag("unescape:in-domain")


# ----------------------------------------------------------------------------------------
# atomicity of one update (generic)
# ----------------------------------------------------------------------------------------

def pick_boundaries(rng, n, tier):
    if n <= 14 or (tier == "thorough" and n <= 400):
        return list(range(n))
    keep = set(range(0, 4)) | set(range(n - 5, n))
    want = 8 if tier == "quick" else 200
    while len(keep) < min(n, 9 + want):
        keep.add(rng.randrange(n))
    return sorted(keep)


def listing(dirs):
    out = set()
    for d in dirs:
        try:
            out |= {os.path.join(d, f) for f in os.listdir(d)}
        except FileNotFoundError:
            pass
    return out


def check_update(ctx, case, label, root, targets, do_update, save_state, restore_state, loaders, boundaries=None):
    """targets: {short name: absolute path}; loaders: {short name: fn(path) raising when the file cannot be loaded}"""
    dirs = sorted({os.path.dirname(p) for p in targets.values()})
    old = {n: read_disk(p) for n, p in targets.items()}
    state0 = save_state()
    before = listing(dirs)

    def restore():
        restore_state(state0)
        for n, p in targets.items():
            write_disk(p, old[n])
        for junk in listing(dirs) - before - set(targets.values()):
            try:
                _orig["remove"](junk)
            except OSError:
                pass

    def attempt(**kw):
        with Tracer(root, list(targets.values()), **kw) as tr:
            try:
                do_update()
                err = None
            except InjectedIOError:
                err = "propagated:InjectedIOError"
            except Exception as exc:  # noqa
                err = "propagated:" + type(exc).__name__
        return tr, err

    # 1. reference run, every write flushed
    tr, err = attempt()
    new = {n: read_disk(p) for n, p in targets.items()}
    ops = tr.ops
    nb = tr.n
    tags = ["%s:ops=%s" % (label, "<=8" if len(ops) <= 8 else "<=64" if len(ops) <= 64 else ">64")]
    ctx.case(case, nontrivial=len(ops) + 1 >= 3, tags=tags)
    if err:
        report(ctx, "update-raises-without-fault-" + label, case, {"error": err})
    relname = {n: tr.rel(p) for n, p in targets.items()}

    def verdict(n, content):
        return content == old[n] or content == new[n]

    def loadable(n, content, scratch):
        if content is None:
            return None
        p = os.path.join(scratch, "probe-" + os.path.basename(targets[n]))
        write_disk(p, content)
        try:
            loaders[n](p)
            return None
        except Exception as exc:  # noqa
            return type(exc).__name__ + ": " + str(exc)[:160]

    scratch = tempfile.mkdtemp(prefix="c14-probe-")
    try:
        # complete versions must load
        for n in targets:
            for which, content in (("old", old[n]), ("new", new[n])):
                why = loadable(n, content, scratch)
                if why:
                    report(ctx, "complete-%s-version-does-not-load-%s" % (which, n), case, {"error": why, "content": content})
        # model: protocol predicate + all crash states
        reqs = []
        for n in targets:
            files = [[cp(relname[m]), cp(old[m])] for m in targets if old[m] is not None]
            reqs.append({"op": "trace", "target": cp(relname[n]), "files": files,
                         "ops": [{k: (cp(v) if k != "k" else v) for k, v in o.items()} for o in ops]})
        mouts = ctx.model(reqs)
        for ti, n in enumerate(targets):
            # the trace has len(ops) ops => len(ops)+1 prefixes; snapshots are taken before each *boundary* and at
            # the end; without a fault every boundary performs exactly one op, so they coincide
            snaps = [s[relname[n]] for s in tr.snaps]
            first_bad = None
            for i, c in enumerate(snaps):
                if not verdict(n, c):
                    first_bad = i
                    break
            if first_bad is not None:
                report(ctx, "crash-leaves-neither-old-nor-new-" + n, case,
                         {"crash_after_ops": first_bad, "next_op": tr.kinds[first_bad] if first_bad < len(tr.kinds) else None,
                          "on_disk": snaps[first_bad], "old": old[n], "new_len": None if new[n] is None else len(new[n]),
                          "ops": [o["k"] + ":" + (o.get("p") or o.get("b")) for o in ops][:12]})
                why = loadable(n, snaps[first_bad], scratch)
                if why:
                    ctx.tag("crash-state-unloadable:" + n)
            if mouts is not None:
                m = mouts[ti]
                ctx.tag("%s:%s:model-atomic=%s" % (label, n, m["atomic"]))
                ctx.compare("on-disk content of %s at every crash point == FsAtomic.crashStates" % n, case,
                            {"states": [uncp(s) for s in m["states"]]}, {"states": snaps})
                ctx.compare("first unsafe crash point of %s == FsAtomic.firstUnsafe" % n, case,
                            {"first_unsafe": m["first_unsafe"]}, {"first_unsafe": first_bad})
                if m["atomic"] and first_bad is not None:
                    ctx.compare("isAtomicProtocol => no unsafe crash point (atomic_protocol_safe)", case,
                                {"unsafe": None}, {"unsafe": first_bad})
        # 2. same update with Python's real buffering: snapshots = what a kill -9 leaves
        restore()
        trb, _ = attempt(flush_each=False)
        for n in targets:
            for i, s in enumerate(trb.snaps):
                c = s[relname[n]]
                if not verdict(n, c):
                    report(ctx, "crash-leaves-neither-old-nor-new-" + n, case,
                             {"buffered": True, "crash_after_ops": i, "on_disk": c, "old": old[n],
                              "new_len": None if new[n] is None else len(new[n])})
                    break
        # 3. injected I/O errors
        bs = boundaries if boundaries is not None else pick_boundaries(ctx.rng, nb, ctx.tier)
        for i in bs:
            restore()
            trf, ferr = attempt(fault_at=i)
            ctx.tag("fault:%s:%s" % (label, tr.kinds[i] if i < len(tr.kinds) else "?"))
            ctx.tag("fault-outcome:" + ("handled" if ferr is None else ferr))
            if not trf.fired:
                ctx.tag("fault:not-reached")
                continue
            if ferr and not ferr.endswith("InjectedIOError"):
                ctx.tag("fault:other-exception")
            for n, p in targets.items():
                c = read_disk(p)
                if not verdict(n, c):
                    report(ctx, "io-error-leaves-neither-old-nor-new-" + n, case,
                             {"fault_at_boundary": i, "boundary_kind": trf.kinds[i], "on_disk": c, "old": old[n],
                              "new_len": None if new[n] is None else len(new[n]),
                              "ops_after_fault": [o["k"] for o in trf.ops][-4:]})
                else:
                    why = loadable(n, c, scratch)
                    if why:
                        report(ctx, "io-error-leaves-unloadable-" + n, case, {"fault_at_boundary": i, "error": why})
        ctx.extra["fault_runs"] = ctx.extra.get("fault_runs", 0) + len(bs)
        ctx.extra["crash_points_enumerated"] = ctx.extra.get("crash_points_enumerated", 0) + (len(tr.snaps) + len(trb.snaps)) * len(targets)
        # leave the world as after a successful update
        restore()
        do_update()
        for junk in listing(dirs) - before - set(targets.values()):
            ctx.tag("junk-temp-file-left-behind:" + label)
            try:
                _orig["remove"](junk)
            except OSError:
                pass
    finally:
        shutil.rmtree(scratch, ignore_errors=True)


# ----------------------------------------------------------------------------------------
# the five writers
# ----------------------------------------------------------------------------------------

def status_atomic(ctx, case, workdir):
    """case: {"kind":"status-atomic","stages":[..],"rounds":[[setter calls]...]}: all but the last round are
    history, the last round is the update under test"""
    E = env()
    D = E["D"]
    path = os.path.join(workdir, "status.txt")
    write_disk(path, None)
    _FixedDT._n = 0
    st = D.Status(path, {}, list(case["stages"]))
    for rnd in case["rounds"][:-1]:
        for name, arg in rnd:
            getattr(st, name)(arg)
        st.update()
    for name, arg in case["rounds"][-1]:
        getattr(st, name)(arg)

    def save():
        return (copy.deepcopy(st.data), _FixedDT._n)

    def restore(s):
        st.data = copy.deepcopy(s[0])
        _FixedDT._n = s[1]

    check_update(ctx, case, "status", workdir, {"status.txt": path}, st.update, save, restore,
                 {"status.txt": D.Status.statusFromFile}, boundaries=case.get("boundaries"))


FLOWIR_TEMPLATE = """
variables:
  default:
    global:
      greeting: %(var)s
components:
%(components)s
output:
  greeting:
    data-in: stage0.c0/out.txt:ref
  Other:
    data-in: stage0.c0/res.csv:copy
"""


def flowir_text(ncomp, var):
    comps = []
    for i in range(ncomp):
        comps.append("- name: c%d\n  stage: %d\n  command:\n    executable: echo\n    arguments: \"%%(greeting)s %d\"\n" % (i, i % 2 if i else 0, i))
    return FLOWIR_TEMPLATE % {"var": json.dumps(var), "components": "".join(comps)}


class _Exp:
    """a real Experiment instance on disk (built once per parameter set, reused by several cases)"""
    cache = {}

    @classmethod
    def get(cls, workdir, ncomp, var):
        key = (ncomp, var)
        if key not in cls.cache:
            E = env()
            cwd = os.getcwd()
            try:
                exp = E["TU"].experiment_from_flowir(flowir_text(ncomp, var), workdir, checkExecutables=False)
            finally:
                os.chdir(cwd)
            cls.cache[key] = exp
            out = os.path.realpath(exp.instanceDirectory.outputDir)
            if not out.startswith(os.path.realpath(workdir) + os.sep):
                _WORK.setdefault("shadow", []).append(os.path.dirname(out))
        return cls.cache[key]

    @staticmethod
    def roots(exp):
        return {"$I": exp.instanceDirectory.location, "$O": os.path.realpath(exp.instanceDirectory.outputDir)}


def load_output_json(path):
    E = env()
    return E["D"].Experiment._parse_outputs_file(path)


def load_output_txt(path):
    import configparser
    cfg = configparser.ConfigParser(interpolation=None)
    with _orig_open(path) as fh:
        cfg.read_file(fh)
    return cfg


def apply_output_update(agent, upd):
    for k, st in upd.items():
        agent.dataReferences[k]["status"].update(st)


def output_case(ctx, case, workdir):
    """case: {"kind":"output","ncomp":..,"var":..,"updates":[{key-output: {version,lastLocation,creationTime,final}}...],
    "atomic": bool}: all updates are performed; fidelity is checked after each; atomicity on the last one"""
    E = env()
    exp = _Exp.get(workdir, case["ncomp"], case["var"])
    agent = E["O"].OutputAgent(exp)
    outdir = os.path.realpath(exp.instanceDirectory.outputDir)
    txt = os.path.join(outdir, "output.txt")
    js = os.path.join(outdir, "output.json")
    write_disk(txt, None)
    write_disk(js, None)
    ups = case["updates"]
    if case.get("atomic"):
        # both files exist (possibly listing nothing) before the update under test: output.json is derived from
        # output.txt, so "previous version" is only meaningful for a consistent pair
        agent.updateLogs()
    if not case.get("atomic"):
        descs = [v["lastLocation"] for u in ups for v in u.values()]
        ctx.case(case, nontrivial=len(ups) >= 2, tags=["output-history:updates=%d" % len(ups)] + sorted(
            {"output:path-has-" + nm for d in descs for nm, f in (("percent", "%" in d), ("equals", "=" in d),
                                                                   ("nonascii", any(ord(c) > 126 for c in d)),
                                                                   ("space", " " in d)) if f}))
    for i, upd in enumerate(ups):
        last = i == len(ups) - 1
        apply_output_update(agent, upd)
        if last and case.get("atomic"):
            def save():
                return {k: copy.deepcopy(v["status"]) for k, v in agent.dataReferences.items()}

            def restore(s):
                for k, v in s.items():
                    agent.dataReferences[k]["status"] = copy.deepcopy(v)

            check_update(ctx, case, "output", _Exp.roots(exp), {"output.txt": txt, "output.json": js},
                         agent.updateLogs, save, restore, {"output.txt": load_output_txt, "output.json": load_output_json},
                         boundaries=case.get("boundaries"))
            continue
        where = {"after_update": i + 1}
        try:
            agent.updateLogs()
        except Exception as exc:  # noqa
            report(ctx, "output-update-raises", case, dict(where, error=type(exc).__name__ + ": " + str(exc)[:200]))
            continue
        try:
            loaded = load_output_json(js)
        except Exception as exc:  # noqa
            report(ctx, "output-json-does-not-load", case, dict(where, error=type(exc).__name__ + ": " + str(exc)[:200]))
            continue
        for k, v in agent.dataReferences.items():
            s = v["status"]
            if s["version"] == 0:
                if k in loaded:
                    report(ctx, "output-lists-unproduced-key-output", case, dict(where, key=k))
                continue
            got = loaded.get(k)
            exp_vals = {"filepath": s["lastLocation"], "filename": os.path.split(s["lastLocation"])[1],
                        "version": s["version"], "final": s["final"], "production": s["production"]}
            if got is None:
                report(ctx, "output-value-not-read-back", case, dict(where, key=k, field="<entry>", expected=k, loaded=None))
                continue
            for f, e in exp_vals.items():
                if got.get(f) != e:
                    report(ctx, "output-value-not-read-back", case, dict(where, key=k, field=f, expected=e, loaded=got.get(f)))
                    break


class _FakeStatusDB:
    def __init__(self):
        self.doc = None

    def getWorkflowStatus(self, json_friendly=True):
        return self.doc


def details_case(ctx, case, workdir):
    """case: {"kind":"details","ncomp","var","docs":[json documents]}: atomicity on the last document"""
    E = env()
    exp = _Exp.get(workdir, case["ncomp"], case["var"])
    mon = E["O"].StatusMonitor(exp, report_components=False)
    db = _FakeStatusDB()
    mon._status_database = db
    outdir = os.path.realpath(exp.instanceDirectory.outputDir)
    target = os.path.join(outdir, "status_details.json")
    write_disk(target, None)
    for doc in case["docs"][:-1]:
        db.doc = doc
        mon.try_generate_status_details()
        got = json.load(_orig_open(target))
        if got != doc:
            report(ctx, "status-details-not-read-back", case, {"expected": doc, "loaded": got})
    db.doc = case["docs"][-1]

    def load(p):
        with _orig_open(p) as fh:
            return json.load(fh)

    check_update(ctx, case, "details", _Exp.roots(exp), {"status_details.json": target},
                 mon.try_generate_status_details, lambda: None, lambda s: None, {"status_details.json": load},
                 boundaries=case.get("boundaries"))
    got = load(target)
    if got != case["docs"][-1]:
        report(ctx, "status-details-not-read-back", case, {"expected": case["docs"][-1], "loaded": got})


def load_flowir_instance(path):
    import yaml
    with _orig_open(path) as fh:
        doc = yaml.safe_load(fh)
    if not isinstance(doc, dict) or not doc.get("components"):
        raise ValueError("flowir_instance.yaml does not hold a FlowIR dictionary with components")
    import experiment.model.frontends.flowir as F
    F.FlowIRConcrete(doc, "default", {})
    return doc


def load_manifest(path):
    import yaml
    with _orig_open(path) as fh:
        doc = yaml.safe_load(fh)
    if not isinstance(doc, dict) or not doc:
        raise ValueError("manifest.yaml does not hold a dictionary")
    import experiment.model.frontends.flowir as F
    F.Manifest(doc, validate=True)
    return doc


def instance_case(ctx, case, workdir):
    """case: {"kind":"instance","ncomp","var","writer":"store"|"generate","fresh":bool}"""
    exp = _Exp.get(workdir, case["ncomp"], case["var"])
    conf = exp.configuration
    confdir = os.path.realpath(conf._conf_dir)
    inst = os.path.join(confdir, "flowir_instance.yaml")
    man = os.path.join(confdir, "manifest.yaml")
    if case.get("fresh"):
        write_disk(inst, None)
        if case["writer"] == "generate":
            write_disk(man, None)
    if case["writer"] == "store":
        def upd():
            conf.store_unreplicated_flowir_to_disk()
        targets = {"flowir_instance.yaml": inst}
    else:
        def upd():
            errs = []
            conf._generate_instance_files(True, True, errs)
            if errs:
                raise errs[0]
        targets = {"flowir_instance.yaml": inst, "manifest.yaml": man}
    check_update(ctx, case, "instance-" + case["writer"], _Exp.roots(exp), targets, upd,
                 lambda: None, lambda s: None, {"flowir_instance.yaml": load_flowir_instance, "manifest.yaml": load_manifest},
                 boundaries=case.get("boundaries"))
    if case.get("reload"):
        E = env()
        try:
            cwd = os.getcwd()
            E["D"].Experiment.experimentFromInstance(exp.instanceDirectory.location, updateInstanceConfiguration=False)
            os.chdir(cwd)
            ctx.tag("instance:reloaded-with-experimentFromInstance")
        except Exception as exc:  # noqa
            report(ctx, "instance-does-not-reload-after-update", case, {"error": type(exc).__name__ + ": " + str(exc)[:300]})


# ----------------------------------------------------------------------------------------
# generators of the remaining case kinds
# ----------------------------------------------------------------------------------------

PATH_CHARS = ["a", "b", "x", "1", "_", "-", ".", " ", "=", "%", "é", "€", "#", ";", "(", ")", "s", "%(version)s", "%%"]


def gen_relpath(rng):
    name = "".join(rng.choice(PATH_CHARS) for _ in range(rng.randint(1, 6))).strip() or "f"
    if rng.random() < 0.7:
        # most names are ordinary: the '%' class is a small share
        name = name.replace("%", "p")
    if rng.random() < 0.04:
        name = name + " "
    return "stages/stage0/c0/" + name + rng.choice([".txt", ".csv", ""])


def gen_output_case(rng, atomic, params):
    ups = []
    ver = {"greeting": 0, "Other": 0}
    for _ in range(rng.randint(1, 2 if atomic else 6)):
        u = {}
        for k in ("greeting", "Other"):
            if rng.random() < 0.7:
                ver[k] += 1
                u[k] = {"version": ver[k], "lastLocation": gen_relpath(rng) if not atomic else "stages/stage0/c0/out%d.txt" % ver[k],
                        "creationTime": rng.randint(10 ** 9, 2 * 10 ** 9) + rng.randint(0, 999) / 1000.0,
                        "final": rng.choice(["yes", "no"]), "lastStage": 0}
        if not u:
            ver["greeting"] += 1
            u["greeting"] = {"version": ver["greeting"], "lastLocation": "stages/stage0/c0/out.txt", "creationTime": 1.5e9,
                             "final": "no", "lastStage": 0}
        ups.append(u)
    return dict(kind="output", atomic=atomic, updates=ups, **params)


def gen_json_doc(rng, depth=0):
    r = rng.random()
    if depth >= 3 or r < 0.3:
        return rng.choice([0, 1, -3, 2.5, True, None, "", "x", gen_text(rng, 0.3), "stage0.c0", "finished"])
    if r < 0.6:
        return [gen_json_doc(rng, depth + 1) for _ in range(rng.randint(0, 4))]
    return {rng.choice(["stage0", "c0", "state", "exit-reason", "é", "a b", gen_text(rng, 0.3)]): gen_json_doc(rng, depth + 1)
            for _ in range(rng.randint(0, 4))}


def gen_details_case(rng, params):
    docs = []
    for _ in range(rng.randint(1, 3)):
        d = gen_json_doc(rng)
        if not isinstance(d, dict) or not d:
            d = {"stages": d, "n": rng.randint(0, 9)}
        docs.append(d)
    return dict(kind="details", docs=docs, **params)


def gen_status_atomic(rng):
    h = gen_history(rng, max_rounds=3)
    h["kind"] = "status-atomic"
    if rng.random() < 0.6:
        h["rounds"][-1].append(["setErrorDescription", "\n".join(rng.choice(WORDS) for _ in range(rng.randint(1, 4)))])
    return h


# ----------------------------------------------------------------------------------------
# classification of known findings, shrinking
# ----------------------------------------------------------------------------------------

def classify_edge_whitespace(what, case, detail):
    """the value read back differs from the value written only by white space stripped at its two ends"""
    if what not in ("status-value-not-read-back", "output-value-not-read-back"):
        return False
    e, l = detail.get("expected"), detail.get("loaded")
    return isinstance(e, str) and isinstance(l, str) and e != l and e.strip() == l


CLASSIFIERS = {"c14_edge_whitespace_stripped": classify_edge_whitespace}


class _Probe:
    """a silent stand-in for ctx used while shrinking"""

    def __init__(self, ctx):
        self.rng = ctx.rng
        self.tier = "quick"
        self.failures = []
        self.extra = {}

    def model(self, reqs):
        return None

    def case(self, *a, **k):
        pass

    def tag(self, *a, **k):
        pass

    def compare(self, *a, **k):
        return True

    def fail(self, what, case, detail=None):
        self.failures.append((what, detail))


def _fails(ctx, what, case):
    p = _Probe(ctx)
    try:
        dispatch(p, case)
    except Exception:
        return False
    return any(w == what and not classify_edge_whitespace(w, case, d) for w, d in p.failures)


def shrinker(ctx):
    def shrink(what, case):
        try:
            return shrink_(what, case)
        finally:
            cleanup()

    def shrink_(what, case):
        if case.get("kind") == "status-history":
            cur = dict(case)

            def with_rounds(rs):
                return dict(cur, rounds=rs)
            cur = with_rounds(common.shrink_list(cur["rounds"], lambda rs: len(rs) >= 1 and _fails(ctx, what, with_rounds(rs)), 60))
            # drop setter calls inside rounds
            for i in range(len(cur["rounds"])):
                def with_round(r, i=i):
                    rs = list(cur["rounds"])
                    rs[i] = r
                    return dict(cur, rounds=rs)
                cur = with_round(common.shrink_list(cur["rounds"][i], lambda r: _fails(ctx, what, with_round(r)), 30))
            # shorten error descriptions
            for i, r in enumerate(cur["rounds"]):
                for j, (name, arg) in enumerate(r):
                    if name == "setErrorDescription" and isinstance(arg, str):
                        def with_desc(s, i=i, j=j):
                            rs = [list(map(list, x)) for x in cur["rounds"]]
                            rs[i][j][1] = s
                            return dict(cur, rounds=rs)
                        cur = with_desc(common.shrink_str(arg, lambda s: _fails(ctx, what, with_desc(s)), 80))
            return cur if _fails(ctx, what, cur) else None
        if case.get("kind") == "output" and not case.get("atomic"):
            cur = dict(case)
            ups = common.shrink_list(cur["updates"], lambda us: len(us) >= 1 and _fails(ctx, what, dict(cur, updates=us)), 40)
            cur = dict(cur, updates=ups)
            return cur if _fails(ctx, what, cur) else None
        return None
    return shrink


# ----------------------------------------------------------------------------------------
# entry points
# ----------------------------------------------------------------------------------------

_WORK = {}


def workdir():
    if "d" not in _WORK:
        _WORK["d"] = tempfile.mkdtemp(prefix="c14-work-")
    return _WORK["d"]


def cleanup():
    d = _WORK.pop("d", None)
    _Exp.cache.clear()
    for sh in _WORK.pop("shadow", []):
        if sh.endswith(".shadow"):
            shutil.rmtree(sh, ignore_errors=True)
    if d:
        shutil.rmtree(d, ignore_errors=True)


def dispatch(ctx, case):
    k = case["kind"]
    if k == "status-history":
        check_status_histories(ctx, [case])
    elif k == "status-atomic":
        d = tempfile.mkdtemp(prefix="c14-st-")
        try:
            status_atomic(ctx, case, d)
        finally:
            shutil.rmtree(d, ignore_errors=True)
    elif k == "output":
        output_case(ctx, case, workdir())
    elif k == "details":
        details_case(ctx, case, workdir())
    elif k == "instance":
        instance_case(ctx, case, workdir())
    elif k == "escape":
        check_escape(ctx, [case["s"]])
    else:
        raise common.InfraError("unknown C14 case kind %r" % k)


CORPUS_HISTORIES = [
    {"kind": "status-history", "stages": ["stage0"], "rounds": [[["setErrorDescription", "\\"]], []]},
    {"kind": "status-history", "stages": ["stage0"], "rounds": [[["setErrorDescription", "a\nb"]], [], []]},
    {"kind": "status-history", "stages": ["stage0", "stage1"],
     "rounds": [[["setErrorDescription", "C:\\temp\\new = 50% \u20ac \U0001f600"]], [["setStageState", "running"]]]},
    {"kind": "status-history", "stages": ["stage0"], "rounds": [[["setErrorDescription", " x"]]]},
    {"kind": "status-history", "stages": ["stage0"], "rounds": [[["setErrorDescription", "boom\n"]]]},
    {"kind": "status-history", "stages": ["stage0"], "rounds": [[["setExitStatus", "Failed"]], [["setErrorDescription", "x=y"]]]},
]


def _setup(ctx):
    ctx.classifiers = CLASSIFIERS
    ctx.shrinker = shrinker(ctx)
    ctx.rule = ("cases: (a) status histories = 1..10 rounds of real Status setter calls each followed by update(), "
                "error descriptions drawn from backslash/newline/tab/CR/control/'='/'%'/quotes/non-ASCII up to U+10FFFF/"
                "traceback-like lines (8% with white space at an edge), reloaded with Status.statusFromFile after every "
                "update; non-trivial = >= 2 updates and a description that unicode_escape changes or that contains = or %. "
                "(b) one traced update of status.txt / output.txt+output.json / status_details.json / flowir_instance.yaml / "
                "manifest.yaml on a real Experiment instance: non-trivial = trace with >= 3 crash points; every crash point "
                "snapshotted (flushed and buffered), OSError injected at the sampled (quick) or all (thorough, <= 400) "
                "boundaries. (c) key-output listings: 1..6 updateLogs() with generated relative paths, reloaded with "
                "Experiment._parse_outputs_file. (d) strings through the unicode_escape codec. Distinct by canonical JSON.")
    ctx.assumptions = [
        "os.rename/os.replace atomically replace the target; open(...,'w') truncates; a flushed write reaches the file (POSIX)",
        "crash = process death at a Python-level file-operation boundary; the flushed run makes every write a boundary, the "
        "buffered run shows the boundaries CPython's io buffering really produces; power-loss reordering/fsync durability is not modelled",
        "free-form characters only in error-description (the field the code escapes) and in key-output paths; the other status "
        "fields take values from their real domains (state names, numbers, stage names, time stamps)",
        "values are Unicode scalar values (no lone surrogates)",
        "StatusDB is a stub returning generated JSON documents; key-output statuses are set as OutputAgent.process_stage sets them",
    ]
    ctx.trusted.append("C14: tracer of builtins.open/os.rename/os.replace/os.remove in harness/c14.py; PyYAML/json/configparser "
                       "as libraries (their write patterns are traced, their parsers are the loaders)")


def run(ctx):
    _setup(ctx)
    rng = ctx.rng
    quick = ctx.tier == "quick"
    try:
        env()
        # (d) escape codec
        strings = ["", "\\", "\\\\", "\n", "a\\nb", "\\x4", "\\u12", "\\", "\\q", "é", "\U0001f600", "\x7f", "\x80", "\\'", '\\"']
        strings += [gen_text(rng, 0.2) for _ in range(600 if quick else 6000)]
        strings += ["".join(rng.choice(["\\", "x", "u", "U", "n", "t", "r", "0", "1", "a", "f", "G", "'", " "])
                            for _ in range(rng.randint(1, 12))) for _ in range(400 if quick else 4000)]
        strings += [chr(c) for c in list(range(0, 0x180)) + [0xd7ff, 0xe000, 0xfffe, 0xffff, 0x10000, 0x10ffff]]
        check_escape(ctx, strings)
        # (a) status histories
        hist = list(CORPUS_HISTORIES) + [gen_history(rng) for _ in range(150 if quick else 1500)]
        check_status_histories(ctx, hist)
        # (b) atomicity
        for _ in range(12 if quick else 80):
            dispatch(ctx, gen_status_atomic(rng))
        params = [{"ncomp": 2, "var": "hello"}]
        if not quick:
            params += [{"ncomp": 6, "var": "h\u00e9llo \u20ac"}, {"ncomp": 1, "var": "x: y"}]
        for p in params:
            for _ in range(4 if quick else 20):
                dispatch(ctx, gen_details_case(rng, p))
        # (c) key-output listing fidelity
        for _ in range(25 if quick else 250):
            dispatch(ctx, gen_output_case(rng, False, params[0]))
        for p in params:
            for _ in range(3 if quick else 12):
                dispatch(ctx, gen_output_case(rng, True, p))
            for fresh in (True, False):
                dispatch(ctx, dict(kind="instance", writer="store", fresh=fresh, **p))
                dispatch(ctx, dict(kind="instance", writer="generate", fresh=fresh, reload=(not fresh), **p))
        ctx.exhaustive = not quick
    finally:
        cleanup()


def replay(ctx, doc):
    _setup(ctx)
    case = doc.get("input")
    if case is None:
        for b in doc.get("no_longer_checks", []):
            if b.get("kind") == "correspondence":
                case = b["input"]
    if case is None:
        return
    try:
        env()
        dispatch(ctx, case)
    finally:
        cleanup()
