"""Constants of property C09, regenerated from the flowir.py source on every run (ast only, no import).

  FlowIR.SpecialFolders, FlowIR.data_reference_methods, FlowIR.VariablePattern,
  the stage regex compiled inside FlowIR.ParseProducerReference,
  the index regex compiled inside FlowIR.is_var_reference.
"""
from __future__ import annotations

import ast

from harness import genconst

TARGET = "C09"


def _regex_sources(fn):
    """string literals handed to re.compile(...) inside function node `fn`, in source order"""
    out = []
    for node in ast.walk(fn):
        if isinstance(node, ast.Call) and isinstance(node.func, ast.Attribute) and node.func.attr == "compile" \
                and node.args and isinstance(node.args[0], ast.Constant) and isinstance(node.args[0].value, str):
            out.append((node.lineno, node.col_offset, node.args[0].value))
    return [s for _l, _c, s in sorted(out)]


def extract():
    tree = genconst.parse("model/frontends/flowir.py")
    special = list(genconst.class_assign(tree, "FlowIR", "SpecialFolders"))
    methods = list(genconst.class_assign(tree, "FlowIR", "data_reference_methods"))
    varpat = genconst.class_assign(tree, "FlowIR", "VariablePattern")
    ppr = _regex_sources(genconst.find_function(tree, "FlowIR", "ParseProducerReference"))
    ivr = _regex_sources(genconst.find_function(tree, "FlowIR", "is_var_reference"))
    return dict(special=special, methods=methods, varpat=varpat,
                stage_regex=ppr[0] if ppr else "", index_regex=ivr[0] if ivr else "")


def lean_char(ch):
    if ch == "'":
        return "'\\''"
    if ch == "\\":
        return "'\\\\'"
    if ord(ch) < 32 or ord(ch) > 126:
        return "(Char.ofNat %d)" % ord(ch)
    return "'%s'" % ch


def lean_chars(s):
    return "[" + ", ".join(lean_char(c) for c in s) + "]"


def lean_chars_list(xs):
    return "[" + ", ".join(lean_chars(x) for x in xs) + "]"


def generate():
    c = extract()
    src = ("namespace St4sd.Gen.C09\n"
           "/-- `FlowIR.SpecialFolders` -/\n"
           "def specialFolders : List String := %s\n"
           "/-- `FlowIR.data_reference_methods` -/\n"
           "def dataReferenceMethods : List String := %s\n"
           "/-- `FlowIR.VariablePattern` -/\n"
           "def variablePattern : String := %s\n"
           "/-- the regex compiled in `FlowIR.ParseProducerReference` -/\n"
           "def stageRegex : String := %s\n"
           "/-- the regex compiled in `FlowIR.is_var_reference` (after the variable pattern) -/\n"
           "def indexRegex : String := %s\n"
           "/-- the same constants as character lists (what the model and the pin theorems use) -/\n"
           "def specialFoldersC : List (List Char) := %s\n"
           "def dataReferenceMethodsC : List (List Char) := %s\n"
           "def variablePatternC : List Char := %s\n"
           "def stageRegexC : List Char := %s\n"
           "def indexRegexC : List Char := %s\n"
           "end St4sd.Gen.C09\n") % (
        genconst.lean_str_list(c["special"]), genconst.lean_str_list(c["methods"]),
        genconst.lean_str(c["varpat"]), genconst.lean_str(c["stage_regex"]), genconst.lean_str(c["index_regex"]),
        lean_chars_list(c["special"]), lean_chars_list(c["methods"]),
        lean_chars(c["varpat"]), lean_chars(c["stage_regex"]), lean_chars(c["index_regex"]))
    return {TARGET: src}
