"""Deterministic, single-threaded execution of the real st4sd Controller / ComponentState code.

Used by harness/c01.py and harness/c02.py (DESIGN.md section 3.3).  Nothing in /repo is modified: the
stand-ins below are installed by monkey-patching from this process.

  * reactivex.interval              -> a fresh Subject per call (recorded with the name of the creating
                                       function; those made in ComponentState.__init__ can be ticked)
  * NewThreadScheduler / ThreadPoolGenerator.get_pool -> one CurrentThreadScheduler (trampoline)
  * control.time.sleep, control.WaitOnStability, MonitorExceptionTracker.isSystemStable -> no-op / True
  * Engine.engineForComponentSpecification -> FakeEngine / FakeRepeatingEngine whose task exits are
                                       events chosen by the harness
  * Controller.finishedCheck / postMortemCheck (instance attributes) -> queueing wrappers; the harness
                                       delivers the queued notifications later, in an order of its choosing
  * Controller._event_scheduler     -> object whose wait() hands control to the harness; the real
                                       Controller.run() loop executes unmodified
  * the stage loop of scripts/elaunch.py:Run (not importable: a script with global option parsing) is
    re-stated in Sim.run(): run() the current stage; stop on an exception unless the stage has
    `continue-on-error`; experiment.incrementStage(); Controller.initialise(next stage); run() ...
"""
from __future__ import annotations

import logging
import os
import sys

_INSTALLED = {}


class StopSim(BaseException):
    """Raised from wait() to abandon Controller.run() (BaseException: not caught by `except Exception`)."""


def install():
    """Idempotent.  Must run before experiment.runtime.* is imported for the first time."""
    if _INSTALLED:
        return _INSTALLED
    already = [m for m in ("experiment.runtime.workflow", "experiment.runtime.control", "experiment.runtime.engine")
               if m in sys.modules]
    if already:
        raise RuntimeError("detsim.install() must precede the import of %s" % already)
    logging.disable(logging.CRITICAL)
    import reactivex
    import reactivex.scheduler
    from reactivex.subject import Subject
    from reactivex.scheduler import CurrentThreadScheduler

    CT = CurrentThreadScheduler()
    intervals = []   # (creating function name, Subject)

    def fake_interval(*a, **k):
        s = Subject()
        intervals.append((sys._getframe(1).f_code.co_name, s))
        return s

    reactivex.interval = fake_interval
    reactivex.scheduler.NewThreadScheduler = lambda *a, **k: CT
    import experiment.runtime.utilities.rx as urx
    urx.ThreadPoolGenerator.get_pool = classmethod(lambda cls, pool: CT)

    import experiment.runtime.engine as E
    import experiment.runtime.workflow as W
    import experiment.runtime.control as C
    import experiment.runtime.monitor as M
    import experiment.model.codes as codes

    class _NoSleep:
        def __getattr__(self, k):
            import time as _t
            return getattr(_t, k)

        @staticmethod
        def sleep(*a, **k):
            return None

    C.time = _NoSleep()
    C.WaitOnStability = lambda *a, **k: True
    try:
        M.MonitorExceptionTracker.isSystemStable = lambda self, *a, **k: True
    except Exception:  # pragma: no cover
        pass

    RC = codes.restartCodes
    XR = codes.exitReasons

    class FakeEngineBase:
        """Duck-typed engine.  The restart() below is the part of Engine.restart that C01/C02 need (counter
        and maxRestarts gate, SubmissionFailed vs restartHookOn, vanilla re-run); hooks are C12's business."""

        def _fe_init(self, job):
            self.job = job
            self._exit = None
            self._shutdown = False
            self.restarts = 0
            self._resub = 0
            self.runs = 0
            self.started = False
            self.killRequested = False
            self.process = None
            self._su = Subject()
            self.producersFinished = False
            self.log = logging.getLogger("fake")
            ENGINES.append(self)

        @property
        def stateUpdates(self):
            return self._su

        def isAlive(self):
            return self._exit is None

        def exitReason(self):
            return self._exit

        def returncode(self):
            if self._exit is None:
                return None
            return 0 if self._exit == XR["Success"] else 1

        def run(self, *a, **k):
            self.runs += 1
            self.started = True
            for cb in list(RUN_HOOKS):
                cb(self)

        def kill(self):
            if not self.isAlive():
                return
            if not self.started:
                # Engine.kill before run(): the termination observable sets exitReason Killed by itself
                self.die(XR["Killed"])
            else:
                self.killRequested = True

        @property
        def isShutdown(self):
            return self._shutdown

        def shutdown(self):
            if self.isAlive():
                raise AssertionError('An engine must be non-active (dead) to be shutdown')
            self._shutdown = True
            self.stateUpdates.on_next(({}, self))      # Engine.shutdown() -> emit_now()

        def resubmissionAttempts(self):
            return self._resub

        def restart(self, reason=None, code=None):
            assert (not self.started) or (not self.isAlive())
            maxr = self.job.workflowAttributes.get('maxRestarts', None)
            if maxr is None:
                maxr = -1 if self.job.workflowAttributes.get('restartHookFile') else 3
            if maxr != -1 and self.restarts + 1 > maxr:
                return RC['RestartMaxAttemptsExceeded']
            reason = reason if reason is not None else self.exitReason()
            on = self.job.workflowAttributes.get('restartHookOn', [])
            if reason == XR["SubmissionFailed"]:
                pass
            elif reason in on:
                self.restarts += 1
            else:
                return RC['RestartCouldNotInitiate']
            self._exit = None
            self.killRequested = False
            self.run()
            self.stateUpdates.on_next(({'isAlive': True}, self))
            if reason == XR["SubmissionFailed"]:
                self._resub += 1
            return RC['RestartInitiated']

        def die(self, reason):
            assert self._exit is None
            self._exit = reason
            if reason == XR["Success"]:
                self._resub = 0
            self.stateUpdates.on_next(({'isAlive': False, 'engineExitReason': reason}, self))

        # RepeatingEngine protocol used by ComponentState / Controller
        def notify_all_producers_finished(self):
            self.producersFinished = True

        def notify_producer_successful_run(self, ref):
            pass

        def optimizer_enable(self, *a, **k):
            pass

        def optimizer_disable(self, *a, **k):
            pass

    class FakeEngine(FakeEngineBase):
        def __init__(self, job):
            self._fe_init(job)

    class FakeRepeatingEngine(FakeEngineBase, E.RepeatingEngine):
        # isinstance(engine, RepeatingEngine) is tested in workflow.py / control.py; the real __init__ is not run
        def __init__(self, job):
            self._fe_init(job)

    ENGINES = []
    RUN_HOOKS = []

    def make_engine(cls, job):
        return FakeRepeatingEngine(job) if job.isRepeat else FakeEngine(job)

    E.Engine.engineForComponentSpecification = classmethod(make_engine)

    _INSTALLED.update(dict(CT=CT, intervals=intervals, E=E, W=W, C=C, codes=codes, ENGINES=ENGINES,
                           RUN_HOOKS=RUN_HOOKS, FakeEngine=FakeEngine, FakeRepeatingEngine=FakeRepeatingEngine))
    return _INSTALLED


class FakeStatus:
    def __init__(self):
        self.monitored = []

    def monitorComponent(self, comp):
        self.monitored.append(comp.specification.reference)


class _EventScheduler:
    def __init__(self, sim):
        self.sim = sim

    def wait(self, timeout=None):
        self.sim._in_wait()
        return True

    def set(self):
        pass

    def clear(self):
        pass

    def is_set(self):
        return False


STATE_NAMES = {"finished": "finished", "failed": "failed", "component_shutdown": "shutdown",
               "running": "running", "checking": "postmortem"}


class Sim:
    """One experiment + one real Controller under the deterministic runtime.

    Ops (JSON lists):  ["sched"] | ["exit", c] | ["fin", c] | ["pm", c] | ["kill"] | ["tick", c] | ["next"]
    where c is the index of the component in `self.refs` (= order of controller.graph.nodes).
    `["sched"]` = return from wait() so that the real loop performs its next iteration
    (active check, `_schedule`).  The exit reason of the k-th execution of c is scripts[c][k] (Success
    beyond the end of the script).  `["next"]` is recorded (never chosen) when the stage loop has called
    Controller.initialise() for the next stage; right after it the chooser may let events happen before the
    run() of the new stage starts (the inter-stage window: real notifications do not wait for run())."""

    def __init__(self, flowir_yaml, workdir, scripts_by_ref=None):
        env = install()
        self.env = env
        import tests.utils as TU
        cwd = os.getcwd()
        n_int = len(env["intervals"])
        n_eng = len(env["ENGINES"])
        self._n_int = n_int
        try:
            self.exp = TU.experiment_from_flowir(flowir_yaml, workdir, checkExecutables=False)
            self.controller, self._components = TU.new_controller(self.exp)
        finally:
            os.chdir(cwd)
        ctl = self.controller
        nodes = list(ctl.graph.nodes)
        depth = {}

        def _depth(r):
            if r not in depth:
                depth[r] = 0   # guards against cycles (validated workflows have none)
                ps = list(ctl.graph.predecessors(r))
                depth[r] = 1 + max([_depth(p) for p in ps]) if ps else 0
            return depth[r]
        # canonical topological numbering: (longest path from a source, name)
        self.refs = sorted(nodes, key=lambda r: (_depth(r), r))
        self.index = {r: i for i, r in enumerate(self.refs)}
        self.order = [self.index[r] for r in nodes]          # iteration order of graph.nodes
        self.preds = {r: sorted(self.index[p] for p in ctl.graph.predecessors(r)) for r in self.refs}
        self.comp = {r: ctl.get_compstate(r) for r in self.refs}
        self.ticks = {}
        mine = [s for (fn, s) in env["intervals"][n_int:] if fn == "__init__"]
        # ComponentState.__init__ creates exactly one interval per component, in construction order
        self._interval_subjects = mine
        self.engines = env["ENGINES"][n_eng:]
        for e in self.engines:
            self.ticks[e.job.reference] = None
        # map tick subjects to components: construction order of ComponentState == order of engine creation
        for e, s in zip(self.engines, mine):
            self.ticks[e.job.reference] = s
        del env["intervals"][n_int:]
        del env["ENGINES"][n_eng:]
        self.pending = []          # [kind, ref]
        self.execs = {r: 0 for r in self.refs}
        self.scripts = {r: list((scripts_by_ref or {}).get(r, [])) for r in self.refs}
        self.launch_hook = None    # fn(ref) called at every engine.run()
        self.trace = []            # (op, snapshot)
        self.status = FakeStatus()
        self.result = None
        self.results = []          # what run() did for every stage that was run ("ok" | exception type name | "stopped")
        self.stage_no = 0          # index of the stage that is current
        self.n_sched = 0
        self._chooser = None
        ctl.initialise(self.exp._stages[0], self.status)

        def q_finished(state, component):
            self.pending.append(["fin", component.specification.reference])

        def q_postmortem(state, component):
            self.pending.append(["pm", component.specification.reference])

        self._real_finished = ctl.finishedCheck
        self._real_postmortem = ctl.postMortemCheck
        ctl.finishedCheck = q_finished
        ctl.postMortemCheck = q_postmortem
        ctl._event_scheduler = _EventScheduler(self)
        real_schedule = ctl._schedule

        def schedule(*a, **k):
            r = real_schedule(*a, **k)
            self.n_sched += 1
            self._record(["sched"])
            self._notify(["sched"])
            return r
        ctl._schedule = schedule

        def on_run(engine):
            if engine in self.engines and self.launch_hook is not None:
                self.launch_hook(engine.job.reference)
        self._on_run = on_run
        env["RUN_HOOKS"].append(on_run)

    # -- observation ------------------------------------------------------------------------
    def engine(self, ref):
        return self.comp[ref].engine

    def state_name(self, ref):
        return STATE_NAMES.get(self.comp[ref].state, "other:" + str(self.comp[ref].state))

    def snapshot(self):
        ctl = self.controller
        comps = []
        for r in self.refs:
            c = self.comp[r]
            comps.append([self.state_name(r), r in ctl.comp_done, c in ctl.comp_staged_in, c.engine.runs,
                          bool(c.finishCalled)])
        pend = sorted([k, self.index[r]] for k, r in self.pending)
        return {"comps": comps, "stop": bool(ctl.stop_executing), "pending": pend,
                "stage": int(ctl.currentStage.index)}

    def _record(self, op):
        self.trace.append((op, self.snapshot()))

    def _notify(self, op):
        fn = getattr(self._chooser, "notify", None)
        if fn is not None:
            fn(self, op)

    # -- enabled ops -------------------------------------------------------------------------
    def running(self):
        return [i for i, r in enumerate(self.refs)
                if self.engine(r).started and self.engine(r).isAlive()]

    def enabled(self):
        ops = [["exit", i] for i in self.running()]
        ops += [[k, self.index[r]] for k, r in self.pending]
        return ops

    # -- op execution ------------------------------------------------------------------------
    def apply(self, op):
        kind = op[0]
        ctl = self.controller
        if kind == "exit":
            r = self.refs[op[1]]
            e = self.engine(r)
            if e.started and e.isAlive():
                k = self.execs[r]
                reason = self.scripts[r][k] if k < len(self.scripts[r]) else "Success"
                self.execs[r] = k + 1
                e.die(reason)
        elif kind in ("fin", "pm"):
            r = self.refs[op[1]]
            item = [kind, r]
            if item in self.pending:
                self.pending.remove(item)
                c = self.comp[r]
                if kind == "fin":
                    self._real_finished(c.state, c)
                elif not c.finishCalled:       # op.filter(lambda e: e[1].finishCalled is False)
                    self._real_postmortem(c.state, c)
        elif kind == "kill":
            ctl.killController("harness")
        elif kind == "tick":
            s = self.ticks.get(self.refs[op[1]])
            if s is not None:
                s.on_next(0)
        else:
            raise ValueError("unknown op %r" % (op,))
        self._record(op)

    def _in_wait(self):
        while True:
            op = self._chooser(self)
            if op is None:
                raise StopSim()
            if op[0] == "sched":
                return
            self.apply(op)

    def run(self, chooser, max_stages=None):
        """Runs the stage loop (real Controller.run() per stage, see the module docstring) with
        `chooser(sim) -> op | None` deciding what happens inside every wait() and in the inter-stage windows.
        Returns the outcome of the last run(): "ok" | exception type name | "stopped"; `self.results` has one
        entry per stage that was run."""
        self._chooser = chooser
        ctl = self.controller
        nst = int(self.exp.numStages())
        if max_stages is not None:
            nst = min(nst, max_stages)
        self.results = []
        while True:
            try:
                ctl.run()
                r = "ok"
            except StopSim:
                r = "stopped"
            except Exception as exc:  # noqa
                r = type(exc).__name__
                self.error = exc
            self.results.append(r)
            if r == "stopped":
                break
            stage = self.exp._stages[self.stage_no]
            go_on = (r == "ok") or (r in ("UnexpectedJobFailureError", "FinalStageNoFinishedLeafComponents")
                                    and bool(stage.continueOnError))
            if not go_on or self.stage_no + 1 >= nst:
                break
            self.stage_no += 1
            self.exp.incrementStage()
            ctl.initialise(self.exp._stages[self.stage_no], self.status)
            self._record(["next"])
            self._notify(["next"])
            try:
                self._in_wait()          # inter-stage window: ends when the chooser says ["sched"]
            except StopSim:
                self.results.append("stopped")
                break
        self.result = self.results[-1]
        return self.result

    def stage_states(self):
        out = []
        for i in range(int(self.exp.numStages())):
            try:
                st = self.controller._stageStates[i].state
                out.append(STATE_NAMES.get(st, str(st)))
            except Exception as exc:  # noqa
                out.append("error:" + type(exc).__name__)
        return out

    def ops(self):
        return [op for op, _ in self.trace]

    def close(self):
        try:
            self.env["RUN_HOOKS"].remove(self._on_run)
        except ValueError:
            pass
        del self.env["intervals"][self._n_int:]
        # complete the subjects so that nothing keeps references alive
        for s in self._interval_subjects:
            try:
                s.on_completed()
            except Exception:
                pass


class scripted:
    """chooser that replays a recorded op list.

    Scheduler passes are not caused by the chooser but by the real loop (one before the loop of every run(),
    one per loop iteration): a ["sched"] entry of the list is consumed when a real `_schedule` call happens
    (`notify`), a ["next"] entry when the stage loop really moved on.  While the head of the list is ["sched"]
    (or ["next"]) wait() returns, so that the loop performs its next iteration (or ends); if the stage does not
    end where the list says ["next"], the simulation is stopped.  At the end of the list the loop is given one
    more iteration when `finish` (so that a completed stage returns from run()), then the simulation is
    stopped."""

    def __init__(self, ops, finish=True):
        self.ops = [list(o) for o in ops]
        self.i = 0
        self.extra = bool(finish)
        self.asked_next = False

    def notify(self, sim, op):
        if self.i < len(self.ops) and self.ops[self.i][0] == op[0] and op[0] in ("sched", "next"):
            self.i += 1
            self.asked_next = False

    def __call__(self, sim):
        if self.i < len(self.ops):
            op = self.ops[self.i]
            if op[0] == "sched":
                return ["sched"]
            if op[0] == "next":
                if self.asked_next:
                    return None
                self.asked_next = True
                return ["sched"]
            self.i += 1
            return op
        if self.extra:
            self.extra = False
            return ["sched"]
        return None
