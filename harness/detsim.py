"""Deterministic execution of the real st4sd Controller / ComponentState (/ Engine) code.

Used by harness/c01.py and harness/c02.py (DESIGN.md section 3.3); `install()`, `FakeStatus` and the `env` dictionary
are also used by harness/c05.py, c13.py, c20.py.  Nothing in /repo is modified: the stand-ins below are installed by
monkey-patching from this process.

  * reactivex.interval              -> a fresh Subject per call (recorded with the name of the creating
                                       function; those made in ComponentState.__init__ can be ticked)
  * NewThreadScheduler / ThreadPoolGenerator.get_pool -> one CurrentThreadScheduler (trampoline), except
      - the Controller pool and the EngineTask pool: `HoldPool` objects.  While no `Sim` owns them they forward
        to the trampoline (callers that only `install()` see the former synchronous behaviour).  While a `Sim`
        owns them, an item scheduled on the pool is HELD until the harness runs it: the real RxPY pipelines of
        the Controller (`observe_on(controllerPool)` + `filter(finishCalled is False)`, in whatever order the code
        composes them) decide what a queued notification does when it is finally delivered; per `observe_on`
        the deliveries are FIFO (as with the real thread pool: a ScheduledObserver drains its queue serially),
        between different pipelines the harness chooses.
  * control.time.sleep, control.WaitOnStability, MonitorExceptionTracker.isSystemStable -> no-op / True
  * Engine.engineForComponentSpecification -> FakeEngine / FakeRepeatingEngine whose task exits are events chosen
        by the harness; or (Sim(real_engines=True), non-repeating components) the REAL `Engine`: real `run`
        (InitPerformanceInfo, LaunchTask, SetLaunchTime | Wait, FinalisePerformanceInfo, HandleTaskExit ->
        `_setExitReason`), `restart`, `kill`, `shutdown`, `exitReason`, with a harness task generator that returns a
        scripted fake Task or raises OSError / JobLaunchError / RuntimeError (script entries "Reason:os",
        "Reason:launch", "Reason:raise"), or returns a Task that exits with the scripted reason and is followed by a
        fault in the engine's own post-exit bookkeeping ("Reason:perf": the task's performance information raises in
        FinalisePerformanceInfo, "Reason:matrix": the update of the performance table raises once ->
        HandleTaskObservableException -> `_setExitReason`); the launch happens inside `run()`, the part after
        `observe_on(taskPoolScheduler)` (waiting for the task and handling its exit) is held in the EngineTask
        pool until the harness chooses the `exit` of that component.
  * Controller.comp_lock            -> `HLock`, a re-entrant lock whose outermost acquire / release are yield
        points for a delivery that the harness runs in a worker thread (strict hand-off: exactly one thread runs
        at any time, so the run is deterministic): `finishedCheck` is then executed in three steps
        ["finA", c] (up to the acquisition of comp_lock), ["finB", c] (the critical region), ["finC", c] (the
        rest), between which the harness may let the run() loop perform scheduler passes and other events happen.
  * Controller._event_scheduler     -> object whose wait() hands control to the harness; the real
                                       Controller.run() loop executes unmodified
  * ComponentState.finish           -> recording wrapper (ground truth for "the first final state of a component")
  * the stand-in of a RepeatingEngine ends like the real one: only after ComponentState told it
    notify_all_producers_finished(), or after kill() - before that its ["exit", c] is not enabled (a Sim with
    gate_repeating=False restores the former "may exit at any time")
  * Controller.completionCheck (the package's hooks/status.py::IsStageComplete) -> a function that answers what the
    harness says; the poll timer of Controller._observe_completionCheck is one of the fake intervals: op
    ["complete", k] makes the hook of stage k answer True and ticks that timer once (the real pipeline
    map / filter / first / map(closure -> _stopComponents) runs in the harness thread; the set of components that the
    closure passes to _stopComponents is iterated in reference order instead of address order: reproducible replays)
  * the stage loop of scripts/elaunch.py:Run (not importable: a script with global option parsing) is
    re-stated in Sim.run(): run() the current stage; stop on an exception unless the stage has
    `continue-on-error`; experiment.incrementStage(); Controller.initialise(next stage); run() ...
"""
from __future__ import annotations

import logging
import os
import sys
import threading

_INSTALLED = {}


class StopSim(BaseException):
    """Raised from wait() to abandon Controller.run() (BaseException: not caught by `except Exception`)."""


class HarnessError(BaseException):
    """the deterministic runtime met something it cannot drive (internal structure of RxPY changed, deadlock ...);
    a BaseException so that no `except Exception` of the code under test swallows it"""


def install():
    """Idempotent.  Must run before experiment.runtime.* is imported for the first time."""
    if _INSTALLED:
        return _INSTALLED
    already = [m for m in ("experiment.runtime.workflow", "experiment.runtime.control", "experiment.runtime.engine")
               if m in sys.modules]
    if already:
        raise RuntimeError("detsim.install() must precede the import of %s" % already)
    logging.disable(logging.CRITICAL)
    import reactivex
    import reactivex.scheduler
    from reactivex.subject import Subject
    from reactivex.scheduler import CurrentThreadScheduler
    from reactivex.scheduler.scheduler import Scheduler
    from reactivex.disposable import Disposable

    CT = CurrentThreadScheduler()
    intervals = []   # (creating function name, Subject)
    interval_owner = {}   # id(Subject) -> qualified name of the creating function

    def fake_interval(*a, **k):
        s = Subject()
        code = sys._getframe(1).f_code
        intervals.append((code.co_name, s))
        interval_owner[id(s)] = getattr(code, "co_qualname", code.co_name)
        return s

    class PoolItem:
        __slots__ = ("pool", "action", "state", "cancelled", "tag")

        def __init__(self, pool, action, state, tag):
            self.pool, self.action, self.state, self.cancelled, self.tag = pool, action, state, False, tag

        def cancel(self):
            self.cancelled = True
            try:
                self.pool.items.remove(self)
            except ValueError:
                pass

        def run(self):
            try:
                self.pool.items.remove(self)
            except ValueError:
                pass
            if not self.cancelled:
                self.action(self.pool, self.state)

    class HoldPool(Scheduler):
        """stand-in for one ThreadPoolScheduler (see the module docstring)"""

        def __init__(self, name):
            super().__init__()
            self.name = name
            self.owner = None
            self.items = []

        def schedule(self, action, state=None):
            if self.owner is None:
                return CT.schedule(action, state)
            item = PoolItem(self, action, state, self.owner._tag_for(self, action))
            self.items.append(item)
            return Disposable(item.cancel)

        def schedule_relative(self, duetime, action, state=None):
            return self.schedule(action, state)

        def schedule_absolute(self, duetime, action, state=None):
            return self.schedule(action, state)

    CTRL_POOL = HoldPool("Controller")
    TASK_POOL = HoldPool("EngineTask")

    def get_pool(cls, pool):
        name = getattr(pool, "value", pool)
        if name == "Controller":
            return CTRL_POOL
        if name == "EngineTask":
            return TASK_POOL
        return CT

    reactivex.interval = fake_interval
    reactivex.scheduler.NewThreadScheduler = lambda *a, **k: CT
    import experiment.runtime.utilities.rx as urx
    urx.ThreadPoolGenerator.get_pool = classmethod(get_pool)

    import experiment.runtime.engine as E
    import experiment.runtime.workflow as W
    import experiment.runtime.control as C
    import experiment.runtime.monitor as M
    import experiment.runtime.errors as RE
    import experiment.model.codes as codes

    class _NoSleep:
        def __getattr__(self, k):
            import time as _t
            return getattr(_t, k)

        @staticmethod
        def sleep(*a, **k):
            return None

    C.time = _NoSleep()
    C.WaitOnStability = lambda *a, **k: True
    try:
        M.MonitorExceptionTracker.isSystemStable = lambda self, *a, **k: True
    except Exception:  # pragma: no cover
        pass

    RC = codes.restartCodes
    XR = codes.exitReasons
    STATE = {"REAL": None}     # the Sim that wants real engines (while it builds / runs), else None

    class _OpProxy:
        """reactivex.operators as engine.py sees it: while a Sim runs real engines the launch delay of
        Engine.run is not waited for"""

        def __init__(self, real):
            self._real = real

        def delay(self, *a, **k):
            if STATE["REAL"] is not None:
                return lambda source: source
            return self._real.delay(*a, **k)

        def __getattr__(self, k):
            return getattr(self._real, k)

    E.op = _OpProxy(E.op)

    # Engine._create_state_updates serialises the state updates of every engine on a private ThreadPoolScheduler(1)
    # (a real thread): while a Sim runs real engines that scheduler is the trampoline as well
    _RealTPS = reactivex.scheduler.ThreadPoolScheduler

    class _TPS(_RealTPS):       # still a class: modules imported later use it in annotations (`X | None`)
        def __new__(cls, *a, **k):
            if STATE["REAL"] is not None:
                return CT
            return super().__new__(cls)

    reactivex.scheduler.ThreadPoolScheduler = _TPS

    # ground truth for final states: every call of ComponentState.finish(state), in order
    FINISH_HOOKS = []
    _real_finish = W.ComponentState.finish

    def finish_recorder(self, finalState):
        for cb in list(FINISH_HOOKS):
            cb(self, finalState)
        return _real_finish(self, finalState)

    W.ComponentState.finish = finish_recorder

    class FakeEngineBase:
        """Duck-typed engine.  The restart() below is the part of Engine.restart that C01/C02 need (counter
        and maxRestarts gate, SubmissionFailed vs restartHookOn, vanilla re-run); hooks are C12's business."""

        def _fe_init(self, job):
            self.job = job
            self._exit = None
            self._shutdown = False
            self.restarts = 0
            self._resub = 0
            self.runs = 0
            self.started = False
            self.killRequested = False
            self.process = None
            self._su = Subject()
            self.producersFinished = False
            self.log = logging.getLogger("fake")
            ENGINES.append(self)

        @property
        def stateUpdates(self):
            return self._su

        def isAlive(self):
            return self._exit is None

        def exitReason(self):
            return self._exit

        def returncode(self):
            if self._exit is None:
                return None
            return 0 if self._exit == XR["Success"] else 1

        def run(self, *a, **k):
            self.runs += 1
            self.started = True
            for cb in list(RUN_HOOKS):
                cb(self)

        def kill(self):
            if not self.isAlive():
                return
            if not self.started:
                # Engine.kill before run(): the termination observable sets exitReason Killed by itself
                self.die(XR["Killed"])
            else:
                self.killRequested = True

        @property
        def isShutdown(self):
            return self._shutdown

        def shutdown(self):
            if self.isAlive():
                raise AssertionError('An engine must be non-active (dead) to be shutdown')
            self._shutdown = True
            self.stateUpdates.on_next(({}, self))      # Engine.shutdown() -> emit_now()

        def resubmissionAttempts(self):
            return self._resub

        def restart(self, reason=None, code=None):
            assert (not self.started) or (not self.isAlive())
            maxr = self.job.workflowAttributes.get('maxRestarts', None)
            if maxr is None:
                maxr = -1 if self.job.workflowAttributes.get('restartHookFile') else 3
            if maxr != -1 and self.restarts + 1 > maxr:
                return RC['RestartMaxAttemptsExceeded']
            reason = reason if reason is not None else self.exitReason()
            on = self.job.workflowAttributes.get('restartHookOn', [])
            if reason == XR["SubmissionFailed"]:
                pass
            elif reason in on:
                self.restarts += 1
            else:
                return RC['RestartCouldNotInitiate']
            self._exit = None
            self.killRequested = False
            self.run()
            self.stateUpdates.on_next(({'isAlive': True}, self))
            if reason == XR["SubmissionFailed"]:
                self._resub += 1
            return RC['RestartInitiated']

        def die(self, reason):
            assert self._exit is None
            self._exit = reason
            if reason == XR["Success"]:
                self._resub = 0
            self.stateUpdates.on_next(({'isAlive': False, 'engineExitReason': reason}, self))

        # RepeatingEngine protocol used by ComponentState / Controller
        def notify_all_producers_finished(self):
            self.producersFinished = True

        def notify_producer_successful_run(self, ref):
            pass

        def optimizer_enable(self, *a, **k):
            pass

        def optimizer_disable(self, *a, **k):
            pass

    class FakeEngine(FakeEngineBase):
        def __init__(self, job):
            self._fe_init(job)

    class FakeRepeatingEngine(FakeEngineBase, E.RepeatingEngine):
        # isinstance(engine, RepeatingEngine) is tested in workflow.py / control.py; the real __init__ is not run
        def __init__(self, job):
            self._fe_init(job)

    class StubTask:
        """what the harness task generator returns when the backend accepts the task: a Task that has finished
        when wait() is called and reports the scripted exit reason"""

        def __init__(self, reason, engine):
            self.exitReason = reason
            self.returncode = 0 if reason == XR["Success"] else 1
            self.status = "finished"
            self.schedulerId = "stub"
            self.engine = engine
            self.killed = False
            self.waited = False

            class _Perf:
                def getElements(self):
                    return {}

            self.performanceInfo = _Perf()

        def isAlive(self):
            return False

        def wait(self):
            import datetime
            t0 = datetime.datetime.now()
            while datetime.datetime.now() == t0:      # task-run-time is a divisor in FinalisePerformanceInfo
                pass
            self.waited = True
            return self.returncode

        def kill(self):
            self.killed = True

        def terminate(self):
            self.killed = True

        def __getattr__(self, k):  # anything else the state dictionary reads about a finished task
            if k.startswith("__"):
                raise AttributeError(k)
            return None

    def make_real_engine(sim, job):
        eng = E.Engine(job, None)
        eng.runs = 0
        eng.started = False
        eng.killRequested = False

        def generator(job_, *a, **k):
            kind = sim._next_launch(eng)
            base, _, how = kind.partition(":")
            if how == "os":
                raise OSError("working directory vanished")
            if how == "launch":
                raise RE.JobLaunchError("backend refused the task", None)
            if how == "raise":
                raise RuntimeError("task generator is broken")
            task = StubTask(XR[base], eng)
            if how == "perf":
                # fault AFTER the task exited: the backend cannot deliver the performance information of the finished
                # task (FinalisePerformanceInfo raises -> HandleTaskObservableException)
                # (once: the engine reads it again whenever it computes its state dictionary)
                # and only after wait() returned: before that the task has not exited)
                class _NoPerfOnce:
                    failed = False

                    def getElements(self):
                        if task.waited and not self.failed:
                            self.failed = True
                            raise RuntimeError("performance information of the task is unavailable")
                        return {}
                task.performanceInfo = _NoPerfOnce()
            elif how == "matrix":
                # fault AFTER the task exited: the update of the engine's performance table fails once
                pm = eng.performanceMatrix

                def remove_rows_once(*a_, **k_):
                    try:
                        del pm.removeRows
                    except AttributeError:
                        pass
                    raise RuntimeError("performance table cannot be updated")
                pm.removeRows = remove_rows_once
            elif how:
                raise HarnessError("unknown launch variant %r" % (kind,))
            return task

        eng.taskGenerator = generator

        def run_wrapper(*a, **k):
            eng.runs += 1
            eng.started = True
            for cb in list(RUN_HOOKS):
                cb(eng)
            prev = sim._launching
            sim._launching = eng
            try:
                E.Engine.run(eng, startObservable=reactivex.of(0))      # the real method
            finally:
                sim._launching = prev

        eng.run = run_wrapper
        ENGINES.append(eng)
        return eng

    ENGINES = []
    RUN_HOOKS = []

    def make_engine(cls, job):
        if job.isRepeat:
            return FakeRepeatingEngine(job)
        if STATE["REAL"] is not None:
            return make_real_engine(STATE["REAL"], job)
        return FakeEngine(job)

    E.Engine.engineForComponentSpecification = classmethod(make_engine)

    _INSTALLED.update(dict(CT=CT, intervals=intervals, interval_owner=interval_owner, E=E, W=W, C=C, codes=codes,
                           ENGINES=ENGINES, RUN_HOOKS=RUN_HOOKS, FINISH_HOOKS=FINISH_HOOKS, FakeEngine=FakeEngine,
                           FakeRepeatingEngine=FakeRepeatingEngine, CTRL_POOL=CTRL_POOL, TASK_POOL=TASK_POOL,
                           STATE=STATE, StubTask=StubTask))
    return _INSTALLED


class FakeStatus:
    def __init__(self):
        self.monitored = []

    def monitorComponent(self, comp):
        self.monitored.append(comp.specification.reference)


class _EventScheduler:
    def __init__(self, sim):
        self.sim = sim

    def wait(self, timeout=None):
        self.sim._in_wait()
        return True

    def set(self):
        pass

    def clear(self):
        pass

    def is_set(self):
        return False


class _Worker:
    """one delivery executed in its own thread with strict hand-off to the harness thread"""
    _local = threading.local()

    def __init__(self, sim, fn, label, max_stops):
        self.sim, self.fn, self.label, self.max_stops = sim, fn, label, max_stops
        self.stops = 0
        self.done = False
        self.exc = None
        self.at = None
        self.queue = None
        self._to_main = threading.Event()
        self._to_self = threading.Event()
        self.thread = threading.Thread(target=self._run, daemon=True)

    @classmethod
    def current(cls):
        return getattr(cls._local, "cur", None)

    def _run(self):
        _Worker._local.cur = self
        try:
            self.fn()
        except BaseException as exc:  # noqa
            self.exc = exc
        finally:
            self.done = True
            self._to_main.set()

    def _wait_for_worker(self):
        if not self._to_main.wait(120):
            raise HarnessError("worker %r did not yield within 120 s (deadlock?)" % (self.label,))
        self._to_main.clear()

    def start(self):
        self.thread.start()
        self._wait_for_worker()

    def resume(self):
        self._to_self.set()
        self._wait_for_worker()

    def pause(self, why):
        """called in the worker thread at a yield point"""
        if self.stops >= self.max_stops or self.sim._draining:
            return
        self.stops += 1
        self.at = why
        self._to_main.set()
        self._to_self.wait()
        self._to_self.clear()


class HLock:
    """replacement of Controller.comp_lock (threading.RLock): re-entrant; the outermost acquire and the outermost
    release of a worker thread are yield points.  Because a worker only ever waits at those two points, a waiting
    worker never holds the lock, so no thread ever has to block on it."""

    def __init__(self, sim):
        self.sim = sim
        self.owner = None
        self.count = 0

    def acquire(self, blocking=True, timeout=-1):
        me = threading.get_ident()
        if self.owner == me:
            self.count += 1
            return True
        w = _Worker.current()
        if w is not None:
            w.pause("acquire")
        if self.owner is not None:
            raise HarnessError("comp_lock is held by a suspended thread")
        self.owner = me
        self.count = 1
        return True

    def release(self):
        if self.owner != threading.get_ident():
            raise RuntimeError("cannot release un-acquired lock")
        self.count -= 1
        if self.count == 0:
            self.owner = None
            w = _Worker.current()
            if w is not None:
                w.pause("release")

    def __enter__(self):
        self.acquire()
        return self

    def __exit__(self, *a):
        self.release()
        return False


STATE_NAMES = {"finished": "finished", "failed": "failed", "component_shutdown": "shutdown",
               "running": "running", "checking": "postmortem"}
FINAL_NAMES = ("finished", "failed", "shutdown")


def _closure_vars(fn):
    code = getattr(fn, "__code__", None)
    cells = getattr(fn, "__closure__", None)
    if code is None or not cells:
        return {}
    out = {}
    for name, cell in zip(code.co_freevars, cells):
        try:
            out[name] = cell.cell_contents
        except ValueError:
            pass
    return out


class Sim:
    """One experiment + one real Controller under the deterministic runtime.

    Ops (JSON lists):  ["sched"] | ["exit", c] | ["fin", c] | ["pm", c] | ["finA", c] | ["finB", c] | ["finC", c] |
                       ["kill"] | ["tick", c] | ["next"] | ["complete", k]
    where c is the index of the component in `self.refs` (= canonical topological numbering of the components that
    exist when the Controller is built, then - DoWhile iterations - in order of instantiation).
    `["sched"]` = return from wait() so that the real loop performs its next iteration (active check, `_schedule`).
    `["fin", c]` / `["pm", c]` run the held Controller-pool item that delivers the queued finished / post-mortem
    notification of c (enabled when that notification is at the head of its `observe_on` queue); `["finA", c]`,
    `["finB", c]`, `["finC", c]` run the same delivery of a finished-notification in three steps (see HLock).
    The exit reason of the k-th execution of c is scripts[c][k] (Success beyond the end of the script; a suffix
    ":os" / ":launch" / ":raise" makes the task generator of a real engine raise instead of returning a task, a
    suffix ":perf" / ":matrix" makes a step of the real engine's pipeline raise AFTER the task exited with the reason).
    `["next"]` is recorded (never chosen) when the stage loop has called Controller.initialise() for the next stage;
    right after it the chooser may let events happen before the run() of the new stage starts (the inter-stage
    window: real notifications do not wait for run())."""

    def __init__(self, flowir_yaml, workdir, scripts_by_ref=None, extra_files=None, real_engines=False,
                 gate_repeating=True):
        env = install()
        self.gate_repeating = bool(gate_repeating)
        self._completions = []     # poll timers of _observe_completionCheck, one per run() call = per stage, in order
        self._complete_flags = {}  # stage index -> what IsStageComplete answers
        self._complete_fired = set()
        self.env = env
        import tests.utils as TU
        from reactivex.observer.scheduledobserver import ScheduledObserver
        self._SO = ScheduledObserver
        cwd = os.getcwd()
        self._n_int = len(env["intervals"])
        self._n_eng = len(env["ENGINES"])
        self.real_engines = bool(real_engines)
        self._launching = None
        self._obs_tag = {}
        self._draining = False
        self.workers = {}          # ref -> _Worker (a finished-notification in flight)
        self.pool_errors = []
        self.exit_log = {}         # ref -> [[script entry, exit reason the engine reported after that execution]] (real engines)
        self.finish_log = []       # [ref, state name] for every ComponentState.finish() call, in order
        self.first_final = {}      # ref -> first final state (name) the component was seen in / asked to take
        self.final_at = {}         # ref -> len(trace) when the component was first seen final
        self.launch_at = {}        # ref -> len(trace) at its first engine.run()
        self.clock = 0             # event counter: orders "became final" against "was launched" inside one op
        self.final_clock = {}      # ref -> clock when the component was first seen final
        self.launch_clock = {}     # ref -> clock at its first engine.run()
        self._seen = {}            # id(queued closure) -> (closure, label, dead)
        self.ctrl_pool = env["CTRL_POOL"]
        self.task_pool = env["TASK_POOL"]
        if self.ctrl_pool.owner is not None or self.task_pool.owner is not None:
            raise HarnessError("another Sim is still active")
        self.ctrl_pool.owner = self
        self.task_pool.owner = self
        del self.ctrl_pool.items[:]
        del self.task_pool.items[:]
        self.exit_hook = None      # fn(ref, reason) called just before the task of ref exits
        self.refs = []
        self.index = {}
        self.comp = {}
        self.ticks = {}
        self.engines = []
        self.execs = {}
        self.scripts = {}
        try:
            if self.real_engines:
                env["STATE"]["REAL"] = self
            kw = {"extra_files": extra_files} if extra_files else {}
            try:
                self.exp = TU.experiment_from_flowir(flowir_yaml, workdir, checkExecutables=False, **kw)
                self.controller, self._components = TU.new_controller(self.exp)
            finally:
                os.chdir(cwd)
            ctl = self.controller
            ctl.comp_lock = HLock(self)
            ctl.completionCheck = lambda stage_index, directory: bool(self._complete_flags.get(int(stage_index)))
            # the closure of _observe_completionCheck hands _stopComponents a SET of ComponentState objects: its
            # iteration order depends on object addresses, and it decides the order in which components that are in
            # POSTMORTEM emit their finished-notification into a shared observe_on pipeline.  For reproducible
            # replays a set argument is iterated in reference order.
            real_stop = ctl._stopComponents

            def stop_components(components, stop_optimizer):
                if isinstance(components, (set, frozenset)):
                    components = sorted(components, key=lambda c: c.specification.reference)
                return real_stop(components, stop_optimizer)
            ctl._stopComponents = stop_components
            nodes = list(ctl.graph.nodes)
            depth = {}

            def _depth(r):
                if r not in depth:
                    depth[r] = 0   # guards against cycles (validated workflows have none)
                    ps = list(ctl.graph.predecessors(r))
                    depth[r] = 1 + max([_depth(p) for p in ps]) if ps else 0
                return depth[r]
            # canonical topological numbering: (longest path from a source, name)
            for r in sorted(nodes, key=lambda r: (_depth(r), r)):
                self._adopt(r)
            self.order = [self.index[r] for r in nodes if r in self.index]      # iteration order of graph.nodes
            self.preds = {r: sorted(self.index[p] for p in ctl.graph.predecessors(r) if p in self.index)
                          for r in self.refs}
            self._adopt_engines()
            for r, s in (scripts_by_ref or {}).items():
                self.scripts[r] = list(s)
            self.pending = []          # [kind, ref]: queued notifications that are still to be delivered
            self.launch_hook = None    # fn(ref) called at every engine.run()
            self.trace = []            # (op, snapshot)
            self.status = FakeStatus()
            self.result = None
            self.results = []          # what run() did for every stage that was run ("ok" | exception type name | "stopped")
            self.stage_no = 0          # index of the stage that is current
            self.n_sched = 0
            self._chooser = None
            self._delivered = None

            def on_finish(comp, state):
                try:
                    r = comp.specification.reference
                except Exception:  # noqa
                    return
                if self.comp.get(r) is comp:
                    self.finish_log.append([r, STATE_NAMES.get(state, str(state))])
                    self.first_final.setdefault(r, STATE_NAMES.get(state, str(state)))
            self._on_finish = on_finish
            env["FINISH_HOOKS"].append(on_finish)
            ctl.initialise(self.exp._stages[0], self.status)

            real_fin = ctl.finishedCheck
            real_pm = ctl.postMortemCheck

            def rec_finished(state, component):
                self._delivered = ["fin", component.specification.reference]
                return real_fin(state, component)

            def rec_postmortem(state, component):
                self._delivered = ["pm", component.specification.reference]
                return real_pm(state, component)
            ctl.finishedCheck = rec_finished
            ctl.postMortemCheck = rec_postmortem
            ctl._event_scheduler = _EventScheduler(self)
            real_schedule = ctl._schedule

            def schedule(*a, **k):
                r = real_schedule(*a, **k)
                self.n_sched += 1
                self._settle()
                self._record(["sched"])
                self._notify(["sched"])
                return r
            ctl._schedule = schedule

            def on_run(engine):
                if engine in self.engines:
                    r = engine.job.reference
                    self._note_finals()
                    self.clock += 1
                    self.launch_at.setdefault(r, len(self.trace))
                    self.launch_clock.setdefault(r, self.clock)
                    if self.launch_hook is not None:
                        self.launch_hook(r)
            self._on_run = on_run
            env["RUN_HOOKS"].append(on_run)
            self._settle()
        except BaseException:
            self.close()
            raise

    # -- components (the set grows when a DoWhile iteration is instantiated) ---------------------
    def _adopt(self, r):
        try:
            c = self.controller.get_compstate(r)
        except Exception:  # noqa: a node without ComponentState
            return False
        self.index[r] = len(self.refs)
        self.refs.append(r)
        self.comp[r] = c
        self.execs.setdefault(r, 0)
        self.scripts.setdefault(r, [])
        return True

    def _scan_completions(self):
        for fn, s in self.env["intervals"][self._n_int:]:
            if fn == "_observe_completionCheck" and not any(s is x for x in self._completions):
                self._completions.append(s)

    def can_complete(self, k):
        """the completion hook of stage k is being polled (run() of that stage has started) and has not fired"""
        self._scan_completions()
        return 0 <= k < len(self._completions) and k not in self._complete_fired

    def _adopt_engines(self):
        env = self.env
        self._scan_completions()
        new = env["ENGINES"][self._n_eng:]
        del env["ENGINES"][self._n_eng:]
        self.engines.extend(new)
        own = env["interval_owner"]
        mine = [s for (fn, s) in env["intervals"][self._n_int:]
                if own.get(id(s), fn).endswith("ComponentState.__init__")]
        self._interval_subjects = getattr(self, "_interval_subjects", []) + [s for _, s in env["intervals"][self._n_int:]]
        for _, s in env["intervals"][self._n_int:]:
            own.pop(id(s), None)
        del env["intervals"][self._n_int:]
        # ComponentState.__init__ creates exactly one interval per component, in construction order == order of
        # engine creation
        for e, s in zip(new, mine):
            self.ticks[e.job.reference] = s

    def refresh(self):
        """adopt the components that the Controller instantiated since the last call (DoWhile iterations)"""
        ctl = self.controller
        new = [r for r in ctl.graph.nodes if r not in self.index]
        added = [r for r in new if self._adopt(r)]
        if added or len(self.env["ENGINES"]) > self._n_eng:
            self._adopt_engines()
        return added

    # -- observation ------------------------------------------------------------------------
    def engine(self, ref):
        return self.comp[ref].engine

    def state_name(self, ref):
        return STATE_NAMES.get(self.comp[ref].state, "other:" + str(self.comp[ref].state))

    def true_state(self, ref):
        """state of the component with final states taken from the ground truth: the first final state the component
        entered (the state named by the first finish() call once the component is final), whatever the controller
        reports now"""
        st = self.state_name(ref)
        if ref in self.final_at or st in FINAL_NAMES:
            return self.first_final.get(ref, st)
        return st

    def _note_finals(self):
        self.clock += 1
        for r in self.refs:
            if r not in self.final_at:
                st = self.state_name(r)
                if st in FINAL_NAMES:
                    self.final_at[r] = len(self.trace)
                    self.final_clock[r] = self.clock
                    self.first_final.setdefault(r, st)

    def snapshot(self):
        ctl = self.controller
        comps = []
        for r in self.refs:
            c = self.comp[r]
            e = c.engine
            comps.append([self.state_name(r), r in ctl.comp_done, c in ctl.comp_staged_in, e.runs,
                          bool(c.finishCalled),
                          bool(e.started and e.isAlive() and getattr(e, "producersFinished", False))])
        pend = sorted([k, self.index[r]] for k, r in self.pending)
        snap = {"comps": comps, "stop": bool(ctl.stop_executing), "pending": pend,
                "stage": int(ctl.currentStage.index)}
        if self.workers:
            snap["inflight"] = sorted([self.index[r], w.stops] for r, w in self.workers.items())
        return snap

    def _record(self, op):
        self._note_finals()
        self.trace.append((op, self.snapshot()))

    def _notify(self, op):
        fn = getattr(self._chooser, "notify", None)
        if fn is not None:
            fn(self, op)

    # -- the held pools -------------------------------------------------------------------------
    def _tag_for(self, pool, action):
        o = getattr(action, "__self__", None)
        if pool is self.task_pool:
            if o is not None and id(o) in self._obs_tag:
                return self._obs_tag[id(o)][1]
            tag = self._launching
            if o is not None and tag is not None:
                self._obs_tag[id(o)] = (o, tag)
            return tag
        return None

    def _label(self, value):
        """what a value queued in an observe_on(controllerPool) pipeline is: ("fin" | "pm", ref) or None"""
        W = self.env["W"]
        if isinstance(value, tuple) and len(value) == 2 and isinstance(value[1], W.ComponentState):
            try:
                r = value[1].specification.reference
            except Exception:  # noqa
                return None
            if self.comp.get(r) is not value[1]:
                return None
            pm = isinstance(value[0], dict) and value[0].get("state") == self.env["codes"].POSTMORTEM_STATE
            return ("pm" if pm else "fin", r)
        return None

    def _queue_of(self, item):
        o = getattr(item.action, "__self__", None)
        if isinstance(o, self._SO):
            return o
        return None

    def _classify(self, work):
        """(label | None, dead) of one queued closure of a ScheduledObserver; remembered from the first time it is seen"""
        k = id(work)
        got = self._seen.get(k)
        if got is not None and got[0] is work:
            return got[1], got[2]
        cv = _closure_vars(work)
        label = self._label(cv["value"]) if "value" in cv else None
        dead = False
        if label is not None and label[0] == "pm":
            # a post-mortem notification emitted after finish() was called: nobody may act on it
            dead = bool(self.comp[label[1]].finishCalled)
        self._seen[k] = (work, label, dead)
        return label, dead

    def _scan(self):
        """-> (heads: {(kind, ref): item}, pending [[kind, ref]], auto: items to run at once)"""
        heads = {}
        pending = []
        auto = []
        queues = []
        for item in list(self.ctrl_pool.items):
            q = self._queue_of(item)
            if q is None or not q.queue:
                auto.append(item)       # not a ScheduledObserver / the drain step that releases it
                continue
            queues.append((item, q))
        # a pipeline whose head is being delivered by a worker has no scheduled item: what is queued behind the
        # notification in flight is still pending (and not deliverable before the worker ends)
        for w in self.workers.values():
            if w.queue is not None and w.queue.queue:
                queues.append((None, w.queue))
        for item, q in queues:
            for pos, work in enumerate(list(q.queue)):
                label, dead = self._classify(work)
                if pos == 0 and item is not None:
                    if label is None or dead:
                        auto.append(item)
                    else:
                        heads[label] = item
                if label is not None and not dead:
                    pending.append([label[0], label[1]])
        return heads, pending, auto

    def _run_item(self, item):
        try:
            item.run()
        except StopSim:
            raise
        except Exception as exc:  # noqa: a real pool thread would log and drop it
            self.pool_errors.append("%s: %s" % (type(exc).__name__, str(exc)[:300]))

    def _settle(self):
        """run everything in the Controller pool that is not a live notification of a component (engine state updates
        for observers, completions, drain steps, post-mortem notifications of components already asked to finish),
        then recompute `pending`"""
        for _ in range(10000):
            heads, pending, auto = self._scan()
            if not auto:
                break
            self._run_item(auto[0])
        else:
            raise HarnessError("controller pool does not settle")
        if self.task_pool.items and not self.real_engines:
            for item in list(self.task_pool.items):
                self._run_item(item)
        self._heads = heads
        live = set(id(w) for q in ([self._queue_of(i) for i in self.ctrl_pool.items] +
                                   [x.queue for x in self.workers.values()]) if q is not None for w in q.queue)
        for k in [k for k in self._seen if k not in live]:
            del self._seen[k]
        self.pending = pending
        if self.controller is not None and len(self.controller.graph.nodes) != len(self.refs):
            self.refresh()

    # -- enabled ops -------------------------------------------------------------------------
    def can_exit(self, ref):
        """the task of `ref` may end now: a plain engine's at any time; a repeating engine ends only after it was told
        that all its producers finished, or after kill() (RepeatingEngine: the monitor is cancelled by kill() only, which
        the engine calls itself once `_producers_are_finished`)"""
        e = self.engine(ref)
        if not (e.started and e.isAlive()):
            return False
        if self.gate_repeating and isinstance(e, self.env["E"].RepeatingEngine):
            return bool(getattr(e, "producersFinished", False) or getattr(e, "killRequested", False))
        return True

    def running(self):
        return [i for i, r in enumerate(self.refs) if self.can_exit(r)]

    def live(self):
        return [i for i, r in enumerate(self.refs) if self.engine(r).started and self.engine(r).isAlive()]

    def enabled(self):
        ops = [["exit", i] for i in self.running()]
        ops += [[k, self.index[r]] for (k, r) in sorted(self._heads)]
        for r, w in sorted(self.workers.items()):
            ops.append([("finB", "finC")[min(w.stops, 2) - 1], self.index[r]])
        return ops

    # -- real engines ---------------------------------------------------------------------------
    def _script_entry(self, ref, k):
        s = self.scripts.get(ref, [])
        return s[k] if k < len(s) else "Success"

    def _next_launch(self, eng):
        """script entry that decides what the task generator does for the launch that is being made"""
        r = eng.job.reference
        return self._script_entry(r, self.execs.get(r, 0))

    # -- op execution ------------------------------------------------------------------------
    def _deliver(self, kind, r, split):
        item = self._heads.get((kind, r))
        if item is None:
            return False
        self._delivered = None
        if not split:
            self._run_item(item)
            if self._delivered is not None and self._delivered != [kind, r]:
                raise HarnessError("queued notification %r was delivered as %r" % ((kind, r), self._delivered))
        else:
            def body():
                self._run_item(item)
            w = _Worker(self, body, (kind, r), 2)
            w.queue = self._queue_of(item)
            self.workers[r] = w
            w.start()
            self._after_worker(r, w)
        return True

    def _after_worker(self, r, w):
        if w.done:
            del self.workers[r]
            if w.exc is not None and not isinstance(w.exc, StopSim):
                self.pool_errors.append("%s: %s" % (type(w.exc).__name__, str(w.exc)[:300]))

    def apply(self, op):
        kind = op[0]
        ctl = self.controller
        done = True
        if kind == "exit":
            r = self.refs[op[1]]
            e = self.engine(r)
            if self.can_exit(r):
                k = self.execs[r]
                entry = self._script_entry(r, k)
                reason = entry.partition(":")[0]
                if self.exit_hook is not None:
                    self.exit_hook(r, reason)
                if hasattr(e, "die"):
                    self.execs[r] = k + 1
                    e.die(reason)
                else:
                    mine = [it for it in self.task_pool.items if it.tag is e]
                    if not mine:
                        raise HarnessError("no held task of %s" % r)
                    for _ in range(100):
                        mine = [it for it in self.task_pool.items if it.tag is e]
                        if not mine:
                            break
                        self._run_item(mine[0])
                    self.execs[r] = k + 1
                    self.exit_log.setdefault(r, []).append([entry, e.exitReason()])
            else:
                done = False
        elif kind in ("fin", "pm"):
            done = self._deliver(kind, self.refs[op[1]], False)
        elif kind == "finA":
            done = self._deliver("fin", self.refs[op[1]], True)
        elif kind in ("finB", "finC"):
            r = self.refs[op[1]]
            w = self.workers.get(r)
            if w is None or w.stops != (1 if kind == "finB" else 2):
                done = False
            else:
                w.resume()
                self._after_worker(r, w)
        elif kind == "kill":
            ctl.killController("harness")
        elif kind == "complete":
            k = int(op[1])
            if self.can_complete(k):
                self._complete_flags[k] = True
                self._complete_fired.add(k)
                self._completions[k].on_next(0)
            else:
                done = False
        elif kind == "tick":
            s = self.ticks.get(self.refs[op[1]])
            if s is not None:
                s.on_next(0)
        else:
            raise ValueError("unknown op %r" % (op,))
        self._settle()
        self._record(op if done else ["skip"] + list(op))

    def _in_wait(self):
        while True:
            op = self._chooser(self)
            if op is None:
                raise StopSim()
            if op[0] == "sched":
                return
            self.apply(op)

    def run(self, chooser, max_stages=None):
        """Runs the stage loop (real Controller.run() per stage, see the module docstring) with
        `chooser(sim) -> op | None` deciding what happens inside every wait() and in the inter-stage windows.
        Returns the outcome of the last run(): "ok" | exception type name | "stopped"; `self.results` has one
        entry per stage that was run."""
        self._chooser = chooser
        ctl = self.controller
        nst = int(self.exp.numStages())
        if max_stages is not None:
            nst = min(nst, max_stages)
        self.results = []
        while True:
            try:
                ctl.run()
                r = "ok"
            except StopSim:
                r = "stopped"
            except Exception as exc:  # noqa
                r = type(exc).__name__
                self.error = exc
            self.results.append(r)
            if r == "stopped":
                break
            stage = self.exp._stages[self.stage_no]
            go_on = (r == "ok") or (r in ("UnexpectedJobFailureError", "FinalStageNoFinishedLeafComponents")
                                    and bool(stage.continueOnError))
            if not go_on or self.stage_no + 1 >= nst:
                break
            self.stage_no += 1
            self.exp.incrementStage()
            ctl.initialise(self.exp._stages[self.stage_no], self.status)
            self._settle()
            self._record(["next"])
            self._notify(["next"])
            try:
                self._in_wait()          # inter-stage window: ends when the chooser says ["sched"]
            except StopSim:
                self.results.append("stopped")
                break
        self.result = self.results[-1]
        self._note_finals()
        return self.result

    def stage_states(self):
        out = []
        for i in range(int(self.exp.numStages())):
            try:
                st = self.controller._stageStates[i].state
                out.append(STATE_NAMES.get(st, str(st)))
            except Exception as exc:  # noqa
                out.append("error:" + type(exc).__name__)
        return out

    def ops(self):
        return [op for op, _ in self.trace]

    def close(self):
        env = self.env
        # let the suspended deliveries run to their end
        self._draining = True
        for r, w in list(getattr(self, "workers", {}).items()):
            for _ in range(5):
                if w.done:
                    break
                try:
                    w.resume()
                except HarnessError:
                    break
        self.workers = {}
        for pool in (self.ctrl_pool, self.task_pool):
            if pool.owner is self:
                pool.owner = None
            del pool.items[:]
        if env["STATE"]["REAL"] is self:
            env["STATE"]["REAL"] = None
        for lst, cb in ((env["RUN_HOOKS"], getattr(self, "_on_run", None)),
                        (env["FINISH_HOOKS"], getattr(self, "_on_finish", None))):
            try:
                lst.remove(cb)
            except ValueError:
                pass
        subjects = list(getattr(self, "_interval_subjects", [])) + [s for _, s in env["intervals"][self._n_int:]]
        for _, s in env["intervals"][self._n_int:]:
            env["interval_owner"].pop(id(s), None)
        del env["intervals"][self._n_int:]
        del env["ENGINES"][self._n_eng:]
        # complete the subjects so that nothing keeps references alive
        for s in subjects:
            try:
                s.on_completed()
            except Exception:
                pass


class scripted:
    """chooser that replays a recorded op list.

    Scheduler passes are not caused by the chooser but by the real loop (one before the loop of every run(),
    one per loop iteration): a ["sched"] entry of the list is consumed when a real `_schedule` call happens
    (`notify`), a ["next"] entry when the stage loop really moved on.  While the head of the list is ["sched"]
    (or ["next"]) wait() returns, so that the loop performs its next iteration (or ends); if the stage does not
    end where the list says ["next"], the simulation is stopped.  At the end of the list the loop is given one
    more iteration when `finish` (so that a completed stage returns from run()), then the simulation is
    stopped.  Entries ["skip", ...] (an op that was not enabled when it was recorded) are replayed as the op."""

    def __init__(self, ops, finish=True):
        self.ops = [list(o[1:]) if o and o[0] == "skip" else list(o) for o in ops]
        self.i = 0
        self.extra = bool(finish)
        self.asked_next = False

    def notify(self, sim, op):
        if self.i < len(self.ops) and self.ops[self.i][0] == op[0] and op[0] in ("sched", "next"):
            self.i += 1
            self.asked_next = False

    def __call__(self, sim):
        if self.i < len(self.ops):
            op = self.ops[self.i]
            if op[0] == "sched":
                return ["sched"]
            if op[0] == "next":
                if self.asked_next:
                    return None
                self.asked_next = True
                return ["sched"]
            self.i += 1
            return op
        if self.extra:
            self.extra = False
            return ["sched"]
        return None
