"""C16 — Memoization hashes identify equivalent work and nothing else.

Implementation under test (real code, in-process): real experiments built with
tests.utils.experiment_from_flowir; for every node the real
ComponentSpecification.memoization_hash / memoization_hash_fuzzy (graph.py 1270-1529), plus the real static
ComponentSpecification._memoization_info_to_hash on generated info dictionaries.

Model: lean/St4sd/Model/Hash.lean through drv-c16 (`md5` is a table the harness fills with hashlib digests).
Theorems: lean/St4sd/Props/C16.lean, witnesses lean/St4sd/Witness/C16.lean.

Cases are *pairs of experiments differing in exactly one aspect* (or one experiment with a twin component):
  hash-relevant   exe, args, input-content, produced-content (strong only), method, image, producer-exe (chain)
  hash-irrelevant location, name, producer-name, stage, mtime, order, file-name
  missing         a referenced input / produced file removed
  twin-same / twin-exe   a second component doing the same / different work inside the same experiment
  collision       executable/arguments pairs whose separator-less serialisations coincide (known finding)
Oracle (property text): relevant => hashes differ, irrelevant => equal and present, missing => no hash,
produced-content => fuzzy equal, producer change => fuzzy hash of every downstream component changes.

Multiplicity ("consume files with equal contents through equal methods" is a statement about the MULTISET of
(contents, method): two files are not one file): a target that consumes k different files with identical contents
through a method that keeps the reference out of the arguments (copy / link / extract / copyout; input, data and
produced files, replicas of a producer) against
  mult:more / mult:more-other-method   k+1 such files (same method / another method)            => different
  mult:rebalance                       [X, X, Y] against [X, Y, Y]                               => different
  mult:replicas                        an aggregating consumer of 2 against 3 replicas           => different
  mult:twin-more / twin-other-files    a twin in the same experiment with k+1 / with k OTHER such files => different / same
  mult:restated                        a reference stated twice (same string; relative + absolute spelling of a
                                       producer reference): one DataReference.absoluteReference, ONE consumption => same
  mult:respelled                       `data/./f` next to `data/f`: two reference strings; the code counts two
                                       consumptions, the property text does not decide: model comparison only
and, over ALL components observed in a run (any two experiments), for the nodes whose work can be stated without the
model (every reference is to a present file through a method that keeps it out of the arguments): same executable,
backend+image, arguments and multiset of (contents, method) => same strong hash (fuzzy: no produced file consumed);
a difference in executable, image, arguments or the multiset => different hashes (cross oracle).
Decision on "the same file referenced twice": the unit of consumption is the DataReference (its absoluteReference):
info_files is a dictionary keyed by it.  Model: Hash.hashesD = Hash.hashes on Comp.distinctRefs.

Histories (one experiment, one process): the files a graph consumes are modified on the disk — rewritten in place
or through os.replace with other bytes of the same / another length, with the old modification time restored
exactly, moved inside the same second, later, earlier; two files exchanged by renames; removed and re-created;
touched; a new Experiment object created over the same instance directory — and after every step every hash is
recomputed (memoization_reset on every node, evaluation order optionally shuffled).  Oracle: at any two moments of a
history a node has the same strong (fuzzy) hash if the files it depends on have the same contents (fuzzy: produced
files only need to exist) at both moments, and different hashes if the multiset of (contents, method) of the files
it consumes differs; no hash while a consumed file is missing; the fuzzy hash moves with the producers'.
Model: Hash.observeHistory (Model/HashFs.lean: the hash is a function of the current file system, the only state).

Chains of producers: a file is missing at ANY level of a chain (pairs: aspects missing-input / missing-produced walk up
the chain; histories: remove steps) => no strong (fuzzy) hash for every component whose hash stands on the hash of an
un-hashable producer (working directory named in the arguments; fuzzy: also every produced file), by closure along the
chain (`unhashable`).  Theorems: C16.no_hash_when_producer_has_no_hash, C16.no_hash_down_the_chain.

The source of the executable (section "where the executable comes from"): experiments whose executables are pathless
system tools, pathless tools shipped in the bin/ directory of the package and found through the PATH of the component
environment ($INSTANCE_DIR/bin: a directory INSIDE the instance), absolute paths through a link, paths relative to the
instance, executables that do not exist; Experiment.validateExperiment(checkExecutables=True) (what elaunch runs:
checkExecutable(updateSpecification=True) on every node rewrites the live configuration) before hashing / between the
steps of a history.  Oracle: hashes before == after validation (aspect validation, history step validate); the same
package validated at two places hashes the same (location); every replica of a replicated twin hashes like the
non-replicated component that does the same work (twin-replicated); the one-aspect pairs on validated experiments.
Model: Hash.Conf / Conf.validate / cstates (Model/HashExe.lean); theorems C16.hash_ignores_validation,
hash_ignores_relocation_of_validated_instance, same_work_same_hash_after_validation,
hash_history_ignores_validations; witness live_executable_depends_on_location_and_validation.

Sessions (the per-object cache + the code that reads hashes while files are written): see the section "sessions"
below.  Model: Hash.runS / Hash.disciplinedB (Model/HashCache.lean); theorems C16.session_hashes_are_current,
C16.session_reads_are_current, C16.hash_depends_only_on_producer_cone, witness early_request_freezes_stale_hash.
"""
from __future__ import annotations

import copy
import hashlib
import logging
import os
import shutil
import tempfile

KEYWORDS = ["arguments", "executable", "files", "command", "backend", "image"]
ARG_METHODS = ["ref", "output"]
NOARG_METHODS = ["copy", "link"]

_state = {}


def _imports():
    if "G" not in _state:
        # tests.utils imports experiment.runtime.*: the deterministic runtime (sessions with the real Controller) has
        # to be installed before that; it does not touch the model / hashing code
        from harness import detsim
        detsim.install()
        import experiment.model.graph as G
        import tests.utils as TU
        import yaml
        import networkx
        logging.disable(logging.CRITICAL)
        _state.update(G=G, TU=TU, yaml=yaml, nx=networkx)
    return _state["G"], _state["TU"], _state["yaml"], _state["nx"]


def md5s(s: str) -> str:
    return hashlib.md5(s.encode("utf-8")).hexdigest()


# ----------------------------------------------------------------------------------------
# world specification -> FlowIR
# ----------------------------------------------------------------------------------------
# spec = {"comps": [comp...], "order": [indices], "mtime": int, "loc": str}
# comp = {"name", "stage", "exe", "args": [part...], "refs": [ref...], "backend": {...}, "replicate": int|None,
#         "aggregate": bool, "out": {fname: content}}
# part = list of segments {"l": text} | {"r": ref index}; parts are joined by one blank
# ref  = {"kind": "input"|"data"|"comp", "file": str|None, "method": str, "prod": int, "abs": bool,
#         "content": str (for input/data), "missing": bool}

def ref_spelling(spec, r, other=False):
    """`dot`: the path is spelled `dir/./file` (another reference string to the same file); `other`: for a reference
    to a producer of the same stage the other one of the two spellings (relative / absolute)"""
    dot = "./" if r.get("dot") else ""
    if r["kind"] in ("input", "data"):
        base = r["kind"] + "/" + dot + r["file"]
    else:
        p = spec["comps"][r["prod"]]
        use_abs = bool(r.get("abs"))
        if other and r.get("same_stage"):
            use_abs = not use_abs
        base = ("stage%d." % p["stage"] if use_abs else "") + p["name"]
        if r.get("file"):
            base += "/" + dot + r["file"]
    return base + ":" + r["method"]


def reference_list(spec, c):
    """the `references` of the FlowIR document; `restate` = indices of references that are stated once more (the
    same string again, or the other spelling of a reference to a producer of the same stage)"""
    res = [ref_spelling(spec, c["refs"][k]) for k in (c.get("reforder") or range(len(c["refs"])))]
    for k in c.get("restate") or []:
        res.append(ref_spelling(spec, c["refs"][k], other=True))
    return res


def render_args(spec, comp):
    parts = []
    for part in comp["args"]:
        txt = ""
        for seg in part:
            txt += seg["l"] if "l" in seg else ref_spelling(spec, comp["refs"][seg["r"]])
        parts.append(txt)
    return " ".join(parts)


def backend_doc(b):
    k = b.get("kind", "local")
    if k == "local":
        return None
    if k == "kubernetes":
        return {"config": {"backend": "kubernetes"}, "kubernetes": {"image": b["image"]}}
    if k == "docker":
        return {"config": {"backend": "docker"}, "docker": {"image": b["image"]}}
    if k == "lsf":
        d = {"config": {"backend": "lsf"}, "lsf": {"queue": "normal"}}
        if b.get("image") is not None:
            d["lsf"]["dockerImage"] = b["image"]
        return d
    raise ValueError(k)


def flowir_of(spec):
    _G, _TU, yaml, _nx = _imports()
    comps = []
    for i in spec.get("order") or range(len(spec["comps"])):
        c = spec["comps"][i]
        d = {"name": c["name"], "stage": c["stage"],
             "command": {"executable": c["exe"], "arguments": render_args(spec, c)},
             "references": reference_list(spec, c)}
        wa = {}
        if c.get("replicate"):
            wa["replicate"] = c["replicate"]
        if c.get("aggregate"):
            wa["aggregate"] = True
        if wa:
            d["workflowAttributes"] = wa
        rm = backend_doc(c.get("backend") or {})
        if rm:
            d["resourceManager"] = rm
        if c.get("env"):
            d["command"]["environment"] = "tools"
        comps.append(d)
    doc = {"components": comps}
    if any(c.get("env") for c in spec["comps"]):
        # the PATH of the component environment names a directory INSIDE the instance (what the CWL front-end writes)
        doc["environments"] = {"default": {"tools": {"PATH": spec.get("path") or "$INSTANCE_DIR/bin:$PATH"}}}
    return yaml.safe_dump(doc)


def comp_of_node(spec, stage, name):
    """index of the blueprint component of a node (exact name first, then `<name><digits>` of a replicated one)"""
    for i, c in enumerate(spec["comps"]):
        if c["stage"] == stage and c["name"] == name:
            return i, None
    best = None
    for i, c in enumerate(spec["comps"]):
        if c["stage"] == stage and name.startswith(c["name"]) and name[len(c["name"]):].isdigit():
            if best is None or len(c["name"]) > len(spec["comps"][best]["name"]):
                best = i
    if best is None:
        raise KeyError(name)
    return best, int(name[len(spec["comps"][best]["name"]):])


class World:
    """One real experiment built from a specification; stays alive so that its files can be modified and its
    hashes observed repeatedly (histories)."""

    def __init__(self, spec, tmp):
        G, TU, _yaml, nx = _imports()
        self.spec = spec
        root = os.path.join(tmp, spec.get("loc") or "w")
        os.makedirs(root, exist_ok=True)
        inputs = {}
        data = {}
        for c in spec["comps"]:
            for r in c["refs"]:
                if r["kind"] == "input":
                    inputs[r["file"]] = r["content"]
                elif r["kind"] == "data":
                    data["data/" + r["file"]] = r["content"]
        indir = os.path.join(root, "in-%d" % len(os.listdir(root)))
        os.makedirs(indir)
        paths = []
        for fn, content in sorted(inputs.items()):
            p = os.path.join(indir, fn)
            with open(p, "w") as fh:
                fh.write(content)
            paths.append(p)
        for fn, script in (spec.get("tools") or {}).items():
            data["bin/" + fn] = script        # executables shipped with the package
        cwd = os.getcwd()
        try:
            exp = TU.experiment_from_flowir(flowir_of(spec), root, extra_files=data, inputs=paths or None,
                                            checkExecutables=False)
        finally:
            os.chdir(cwd)
        self.inst = exp.instanceDirectory.location
        for fn in spec.get("tools") or {}:
            os.chmod(os.path.join(self.inst, "bin", fn), 0o755)
        self._adopt(exp)
        self.validated = 0
        if spec.get("validate"):
            self.validate()
        g, order, graph = self.g, self.order, self.graph
        # produced files
        for n in order:
            node = g.nodes[n]
            cid = node["componentSpecification"].identification
            ci, _rep = comp_of_node(spec, cid.stageIndex, cid.componentName)
            wd = node["componentInstance"].directory
            for fn, content in (spec["comps"][ci].get("out") or {}).items():
                if content is None:
                    continue
                with open(os.path.join(wd, fn), "w") as fh:
                    fh.write(content)
        # removed inputs
        for n in order:
            cs = g.nodes[n]["componentSpecification"]
            ci, _rep = comp_of_node(spec, cs.identification.stageIndex, cs.identification.componentName)
            for r in spec["comps"][ci]["refs"]:
                if r.get("missing") and r["kind"] in ("input", "data"):
                    for d in cs.dataReferences:
                        if d.absoluteReference == ref_spelling(spec, r) or d.relativeReference == ref_spelling(spec, r):
                            loc = d.location(graph)
                            if os.path.isfile(loc):
                                os.remove(loc)
        if spec.get("mtime"):
            for dp, _dn, fns in os.walk(self.inst):
                for fn in fns:
                    try:
                        os.utime(os.path.join(dp, fn), (spec["mtime"], spec["mtime"]))
                    except OSError:
                        pass

    @classmethod
    def over(cls, spec, exp):
        """a World over an experiment object that exists already (nothing is written)"""
        w = cls.__new__(cls)
        w.spec = spec
        w.inst = exp.instanceDirectory.location
        w.validated = 0
        w._adopt(exp)
        return w

    def validate(self):
        """what elaunch does before anything runs: Experiment.validateExperiment(checkExecutables=True), i.e.
        ComponentSpecification.checkExecutable(updateSpecification=True) on every node: executables are looked up
        (PATH of the component environment, links resolved) and the result is written into the live configuration.
        Executables that cannot be found are left alone (ignoreTestExecutablesError)."""
        cwd = os.getcwd()
        try:
            self.exp.validateExperiment(checkExecutables=True, ignoreTestExecutablesError=True)
        finally:
            os.chdir(cwd)
        self.validated = getattr(self, "validated", 0) + 1

    def _adopt(self, exp):
        _G, _TU, _yaml, nx = _imports()
        self.exp = exp
        self.graph = exp.experimentGraph
        self.g = self.graph.graph
        self.order = list(nx.lexicographical_topological_sort(self.g))
        self.index = {n: i for i, n in enumerate(self.order)}

    def reload(self):
        """a new Experiment object (new graph, new ComponentSpecification objects) over the same instance directory"""
        import experiment.model.data as D
        cwd = os.getcwd()
        try:
            exp = D.Experiment.experimentFromInstance(self.inst)
            exp.validateExperiment(checkExecutables=False)
        finally:
            os.chdir(cwd)
        self._adopt(exp)

    def sym(self, path):
        """instance directory -> $I"""
        path = os.path.normpath(path)
        inst = os.path.normpath(self.inst)
        if path == inst or path.startswith(inst + os.sep):
            return "$I" + path[len(inst):]
        return path

    def paths_of(self, fid):
        """file id of the specification -> real paths (one per replica of the producer for produced files)"""
        if fid[0] in ("input", "data"):
            return [os.path.join(self.inst, fid[0], fid[1])]
        res = []
        for n in self.order:
            node = self.g.nodes[n]
            cid = node["componentSpecification"].identification
            ci, _rep = comp_of_node(self.spec, cid.stageIndex, cid.componentName)
            if ci == fid[1]:
                res.append(os.path.join(node["componentInstance"].directory, fid[2]))
        return res

    def observe(self, order_seed=None, symbolic=False):
        """resets every cached hash and recomputes strong + fuzzy hashes of every node from what is on the disk now"""
        spec, g, order, graph, index = self.spec, self.g, self.order, self.graph, self.index
        for n in order:
            g.nodes[n]["componentSpecification"].memoization_reset()
        evals = [(n, which) for n in order for which in ("strong", "fuzzy")]
        if order_seed is not None:
            import random
            random.Random(order_seed).shuffle(evals)
        got = {}
        for n, which in evals:
            cs = g.nodes[n]["componentSpecification"]
            got[(n, which)] = cs.memoization_hash if which == "strong" else cs.memoization_hash_fuzzy
        nodes = []
        mcomps = []
        scomps = []
        infos = {}
        contents = set()
        fs = {}
        live = []
        for n in order:
            cs = g.nodes[n]["componentSpecification"]
            cid = cs.identification
            ci, rep = comp_of_node(spec, cid.stageIndex, cid.componentName)
            sc = spec["comps"][ci]
            key = "%d" % ci if rep is None else "%d.%d" % (ci, rep)
            nodes.append({"key": key, "id": n, "strong": got[(n, "strong")], "fuzzy": got[(n, "fuzzy")]})
            infos[key] = cs.memoization_info
            refs = []
            srefs = []
            for d in cs.dataReferences:
                pid = d.producerIdentifier.identifier
                loc = d.location(graph)
                content = None
                if os.path.isfile(loc):
                    with open(loc) as fh:
                        content = fh.read()
                    contents.add(content)
                t = {"abs": d.absoluteReference, "rel": d.relativeReference, "method": d.method,
                     "fileRef": d.fileRef or ""}
                st = dict(t)
                if pid in g.nodes:
                    st["loc"] = {"kind": "produced", "p": index[pid], "path": self.sym(loc)}
                    if os.path.isdir(loc) or (d.fileRef is None and d.method != "output"):
                        t.update(kind="prodDir", p=index[pid])
                    else:
                        t.update(kind="prodFile", p=index[pid], content=content)
                else:
                    st["loc"] = {"kind": "direct", "path": self.sym(loc)}
                    if os.path.isdir(loc):
                        t.update(kind="dir")
                    else:
                        t.update(kind="file", content=content)
                refs.append(t)
                srefs.append(st)
                if symbolic:
                    fs[self.sym(loc)] = fs_node(loc)
            replica = cs.customAttributes.get("replica")
            live.append([cid.stageIndex, cid.componentName, cs.commandDetails.get("executable", "")])
            b = dict(sc.get("backend") or {"kind": "local"})
            common = {"name": cid.componentName, "stage": cid.stageIndex, "location": "$I",
                      "mtime": int(spec.get("mtime") or 0),
                      "replica": int(replica) if replica is not None else None, "exe": sc["exe"],
                      "args": cs.commandDetails.get("arguments", ""),
                      "backend": {"kind": b.get("kind", "local"), "image": b.get("image")}}
            mcomps.append(dict(common, refs=refs))
            scomps.append(dict(common, refs=srefs))
        bps = [[c["stage"], c["name"], c["exe"]] for c in spec["comps"]]
        # `bps`: the executables as the author wrote them; `live`: what the live configuration holds at this moment
        # (rewritten by validate()); the model (Hash.hashesC) is given both
        model = {"op": "world", "bps": bps, "live": live, "comps": mcomps,
                 "md5": sorted([c, md5s(c)] for c in contents)}
        return {"nodes": nodes, "model": model, "infos": infos, "scomps": scomps, "bps": bps, "fs": fs,
                "contents": contents, "live": live}

    def close(self):
        shutil.rmtree(self.inst, ignore_errors=True)


def fs_node(path):
    """what is at a path, for the file-system model (None = nothing)"""
    if os.path.isdir(path):
        return {"kind": "dir"}
    if os.path.isfile(path):
        st = os.stat(path)
        with open(path) as fh:
            return {"kind": "file", "content": fh.read(), "mtime": st.st_mtime_ns, "ino": st.st_ino}
    return None


def build_and_observe(spec, tmp):
    """Builds the real experiment, writes the produced files, returns the observation:
    {"nodes": [{"key", "id", "strong", "fuzzy"}...] (topological order), "model": request for drv-c16, "infos": …}"""
    w = World(spec, tmp)
    try:
        return w.observe()
    finally:
        w.close()


def model_worlds(ctx, requests):
    """fixed point of the md5 table: ask, add the digests of the returned serialisations, ask again"""
    if ctx.driver is None or not requests:
        return None
    tables = [dict((p, d) for p, d in r["md5"]) for r in requests]
    answers = [None] * len(requests)
    todo = list(range(len(requests)))
    for _round in range(12):
        if not todo:
            break
        reqs = []
        for i in todo:
            r = dict(requests[i])
            r["md5"] = sorted([p, d] for p, d in tables[i].items())
            reqs.append(r)
        outs = ctx.model(reqs)
        nxt = []
        for i, o in zip(todo, outs):
            answers[i] = o
            changed = False
            for ob in (o["obs"] if "obs" in o else [o]):
                for side in ("strong", "fuzzy"):
                    for e in ob[side]:
                        if e is not None and e["ser"] not in tables[i]:
                            tables[i][e["ser"]] = md5s(e["ser"])
                            changed = True
            if changed:
                nxt.append(i)
        todo = nxt
    return answers


# ----------------------------------------------------------------------------------------
# generators
# ----------------------------------------------------------------------------------------

NAMES = ["calc", "calc2", "step7", "gen", "prep", "a1", "sim", "sim3", "merge", "x", "calc21", "post9", "run0"]
EXES = ["/bin/ls", "/bin/cat", "/bin/echo", "python", "bin/tool.sh", "sander", "exe2"]
WORDS = ["-l", "--flag", "run", "42", "a.b", "x_y", "input", "data", "file", "ref", "-n", "7", "out.txt",
         "hello", "stage0", "copy"]
PREFIXES = ["", "", "", "x=", "--in=", ",", "@", "(", "a,b="]
SUFFIXES = ["", "", "", ",", ")", ";", " "]
IMAGES = ["foo/bar:1", "foo/bar:2", "registry.io/img@sha256", "ubuntu"]
FILES = ["a.txt", "b.dat", "conf.json", "x", "out.txt", "r.csv", "d1", "in_put.txt"]
CONTENTS = ["AAA", "BBB", "", "hello\nworld\n", "1 2 3", "executable", "x" * 70, "files"]


def gen_world(rng, allow_repl=True):
    n = rng.randint(1, 5)
    names = rng.sample(NAMES, n)
    stages = sorted(rng.choice([0, 0, 1]) for _ in range(n))
    if stages[0] != 0:
        stages = [s - stages[0] for s in stages]
    comps = []
    used_inputs = {}
    used_data = {}
    repl = None
    for i in range(n):
        c = {"name": names[i], "stage": stages[i], "exe": rng.choice(EXES), "refs": [], "args": [], "out": {},
             "backend": {"kind": "local"}, "replicate": None, "aggregate": False}
        bk = rng.random()
        if bk < 0.12:
            c["backend"] = {"kind": "kubernetes", "image": rng.choice(IMAGES)}
        elif bk < 0.24:
            c["backend"] = {"kind": "docker", "image": rng.choice(IMAGES)}
        elif bk < 0.32:
            c["backend"] = {"kind": "lsf", "image": rng.choice(IMAGES + [None])}
        nref = rng.choice([0, 1, 1, 2, 2, 3])
        seen = set()
        for _ in range(nref):
            kinds = ["input", "data"] + (["comp", "comp", "comp"] if i > 0 else [])
            k = rng.choice(kinds)
            r = {"kind": k, "file": None, "method": "ref", "prod": None, "abs": False, "content": None,
                 "missing": False}
            if k in ("input", "data"):
                pool = used_inputs if k == "input" else used_data
                fn = rng.choice(FILES)
                if fn not in pool:
                    pool[fn] = rng.choice(CONTENTS)
                r["file"] = fn
                r["content"] = pool[fn]
                r["method"] = rng.choice(["ref", "ref", "output", "copy", "link"])
            else:
                # prefer the previous component: producer chains
                j = i - 1 if rng.random() < 0.6 else rng.randrange(i)
                r["prod"] = j
                r["abs"] = (stages[j] != stages[i]) or rng.random() < 0.4
                shape = rng.choice(["file", "file", "dir", "stdout"])
                if shape == "file":
                    fn = rng.choice(FILES)
                    r["file"] = fn
                    r["method"] = rng.choice(["ref", "ref", "output", "copy", "link"])
                    comps[j]["out"].setdefault(fn, rng.choice([c_ for c_ in CONTENTS]))
                elif shape == "dir":
                    r["method"] = rng.choice(["ref", "ref", "copy"])
                else:
                    r["method"] = "output"
                    comps[j]["out"].setdefault("out.stdout", rng.choice(CONTENTS))
            sp = (r["kind"], r["file"], r["prod"], r["method"])
            if sp in seen:
                continue
            seen.add(sp)
            c["refs"].append(r)
        # arguments: literals and every ref/output reference at least once
        parts = [[{"l": rng.choice(WORDS)}] for _ in range(rng.randint(0, 3))]
        for k, r in enumerate(c["refs"]):
            if r["method"] in ARG_METHODS:
                for _ in range(rng.choice([1, 1, 2])):
                    part = []
                    pre = rng.choice(PREFIXES)
                    if pre:
                        part.append({"l": pre})
                    part.append({"r": k})
                    suf = rng.choice(SUFFIXES).strip()
                    if suf:
                        part.append({"l": suf})
                    parts.insert(rng.randint(0, len(parts)), part)
        c["args"] = parts
        comps.append(c)
    # optional replication of one component whose consumers aggregate
    if allow_repl and n >= 2 and rng.random() < 0.25:
        k = rng.randrange(n)
        ok = all(r["kind"] != "comp" for r in comps[k]["refs"])  # keep it simple: a source component
        if ok:
            comps[k]["replicate"] = 2
            for c in comps:
                if any(r["kind"] == "comp" and r["prod"] == k for r in c["refs"]):
                    c["aggregate"] = True
    return {"comps": comps, "order": None, "mtime": None, "loc": "w"}


def downstream(spec, i):
    res = set()
    changed = True
    while changed:
        changed = False
        for k, c in enumerate(spec["comps"]):
            if k in res or k == i:
                continue
            if any(r["kind"] == "comp" and (r["prod"] == i or r["prod"] in res) for r in c["refs"]):
                res.add(k)
                changed = True
    return res


def in_arguments(c, k):
    return any(seg.get("r") == k for part in c["args"] for seg in part)


def carries(c, k, side):
    """Does the hash of the producer enter the hash of consumer `c` through its k-th reference?  Property text: every
    reference (of the arguments) is replaced by the hash of the content it refers to - for the working directory of a
    producer that content is identified by the producer's hash; the fuzzy hash stands on the producer's fuzzy hash for
    every produced file it consumes.  (A producer directory that is only staged in by :copy / :link contributes
    nothing: known finding C16-producer-directory-not-hashed, not asserted here.)"""
    r = c["refs"][k]
    if r["kind"] != "comp":
        return False
    if r["file"] is None and r["method"] != "output":
        return r["method"] in ARG_METHODS and in_arguments(c, k)
    return side == "fuzzy"


def direct_missing(spec):
    """components that consume a file that is not there"""
    gone = {(r["kind"], r["file"]) for c in spec["comps"] for r in c["refs"]
            if r["kind"] in ("input", "data") and r.get("missing")}
    res = set()
    for ci, c in enumerate(spec["comps"]):
        for r in c["refs"]:
            if r["kind"] in ("input", "data"):
                if (r["kind"], r["file"]) in gone:
                    res.add(ci)
            elif r["file"] or r["method"] == "output":
                if (spec["comps"][r["prod"]].get("out") or {}).get(r["file"] or "out.stdout") is None:
                    res.add(ci)
    return res


def unhashable(spec, direct, side):
    """components that cannot have a `side` hash: a file they consume is missing, or - along any chain of producers -
    the hash of a producer that their own hash stands on cannot exist"""
    res = set(direct)
    changed = True
    while changed:
        changed = False
        for ci, c in enumerate(spec["comps"]):
            if ci not in res and any(r["kind"] == "comp" and r["prod"] in res and carries(c, k, side)
                                     for k, r in enumerate(c["refs"])):
                res.add(ci)
                changed = True
    return res


def fresh_name(rng, spec, stem_ok=True):
    used = {c["name"] for c in spec["comps"]}
    cands = [nm for nm in NAMES + ["work", "work3", "calc7", "zz10"] if nm not in used]
    # names that are `<other component><digits>` are the interesting ones
    for c in spec["comps"]:
        for d in ("2", "7", "10"):
            if c["name"] + d not in used:
                cands.append(c["name"] + d)
    ok = []
    for nm in cands:
        # avoid a name that reads as a replica of a replicated component (ambiguous node names)
        if any(c.get("replicate") and nm.startswith(c["name"]) and nm[len(c["name"]):].isdigit() for c in spec["comps"]):
            continue
        if any(c.get("replicate") and c["name"].startswith(nm) for c in spec["comps"]):
            continue
        ok.append(nm)
    return rng.choice(ok)


RELEVANT = ["exe", "args", "input-content", "produced-content", "method", "image", "producer-exe"]
IRRELEVANT = ["location", "name", "producer-name", "stage", "mtime", "order", "file-name"]
OTHER = ["missing-input", "missing-produced", "twin-same", "twin-exe"]


def make_variant(rng, base, aspect, t):
    """returns (variant spec, expectation dict) or None when the aspect does not apply to target t"""
    v = copy.deepcopy(base)
    c = v["comps"][t]
    exp = {"aspect": aspect, "target": t}
    if aspect == "exe":
        c["exe"] = rng.choice([e for e in EXES if e != c["exe"]])
    elif aspect == "args":
        lits = [(pi, si) for pi, p in enumerate(c["args"]) for si, s in enumerate(p) if "l" in s and len(p) == 1]
        if lits and rng.random() < 0.7:
            pi, si = rng.choice(lits)
            c["args"][pi][si]["l"] = c["args"][pi][si]["l"] + rng.choice(["x", "1", "-q"])
        else:
            c["args"].append([{"l": rng.choice(WORDS)}])
    elif aspect == "input-content":
        cands = [r for r in c["refs"] if r["kind"] in ("input", "data")]
        if not cands:
            return None
        r = rng.choice(cands)
        new = r["content"] + rng.choice(["!", "\n", "Z"])
        for cc in v["comps"]:
            for rr in cc["refs"]:
                if rr["kind"] == r["kind"] and rr["file"] == r["file"]:
                    rr["content"] = new
        exp["also"] = [k for k, cc in enumerate(v["comps"]) if k != t and any(
            rr["kind"] == r["kind"] and rr["file"] == r["file"] for rr in cc["refs"])]
    elif aspect == "produced-content":
        cands = [r for r in c["refs"] if r["kind"] == "comp" and (r["file"] or r["method"] == "output")]
        if not cands:
            return None
        r = rng.choice(cands)
        fn = r["file"] or "out.stdout"
        v["comps"][r["prod"]]["out"][fn] = (v["comps"][r["prod"]]["out"].get(fn) or "") + "#changed"
    elif aspect == "method":
        cands = [k for k, r in enumerate(c["refs"]) if r["method"] in ("copy", "link") and (r["file"] or r["kind"] != "comp")]
        cands2 = [k for k, r in enumerate(c["refs"]) if r["method"] in ("ref", "output") and r["file"]]
        pick = None
        for k in rng.sample(cands + cands2, len(cands + cands2)):
            r = c["refs"][k]
            new = {"copy": "link", "link": "copy", "ref": "output", "output": "ref"}[r["method"]]
            if not any(o is not r and (o["kind"], o["file"], o["prod"], o["method"]) == (r["kind"], r["file"], r["prod"], new)
                       for o in c["refs"]):
                pick = (r, new)
                break
        if pick is None:
            return None
        pick[0]["method"] = pick[1]
    elif aspect == "image":
        b = c["backend"]
        if b.get("kind") in ("kubernetes", "docker", "lsf"):
            b["image"] = rng.choice([im for im in IMAGES if im != b.get("image")])
        else:
            kind = rng.choice(["kubernetes", "docker", "lsf"])
            c["backend"] = {"kind": kind, "image": rng.choice(IMAGES)}
    elif aspect == "producer-exe":
        prods = [r["prod"] for r in c["refs"] if r["kind"] == "comp"]
        if not prods:
            return None
        # walk up the chain to a root producer: the change must propagate through every level
        p = rng.choice(prods)
        for _ in range(rng.randint(0, 3)):
            up = [r["prod"] for r in v["comps"][p]["refs"] if r["kind"] == "comp"]
            if not up:
                break
            p = rng.choice(up)
        v["comps"][p]["exe"] = rng.choice([e for e in EXES if e != v["comps"][p]["exe"]])
        exp["changed"] = p
    elif aspect == "location":
        v["loc"] = "elsewhere/deeper/%d" % rng.randint(0, 9)
    elif aspect == "name":
        c["name"] = fresh_name(rng, v)
    elif aspect == "producer-name":
        prods = [r["prod"] for r in c["refs"] if r["kind"] == "comp"]
        if not prods:
            return None
        p = rng.choice(prods)
        if v["comps"][p].get("replicate"):
            return None
        v["comps"][p]["name"] = fresh_name(rng, v)
    elif aspect == "stage":
        for cc in v["comps"]:
            cc["stage"] += 1
        v["comps"].append({"name": "pad", "stage": 0, "exe": "/bin/true", "refs": [], "args": [], "out": {},
                           "backend": {"kind": "local"}, "replicate": None, "aggregate": False})
    elif aspect == "mtime":
        v["mtime"] = 1000000000 + rng.randint(0, 10 ** 8)
    elif aspect == "order":
        order = list(range(len(v["comps"])))
        rng.shuffle(order)
        v["order"] = order
        for cc in v["comps"]:
            ro = list(range(len(cc["refs"])))
            rng.shuffle(ro)
            cc["reforder"] = ro
    elif aspect == "file-name":
        cands = [r for r in c["refs"] if r["kind"] in ("input", "data")]
        if not cands:
            return None
        r = rng.choice(cands)
        old = r["file"]
        new = rng.choice(["renamed.bin", "zz_" + old, "q"])
        if any(rr["kind"] == r["kind"] and rr["file"] == new for cc in v["comps"] for rr in cc["refs"]):
            return None
        kind = r["kind"]
        for cc in v["comps"]:
            for rr in cc["refs"]:
                if rr["kind"] == kind and rr["file"] == old:
                    rr["file"] = new
    elif aspect in ("missing-input", "missing-produced"):
        # the file that is missing is consumed by the target or by a producer somewhere up the chain ("no hash is
        # produced while a referenced input is missing ... every chain of producers")
        def cands_of(ci):
            cc = v["comps"][ci]
            if aspect == "missing-input":
                return [r for r in cc["refs"] if r["kind"] in ("input", "data")]
            return [r for r in cc["refs"] if r["kind"] == "comp" and (r["file"] or r["method"] == "output")]
        cone = [t]
        frontier = [t]
        for _ in range(4):
            frontier = sorted({r["prod"] for ci in frontier for r in v["comps"][ci]["refs"] if r["kind"] == "comp"})
            cone += [ci for ci in frontier if ci not in cone]
        where = [ci for ci in cone if cands_of(ci)]
        if not where:
            return None
        m = t if (t in where and rng.random() < 0.4) else rng.choice(where)
        r = rng.choice(cands_of(m))
        if aspect == "missing-input":
            r["missing"] = True
        else:
            v["comps"][r["prod"]]["out"][r["file"] or "out.stdout"] = None
        exp["missing_at"] = m
    elif aspect in ("twin-same", "twin-exe"):
        if c.get("replicate") or c.get("aggregate"):
            return None
        tw = copy.deepcopy(c)
        tw["name"] = fresh_name(rng, v)
        if aspect == "twin-exe":
            tw["exe"] = rng.choice([e for e in EXES if e != c["exe"]])
        v["comps"].append(tw)
        exp["twin"] = len(v["comps"]) - 1
    elif aspect == "twin-replicated":
        # the same work done by a replicated component: every replica runs the executable, the arguments and the
        # files of the target
        if c.get("replicate") or c.get("aggregate"):
            return None
        if any(r["kind"] == "comp" and (v["comps"][r["prod"]].get("replicate") or v["comps"][r["prod"]].get("aggregate"))
               for r in c["refs"]):
            return None
        used = [cc["name"] for cc in v["comps"]]
        cands = [nm for nm in ["many", "fan", "rep", "work", "sweep"] + [nm for nm in NAMES if not nm[-1].isdigit()]
                 if not any(u.startswith(nm) or nm.startswith(u) for u in used)]
        if not cands:
            return None
        tw = copy.deepcopy(c)
        tw["name"] = rng.choice(cands)
        tw["replicate"] = rng.choice([2, 2, 3])
        v["comps"].append(tw)
        exp["twin"] = len(v["comps"]) - 1
    elif aspect == "validation":
        # the same experiment, hashed after Experiment.validateExperiment(checkExecutables=True) (what elaunch does)
        v["validate"] = not base.get("validate")
    elif aspect == "content-swap":
        # two files that the arguments of the target name (at different places) exchange their contents: the files
        # that are consumed are the same multiset, the arguments "after each reference has been replaced by the hash
        # of the content it refers to" are not
        def fid(r):
            if r["kind"] in ("input", "data"):
                return (r["kind"], r["file"])
            if r["file"] or r["method"] == "output":
                return ("comp", r["prod"], r["file"] or "out.stdout")
            return None

        def get(f):
            if f[0] == "comp":
                return (v["comps"][f[1]].get("out") or {}).get(f[2])
            return next(rr["content"] for cc in v["comps"] for rr in cc["refs"] if (rr["kind"], rr["file"]) == f)

        def put(f, content):
            if f[0] == "comp":
                v["comps"][f[1]]["out"][f[2]] = content
            else:
                for cc in v["comps"]:
                    for rr in cc["refs"]:
                        if (rr["kind"], rr["file"]) == f:
                            rr["content"] = content
        named = sorted({fid(r) for k, r in enumerate(c["refs"]) if r["method"] in ARG_METHODS and in_arguments(c, k)
                        and fid(r) is not None and not r.get("missing")})
        named = [f for f in named if get(f) is not None]
        cands = [(f1, f2) for i1, f1 in enumerate(named) for f2 in named[i1 + 1:] if get(f1) != get(f2)]
        if not cands:
            return None
        f1, f2 = rng.choice(cands)
        c1, c2 = get(f1), get(f2)
        put(f1, c2)
        put(f2, c1)
        exp["swapped"] = [list(f1), list(f2)]
        exp["direct"] = sum(1 for f in (f1, f2) if f[0] != "comp")
    else:
        raise ValueError(aspect)
    return v, exp


# ----------------------------------------------------------------------------------------
# oracle
# ----------------------------------------------------------------------------------------

def by_key(obs):
    return {n["key"]: n for n in obs["nodes"]}


def keys_of(obs, ci):
    return [n["key"] for n in obs["nodes"] if n["key"].split(".")[0] == str(ci)]


def oracle_pair(ctx, case, base_obs, var_obs, exp, base):
    """Model-independent restatement of the property on the real hashes of a pair."""
    aspect = exp["aspect"]
    t = exp["target"]
    B = by_key(base_obs)
    V = by_key(var_obs)
    detail = {"aspect": aspect, "base": base_obs["nodes"], "variant": var_obs["nodes"]}

    def fail(what):
        ctx.fail(what, case, detail)

    # the base world is complete: every component must have both hashes
    for n in base_obs["nodes"]:
        if n["strong"] is None or n["fuzzy"] is None:
            fail("no-hash-although-every-input-is-present")
            return
    tkeys = keys_of(base_obs, t)
    if aspect in ("exe", "args", "input-content", "method", "image"):
        for k in tkeys:
            if V[k]["strong"] is None or V[k]["fuzzy"] is None:
                fail("no-hash-although-every-input-is-present")
            elif V[k]["strong"] == B[k]["strong"]:
                fail("different-work-same-strong-hash:" + aspect)
            elif V[k]["fuzzy"] == B[k]["fuzzy"]:
                fail("different-work-same-fuzzy-hash:" + aspect)
        unaffected = set(range(len(base["comps"]))) - {t} - downstream(base, t) - set(exp.get("also", []))
        for a in exp.get("also", []):
            unaffected -= downstream(base, a)
        for ci in unaffected:
            for k in keys_of(base_obs, ci):
                if (V[k]["strong"], V[k]["fuzzy"]) != (B[k]["strong"], B[k]["fuzzy"]):
                    fail("hash-of-unrelated-component-changed:" + aspect)
    elif aspect == "produced-content":
        for k in tkeys:
            if V[k]["strong"] is None or V[k]["fuzzy"] is None:
                fail("no-hash-although-every-input-is-present")
            elif V[k]["strong"] == B[k]["strong"]:
                fail("different-work-same-strong-hash:" + aspect)
            elif V[k]["fuzzy"] != B[k]["fuzzy"]:
                fail("fuzzy-hash-depends-on-produced-contents")
    elif aspect == "content-swap":
        for k in tkeys:
            if V[k]["strong"] is None or V[k]["fuzzy"] is None:
                fail("no-hash-although-every-input-is-present")
            elif V[k]["strong"] == B[k]["strong"]:
                fail("different-work-same-strong-hash:" + aspect)
            elif exp.get("direct") and V[k]["fuzzy"] == B[k]["fuzzy"]:
                fail("different-work-same-fuzzy-hash:" + aspect)
            elif not exp.get("direct") and V[k]["fuzzy"] != B[k]["fuzzy"]:
                fail("fuzzy-hash-depends-on-produced-contents")
    elif aspect == "producer-exe":
        p = exp["changed"]
        for k in keys_of(base_obs, p):
            if V[k]["fuzzy"] is None or V[k]["strong"] is None:
                fail("no-hash-although-every-input-is-present")
            elif V[k]["fuzzy"] == B[k]["fuzzy"]:
                fail("different-work-same-fuzzy-hash:exe")
        # literally: the fuzzy hash of a component changes when the fuzzy hash of one of its producers changes
        for ci, c in enumerate(base["comps"]):
            moved = []
            for r in c["refs"]:
                if r["kind"] == "comp" and any(V[k]["fuzzy"] != B[k]["fuzzy"] for k in keys_of(base_obs, r["prod"])):
                    moved.append(r)
            if not moved:
                continue
            for k in keys_of(base_obs, ci):
                if V[k]["fuzzy"] is None:
                    fail("no-hash-although-every-input-is-present")
                elif V[k]["fuzzy"] == B[k]["fuzzy"]:
                    ctx.fail("fuzzy-hash-does-not-track-producer", case,
                             dict(detail, consumer=ci, refs_to_changed_producers=[
                                 {"file": r["file"], "method": r["method"], "prod": r["prod"]} for r in moved]))
    elif aspect in ("mult:more", "mult:more-other-method", "mult:rebalance", "mult:replicas"):
        # the target consumes another multiset of (contents, method): one more file (with the contents and the method
        # of a file it consumes already, or another method), more replicas of a producer, or [X, X, Y] -> [X, Y, Y]
        for k in tkeys:
            if V[k]["strong"] is None or V[k]["fuzzy"] is None:
                fail("no-hash-although-every-input-is-present")
            elif V[k]["strong"] == B[k]["strong"]:
                fail("different-work-same-strong-hash:" + aspect)
            elif exp.get("source") == "direct" and V[k]["fuzzy"] == B[k]["fuzzy"]:
                fail("different-work-same-fuzzy-hash:" + aspect)
            elif exp.get("source") == "produced" and aspect == "mult:rebalance" and V[k]["fuzzy"] != B[k]["fuzzy"]:
                fail("fuzzy-hash-depends-on-produced-contents")
        unaffected = set(range(len(base["comps"]))) - {t} - downstream(base, t)
        for ci in unaffected:
            for k in keys_of(base_obs, ci):
                if k in V and (V[k]["strong"], V[k]["fuzzy"]) != (B[k]["strong"], B[k]["fuzzy"]):
                    fail("hash-of-unrelated-component-changed:" + aspect)
    elif aspect in ("mult:twin-more", "mult:twin-other-files"):
        tw = keys_of(var_obs, exp["twin"])[0]
        k = tkeys[0]
        if V[tw]["strong"] is None or V[tw]["fuzzy"] is None or V[k]["strong"] is None or V[k]["fuzzy"] is None:
            fail("no-hash-although-every-input-is-present")
        elif aspect == "mult:twin-more":
            if V[tw]["strong"] == V[k]["strong"]:
                fail("different-work-same-strong-hash:" + aspect)
            elif exp.get("source") == "direct" and V[tw]["fuzzy"] == V[k]["fuzzy"]:
                fail("different-work-same-fuzzy-hash:" + aspect)
        else:
            if V[tw]["strong"] != V[k]["strong"]:
                fail("same-work-different-hash")
            elif exp.get("source") == "direct" and V[tw]["fuzzy"] != V[k]["fuzzy"]:
                fail("same-work-different-hash")
    elif aspect == "mult:respelled":
        # `data/./f` next to `data/f`: two reference strings, the code counts two consumptions; the property text does
        # not say whether that is the same work: only the model is compared, and a hash must exist
        for k in tkeys:
            if V[k]["strong"] is None or V[k]["fuzzy"] is None:
                fail("no-hash-although-every-input-is-present")
    elif aspect == "twin-replicated":
        k = tkeys[0]
        for tw in keys_of(var_obs, exp["twin"]):
            if V[tw]["strong"] is None or V[tw]["fuzzy"] is None or V[k]["strong"] is None or V[k]["fuzzy"] is None:
                fail("no-hash-although-every-input-is-present")
            elif (V[tw]["strong"], V[tw]["fuzzy"]) != (V[k]["strong"], V[k]["fuzzy"]):
                fail("same-work-different-hash:replica")
    elif aspect in IRRELEVANT or aspect in ("mult:restated", "validation"):
        for n in base_obs["nodes"]:
            k = n["key"]
            if k not in V:
                continue
            if V[k]["strong"] is None or V[k]["fuzzy"] is None:
                fail("no-hash-although-every-input-is-present")
            elif V[k]["strong"] != n["strong"]:
                fail("irrelevant-aspect-changes-strong-hash:" + aspect)
            elif V[k]["fuzzy"] != n["fuzzy"]:
                fail("irrelevant-aspect-changes-fuzzy-hash:" + aspect)
    elif aspect in ("missing-input", "missing-produced"):
        variant = case["variant"]
        direct = direct_missing(variant)
        for side in ("strong", "fuzzy"):
            for ci in sorted(unhashable(variant, direct, side)):
                for k in keys_of(var_obs, ci):
                    if V[k][side] is not None:
                        ctx.fail("hash-produced-while-input-missing" + ("" if ci in direct else ":chain"), case,
                                 dict(detail, side=side, node=k, components_with_a_missing_file=sorted(direct)))
    elif aspect in ("twin-same", "twin-exe"):
        tw = keys_of(var_obs, exp["twin"])[0]
        k = tkeys[0]
        if V[tw]["strong"] is None or V[tw]["fuzzy"] is None or V[k]["strong"] is None:
            fail("no-hash-although-every-input-is-present")
        elif aspect == "twin-same" and (V[tw]["strong"], V[tw]["fuzzy"]) != (V[k]["strong"], V[k]["fuzzy"]):
            fail("same-work-different-hash")
        elif aspect == "twin-exe" and V[tw]["strong"] == V[k]["strong"]:
            fail("different-work-same-strong-hash:twin-exe")
        elif aspect == "twin-exe" and V[tw]["fuzzy"] == V[k]["fuzzy"]:
            fail("different-work-same-fuzzy-hash:twin-exe")


# ----------------------------------------------------------------------------------------
# known finding: separator-less serialisation
# ----------------------------------------------------------------------------------------

def flat(info):
    """own restatement of the buffer (keys sorted, lists sorted, no separators)"""
    if isinstance(info, dict):
        return "".join(k + flat(info[k]) for k in sorted(info))
    if isinstance(info, list):
        return "".join(flat(x) for x in sorted(info))
    return str(info)


def values_of(info):
    if isinstance(info, dict):
        for k in sorted(info):
            for v in values_of(info[k]):
                yield v
    elif isinstance(info, list):
        for x in info:
            yield x
    else:
        yield str(info)


def early_keyword(info):
    """some key word occurs in `value + key word` before the end of the value (inside it or overlapping its end)"""
    for v in values_of(info):
        for k in KEYWORDS:
            pos = (v + k).find(k)
            if 0 <= pos < len(v):
                return True
    return False


def c16_collision_by_key_word_in_value(what, case, detail):
    """Accepts only: two *different* infos (as data) whose separator-less buffers coincide, where a key word of
    the serialisation occurs inside (or overlapping the end of) a value."""
    if not what.startswith("different-work-same-") and what != "distinct-infos-same-hash":
        return False
    a, b = (detail or {}).get("info_a"), (detail or {}).get("info_b")
    if a is None or b is None or a == b:
        return False
    return flat(a) == flat(b) and (early_keyword(a) or early_keyword(b))


def c16_producer_directory_outside_arguments(what, case, detail):
    """Accepts only: the consumer whose fuzzy hash did not move reaches every changed producer solely through
    references to the producer's working directory that cannot appear in the arguments (copy / link of a directory):
    such references contribute neither a file entry nor a `producer:` token."""
    if what != "fuzzy-hash-does-not-track-producer":
        return False
    refs = (detail or {}).get("refs_to_changed_producers")
    if not refs:
        return False
    return all(r["file"] is None and r["method"] in ("copy", "link") for r in refs)


def spelling_inside_fuzzy_replacement(spec):
    """some component names in its arguments a produced file `[stageN.]P/F:m` and another reference whose spelling
    occurs, at word boundaries, inside `F:m`: the fuzzy replacement of the first, `file:fuzzy#<hash of P>#F:m`, is
    rewritten by the substitution of the second (the references are substituted one after the other, longest first)"""
    import re
    for c in spec["comps"]:
        named = [k for k in range(len(c["refs"])) if in_arguments(c, k)]
        for k1 in named:
            r1 = c["refs"][k1]
            if r1["kind"] != "comp" or not r1["file"]:
                continue
            tail = "#" + r1["file"] + ":" + r1["method"]
            for k2 in named:
                if k2 != k1 and re.search(r"\b" + re.escape(ref_spelling(spec, c["refs"][k2])) + r"\b", tail):
                    return True
    return False


def c16_reference_spelling_inside_fuzzy_replacement(what, case, detail):
    """Accepts only: the FUZZY hash moved when a component was renamed, and exactly one of the two experiments has a
    component whose arguments name a produced file `P/F:m` together with a reference spelled like the end of that
    (`F:m` - e.g. the standard output `F:output` of a producer that is itself called F)."""
    if what not in ("irrelevant-aspect-changes-fuzzy-hash:name", "irrelevant-aspect-changes-fuzzy-hash:producer-name"):
        return False
    if not isinstance(case, dict) or case.get("kind") != "pair":
        return False
    return spelling_inside_fuzzy_replacement(case["base"]) != spelling_inside_fuzzy_replacement(case["variant"])


CLASSIFIERS = {"c16_collision_by_key_word_in_value": c16_collision_by_key_word_in_value,
               "c16_producer_directory_outside_arguments": c16_producer_directory_outside_arguments,
               "c16_reference_spelling_inside_fuzzy_replacement": c16_reference_spelling_inside_fuzzy_replacement}


def collision_specs(rng):
    """pairs of one-component experiments whose (arguments, executable) differ but serialise identically"""
    u = rng.choice(["a", "run", "-l x", "7"])
    v = rng.choice(["b", "tool", "bin/t"])
    w = rng.choice(["c", ".sh", "2"])
    kind = rng.choice(["infix", "infix", "border"])
    if kind == "infix":
        a = (u, v + "executable" + w)
        b = (u + "executable" + v, w)
    else:
        a = (u + "xexecutabl", w)
        b = (u + "x", "xecutable" + w)

    def one(args, exe):
        return {"comps": [{"name": "c", "stage": 0, "exe": exe, "refs": [], "args": [[{"l": args}]], "out": {},
                           "backend": {"kind": "local"}, "replicate": None, "aggregate": False}],
                "order": None, "mtime": None, "loc": "w"}
    return kind, one(*a), one(*b)


def gen_info(rng):
    def s():
        parts = [rng.choice(["a", "b", "x=1", " ", "-l", "/bin/ls", "0f3a", ":ref", "é"] + KEYWORDS)
                 for _ in range(rng.randint(0, 4))]
        return "".join(parts)
    files = [s() + ":" + rng.choice(["ref", "copy", "output", "copyout"]) for _ in range(rng.randint(0, 4))]
    info = {"files": files, "command": {"executable": s(), "arguments": s()}, "backend": {}}
    if rng.random() < 0.4:
        info["backend"] = {"image": s()}
    return info


# ----------------------------------------------------------------------------------------
# checks
# ----------------------------------------------------------------------------------------

def impl_out(obs):
    return {n["key"]: [n["strong"], n["fuzzy"]] for n in obs["nodes"]}


def model_out(obs, ans):
    out = {}
    for n, s, f in zip(obs["nodes"], ans["strong"], ans["fuzzy"]):
        out[n["key"]] = [s["hash"] if s else None, f["hash"] if f else None]
    return out


def check_pairs(ctx, pairs):
    """pairs: list of case dicts {"kind":"pair","base":spec,"variant":spec,"exp":{…}}"""
    tmp = tempfile.mkdtemp(prefix="c16-")
    observed = []
    try:
        for case in pairs:
            try:
                bo = build_and_observe(case["base"], tmp)
                vo = build_and_observe(case["variant"], tmp)
            except Exception as exc:  # the generated package was rejected: not a case of this property
                ctx.tag("rejected:" + type(exc).__name__)
                if case.get("must_build"):
                    ctx.fail("corpus-case-does-not-build", case, {"error": repr(exc)[:400]})
                continue
            observed.append((case, bo, vo))
    finally:
        shutil.rmtree(tmp, ignore_errors=True)
    reqs = []
    for case, bo, vo in observed:
        reqs.append(bo["model"])
        reqs.append(vo["model"])
    answers = model_worlds(ctx, reqs)
    cross_oracle(ctx, observed)
    observe_again(ctx, observed)
    for idx, (case, bo, vo) in enumerate(observed):
        exp = case["exp"]
        t = exp["target"]
        nrefs = len(case["base"]["comps"][t]["refs"]) if t < len(case["base"]["comps"]) else 0
        vtags = []
        for spec_, obs_ in ((case["base"], bo), (case["variant"], vo)):
            if spec_.get("validate"):
                vtags.append("validated")
                for st_, nm_, exe_ in obs_["live"]:
                    ci_, _rep = comp_of_node(spec_, st_, nm_)
                    if exe_ != spec_["comps"][ci_]["exe"]:
                        vtags.append("validated:executable-rewritten" + ("-into-the-instance" if "/bin/" in exe_ and
                                                                         ".instance/" in exe_ else ""))
        ctx.case(case, nontrivial=(nrefs >= 1 or exp["aspect"] in ("collision", "image", "exe", "twin-exe", "twin-same",
                                                                   "twin-replicated", "validation")),
                 tags=["aspect:" + exp["aspect"], "comps:%d" % len(case["base"]["comps"]),
                       "target-refs:%d" % min(nrefs, 3)] + sorted(set(vtags))
                 + ["replicated"] * any(c.get("replicate") for c in case["base"]["comps"])
                 + ["chain:%d" % chain_len(case["base"], t)])
        if exp["aspect"] == "collision":
            a, b = bo["nodes"][0], vo["nodes"][0]
            if a["strong"] is not None and a["strong"] == b["strong"]:
                ctx.fail("different-work-same-strong-hash:collision", case,
                         {"info_a": bo["infos"]["0"], "info_b": vo["infos"]["0"], "hash": a["strong"]})
            else:
                ctx.tag("collision-pair-has-distinct-hashes")
        else:
            oracle_pair(ctx, case, bo, vo, exp, case["base"])
        if answers is not None:
            for which, obs, ans in (("base", bo, answers[2 * idx]), ("variant", vo, answers[2 * idx + 1])):
                ctx.compare("memoization_hash/_fuzzy of every node == Hash.hashes (md5 := hashlib table)",
                            {"which": which, "case": case}, model_out(obs, ans), impl_out(obs))


class debug_logging:
    """the code under test with logging switched on at DEBUG level (nothing is printed): a user may run with any
    log level, the hashes must not depend on it"""

    def __enter__(self):
        self.root = logging.getLogger()
        self.level = self.root.level
        self.handler = logging.NullHandler()
        self.root.addHandler(self.handler)
        self.root.setLevel(logging.DEBUG)
        self.disabled = logging.root.manager.disable
        logging.disable(logging.NOTSET)
        return self

    def __exit__(self, *a):
        logging.disable(self.disabled)
        self.root.setLevel(self.level)
        self.root.removeHandler(self.handler)


def observe_again(ctx, observed, limit=16):
    """A sample of the experiments of this batch is built and hashed AGAIN - later in the same process, in another
    order, after all the unrelated experiments (whose components carry the same names in other roles), elsewhere on
    the disk, with DEBUG logging on.  The hashes must be those of the first time (location, time and whatever the
    process did before are not part of the work)."""
    if not observed:
        return
    step = max(1, len(observed) // limit)
    sample = observed[::step][:limit]
    tmp = tempfile.mkdtemp(prefix="c16a-")
    try:
        for case, bo, vo in reversed(sample):
            for which, spec, first in (("variant", case["variant"], vo), ("base", case["base"], bo)):
                try:
                    with debug_logging():
                        again = build_and_observe(spec, tmp)
                except Exception as exc:  # noqa
                    ctx.fail("result-depends-on-earlier-cases", case, {"which": which, "error": repr(exc)[:300]})
                    continue
                ctx.tag("again")
                if impl_out(again) != impl_out(first):
                    ctx.fail("result-depends-on-earlier-cases", case,
                             {"which": which, "first": first["nodes"], "again": again["nodes"]})
    finally:
        shutil.rmtree(tmp, ignore_errors=True)


NOARG_ALL = ("copy", "link", "extract", "copyout")


def work_signatures(obs):
    """key -> (sig_full, sig_work, all_direct) for the nodes whose work can be restated without the model: every
    reference is to a file that is there, through a method that keeps the reference out of the arguments, so the
    work is (executable, image, arguments, multiset of (contents, method)).  A reference stated twice (same absolute
    reference) is one consumption; nodes with `./` spellings are left out (see mult:respelled)."""
    res = {}
    for n, mc in zip(obs["nodes"], obs["model"]["comps"]):
        refs = {}
        ok = True
        for r in mc["refs"]:
            if r["kind"] not in ("file", "prodFile") or r.get("content") is None or r["method"] not in NOARG_ALL \
                    or "/./" in r["abs"]:
                ok = False
                break
            refs[r["abs"]] = (r["content"], r["method"], r["kind"])
        if not ok:
            continue
        files = tuple(sorted((c, m) for c, m, _k in refs.values()))
        b = mc["backend"]
        res[n["key"]] = ((mc["exe"], b["kind"], b.get("image"), mc["args"], files),
                         (mc["exe"], b.get("image"), mc["args"], files),
                         all(k == "file" for _c, _m, k in refs.values()))
    return res


def cross_oracle(ctx, observed):
    """The property over ALL pairs of components seen in this run (any two experiments): same executable, image,
    arguments and multiset of consumed (contents, method) => same strong hash; a difference in one of them =>
    different strong hashes (fuzzy: nodes that consume no produced file)."""
    by_sig = {}
    by_hash = {"strong": {}, "fuzzy": {}}
    for case, bo, vo in observed:
        for which, obs in (("base", bo), ("variant", vo)):
            for key, (full, work, direct) in work_signatures(obs).items():
                node = by_key(obs)[key]
                me = {"case": case, "which": which, "key": key, "node": node, "info": obs["infos"].get(key),
                      "work": work, "direct": direct}
                ctx.tag("cross:comparable-node")
                # (the fuzzy hash of a node that consumes produced files needs the fuzzy hashes of the producers)
                if node["strong"] is None or (direct and node["fuzzy"] is None):
                    ctx.fail("no-hash-although-every-input-is-present", case, {"node": node, "which": which})
                    continue
                for side in ("strong", "fuzzy"):
                    if side == "fuzzy" and not direct:
                        continue
                    first = by_sig.setdefault((side, full), me)
                    if first is not me and first["node"][side] != node[side]:
                        ctx.fail("same-work-different-hash:cross", {"kind": "cross", "cases": [first["case"], case]},
                                 {"a": first["node"], "b": node, "side": side, "work": repr(work)[:600]})
                for side in ("strong", "fuzzy"):
                    if side == "fuzzy" and not direct:
                        continue
                    other = by_hash[side].setdefault(node[side], me)
                    if other is not me and other["work"] != work and (side == "strong" or other["direct"]):
                        ctx.tag("cross:collision")
                        ctx.fail("different-work-same-%s-hash:cross" % side,
                                 {"kind": "cross", "cases": [other["case"], case]},
                                 {"a": other["node"], "b": node, "info_a": other["info"], "info_b": me["info"],
                                  "work_a": repr(other["work"])[:600], "work_b": repr(work)[:600]})


def fresh_file(spec, stem="dup"):
    used = set()
    for c in spec["comps"]:
        for r in c["refs"]:
            if r.get("file"):
                used.add(r["file"])
        used |= set((c.get("out") or {}).keys())
    k = 0
    while True:
        fn = "%s%d.cfg" % (stem, k)
        if fn not in used:
            return fn
        k += 1


def add_file_ref(rng, spec, t, content, method, source=None):
    """one more reference of component t to a NEW file with these contents; returns (ref, "direct"|"produced")"""
    fn = fresh_file(spec, rng.choice(["dup", "first", "cfg_", "marker"]))
    cands = ["input", "data"] + (["comp", "comp"] if t > 0 else [])
    k = source or rng.choice(cands)
    if k == "comp" and t == 0:
        k = "data"
    r = {"kind": k, "file": fn, "method": method, "prod": None, "abs": False, "content": None, "missing": False}
    if k == "comp":
        j = rng.randrange(t)
        same = spec["comps"][j]["stage"] == spec["comps"][t]["stage"]
        r.update(prod=j, abs=(not same) or rng.random() < 0.4, same_stage=same)
        spec["comps"][j]["out"][fn] = content
    else:
        r["content"] = content
    spec["comps"][t]["refs"].append(r)
    return r, ("produced" if k == "comp" else "direct")


def set_content(spec, r, content):
    if r["kind"] == "comp":
        spec["comps"][r["prod"]]["out"][r["file"]] = content
    else:
        r["content"] = content


def content_of(spec, r):
    return spec["comps"][r["prod"]]["out"][r["file"]] if r["kind"] == "comp" else r["content"]


def gen_mult_base(rng, allow_repl=False):
    """a world whose target consumes k >= 1 DIFFERENT files with IDENTICAL contents through one method that keeps
    the reference out of the arguments (+ sometimes a file with other contents through the same method)"""
    while True:
        spec = gen_world(rng, allow_repl=allow_repl)
        cands = [i for i, c in enumerate(spec["comps"]) if not c.get("replicate") and not c.get("aggregate")]
        if cands:
            break
    t = rng.choice(cands)
    method = rng.choice(["copy", "copy", "link", "extract", "copyout"])
    content = rng.choice(CONTENTS + ["tolerance: 1\n", "0"])
    k = rng.choice([1, 1, 2, 2, 3])
    dups = [add_file_ref(rng, spec, t, content, method)[0] for _ in range(k)]
    other = None
    if rng.random() < 0.6:
        other = add_file_ref(rng, spec, t, content + rng.choice(["2", "\n", "#"]), method)[0]
    return spec, t, dups, other, method, content


def gen_mult_pairs(rng, nworlds):
    """pairs (and twins) that differ in the NUMBER of consumed files with identical contents"""
    pairs = []

    def emit(base, v, exp):
        pairs.append({"kind": "pair", "base": base, "variant": v, "exp": exp})

    for _ in range(nworlds):
        base, t, dups, other, method, content = gen_mult_base(rng)
        idx = {id(r): k for k, r in enumerate(base["comps"][t]["refs"])}
        # k -> k+1 files with the same contents through the same method
        v = copy.deepcopy(base)
        _r, src = add_file_ref(rng, v, t, content, method)
        emit(base, v, {"aspect": "mult:more", "target": t, "source": src})
        # ... through another method
        v = copy.deepcopy(base)
        _r, src = add_file_ref(rng, v, t, content, rng.choice([m for m in NOARG_ALL if m != method]))
        emit(base, v, {"aspect": "mult:more-other-method", "target": t, "source": src})
        # [X, X, Y] -> [X, Y, Y]
        if len(dups) >= 2 and other is not None:
            v = copy.deepcopy(base)
            vr = v["comps"][t]["refs"][idx[id(rng.choice(dups))]]
            set_content(v, vr, content_of(base, other))
            emit(base, v, {"aspect": "mult:rebalance", "target": t,
                           "source": "produced" if vr["kind"] == "comp" else "direct"})
        # a twin inside the same experiment that consumes one more such file / the same number of OTHER such files
        v = copy.deepcopy(base)
        tw = copy.deepcopy(v["comps"][t])
        tw["name"] = fresh_name(rng, v)
        v["comps"].append(tw)
        _r, src = add_file_ref(rng, v, len(v["comps"]) - 1, content, method, source=rng.choice(["input", "data"]))
        emit(base, v, {"aspect": "mult:twin-more", "target": t, "twin": len(v["comps"]) - 1, "source": src})
        direct_dups = [r for r in dups if r["kind"] != "comp"]
        if direct_dups:
            v = copy.deepcopy(base)
            tw = copy.deepcopy(v["comps"][t])
            tw["name"] = fresh_name(rng, v)
            v["comps"].append(tw)
            ti = len(v["comps"]) - 1
            old = tw["refs"][idx[id(rng.choice(direct_dups))]]
            tw["refs"].remove(old)
            add_file_ref(rng, v, ti, content, method, source=rng.choice(["input", "data"]))
            emit(base, v, {"aspect": "mult:twin-other-files", "target": t, "twin": ti,
                           "source": "direct" if all(r["kind"] != "comp" for r in tw["refs"]) else "mixed"})
        # a reference stated twice is one consumption; `dir/./file` is another reference string
        v = copy.deepcopy(base)
        nref = len(v["comps"][t]["refs"])
        v["comps"][t]["restate"] = sorted(rng.sample(range(nref), rng.randint(1, min(2, nref))))
        emit(base, v, {"aspect": "mult:restated", "target": t})
        if rng.random() < 0.4:
            v = copy.deepcopy(base)
            r = dict(v["comps"][t]["refs"][idx[id(rng.choice(dups))]], dot=True)
            v["comps"][t]["refs"].append(r)
            emit(base, v, {"aspect": "mult:respelled", "target": t})
        # the aspects of the general generator on a target with identical files
        for aspect in rng.sample(["order", "file-name", "location", "mtime", "name", "method", "input-content",
                                  "exe", "twin-same", "missing-input"], 3):
            res = make_variant(rng, base, aspect, t)
            if res is not None:
                emit(base, res[0], res[1])
    return pairs


def gen_replica_pairs(rng, n):
    """an aggregating consumer that stages in the (identical) output of every replica of a producer: 2 replicas
    against 3"""
    pairs = []
    for _ in range(n):
        names = rng.sample([nm for nm in NAMES if not nm[-1].isdigit()], 2)
        content = rng.choice(CONTENTS)
        method = rng.choice(["copy", "copy", "link", "copyout"])
        prod = _comp(names[0], 0, rng.choice(EXES), [[{"l": rng.choice(WORDS)}]], out={"r.cfg": content}, replicate=2)
        ref = {"kind": "comp", "file": "r.cfg", "method": method, "prod": 0, "abs": rng.random() < 0.5,
               "content": None, "missing": False}
        cons = _comp(names[1], 0, rng.choice(EXES), [[{"l": rng.choice(WORDS)}]], [ref], aggregate=True)
        base = {"comps": [prod, cons], "order": None, "mtime": None, "loc": "w"}
        v = copy.deepcopy(base)
        v["comps"][0]["replicate"] = 3
        pairs.append({"kind": "pair", "base": base, "variant": v,
                      "exp": {"aspect": "mult:replicas", "target": 1, "source": "produced"}})
    return pairs


def chain_len(spec, t):
    best = 0
    for r in spec["comps"][t]["refs"] if t < len(spec["comps"]) else []:
        if r["kind"] == "comp":
            best = max(best, 1 + chain_len(spec, r["prod"]))
    return best


def check_infos(ctx, infos):
    """the real static serialiser on arbitrary info dictionaries against Hash.serialize, + collision oracle"""
    G, _TU, _yaml, _nx = _imports()
    real = G.ComponentSpecification._memoization_info_to_hash
    reqs = [{"op": "ser", "image": i["backend"].get("image"), "args": i["command"]["arguments"],
             "exe": i["command"]["executable"], "files": i["files"]} for i in infos]
    outs = ctx.model(reqs)
    seen = {}
    for idx, info in enumerate(infos):
        h = real(copy.deepcopy(info))
        ctx.case({"kind": "info", "info": info}, nontrivial=bool(info["files"]) or early_keyword(info),
                 tags=["info", "info:keyword-in-value" if early_keyword(info) else "info:plain"])
        if outs is not None:
            ctx.compare("_memoization_info_to_hash(info) == md5(Hash.serialize info)", {"kind": "info", "info": info},
                        {"hash": md5s(outs[idx]["ser"])}, {"hash": h})
        canon_info = (tuple(sorted(info["files"])), info["command"]["executable"], info["command"]["arguments"],
                      info["backend"].get("image"))
        if h in seen and seen[h][0] != canon_info:
            ctx.fail("distinct-infos-same-hash", {"kind": "info-pair", "a": seen[h][1], "b": info},
                     {"info_a": seen[h][1], "info_b": info, "hash": h})
        seen.setdefault(h, (canon_info, info))


def check_strings(ctx, rng, n):
    """`tokens` against the real discover_reference_strings keys, `subWord` against re.sub"""
    import re
    import experiment.model.frontends.flowir as F
    alphabet = ["a", "b", "Z", "0", "7", "_", ".", "/", "-", ":", " ", "=", ",", "ref", "copy", "out", "output",
                "loopref", "link", ":ref", ":output", ":copyout", "stage0.", "x/y"]
    cases = []
    for _ in range(n):
        s = "".join(rng.choice(alphabet) for _ in range(rng.randint(0, 10)))
        pat = "".join(rng.choice(alphabet[:12] + ["ab", ":ref"]) for _ in range(rng.randint(1, 3)))
        if rng.random() < 0.7 and s:
            i = rng.randrange(len(s) + 1)
            s = s[:i] + pat + s[i:]
        rep = rng.choice(["file:0a:ref", "R", "", "producer:ff:output"])
        cases.append((s, pat, rep))
    outs = ctx.model([{"op": "tokens", "s": s} for s, _p, _r in cases] +
                     [{"op": "subword", "s": s, "pat": p, "rep": r} for s, p, r in cases])
    if outs is None:
        return
    for i, (s, pat, rep) in enumerate(cases):
        m = {}
        F.FlowIR.discover_reference_strings(s, 0, {0: []}, m)
        ctx.tag("strings")
        ctx.compare("keys of discover_reference_strings == Hash.tokens", {"kind": "tokens", "s": s},
                    {"tokens": sorted(set(outs[i]["tokens"]))}, {"tokens": sorted(m.keys())})
        want = re.sub(re.compile(r"\b" + re.escape(pat) + r"\b"), rep.replace("\\", "\\\\"), s)
        ctx.compare(r"re.sub(\b pat \b) == Hash.subWord", {"kind": "subword", "s": s, "pat": pat, "rep": rep},
                    {"out": outs[len(cases) + i]["out"]}, {"out": want})


# ----------------------------------------------------------------------------------------
# histories: one experiment, its files change, the hashes are recomputed
# ----------------------------------------------------------------------------------------
# case = {"kind": "history", "spec": spec, "steps": [step...]}
# file id = ["input", fn] | ["data", fn] | ["out", comp index, fn]
# step = {"op": "write", "file": fid, "content": str, "how": "inplace"|"replace", "mtime": MT}
#      | {"op": "touch", "file": fid, "mtime": MT} | {"op": "touch-all", "t": seconds}
#      | {"op": "remove", "file": fid} | {"op": "swap", "a": fid, "b": fid, "mtime": "keep"|"equalise"}
#      | {"op": "reload"}            every step may carry "order": seed of the order in which hashes are evaluated
# MT = "keep" (exactly the time the file had) | "same-second" | "later" | "earlier" | "now"

MTIMES = ["keep", "same-second", "later", "earlier", "now"]


def direct_files(spec, ci):
    """[(file id, method, produced?)] for the references of component ci that consume a file"""
    res = []
    for r in spec["comps"][ci]["refs"]:
        if r["kind"] in ("input", "data"):
            res.append(((r["kind"], r["file"]), r["method"], False))
        elif r["file"] or r["method"] == "output":
            res.append((("out", r["prod"], r["file"] or "out.stdout"), r["method"], True))
    return res


def dep_files(spec, ci, _seen=None):
    """every file the hashes of component ci may depend on (its own and those of its producers, transitively)"""
    seen = _seen if _seen is not None else set()
    if ci in seen:
        return set()
    seen.add(ci)
    res = {f for f, _m, _p in direct_files(spec, ci)}
    for r in spec["comps"][ci]["refs"]:
        if r["kind"] == "comp":
            res |= dep_files(spec, r["prod"], seen)
    return res


def initial_contents(spec):
    cur = {}
    for ci, c in enumerate(spec["comps"]):
        for r in c["refs"]:
            if r["kind"] in ("input", "data"):
                cur[(r["kind"], r["file"])] = None if r.get("missing") else r["content"]
            elif r["file"] or r["method"] == "output":
                fn = r["file"] or "out.stdout"
                cur[("out", r["prod"], fn)] = (spec["comps"][r["prod"]].get("out") or {}).get(fn)
    return cur


def mutate_same_length(rng, content):
    i = rng.randrange(len(content))
    ch = rng.choice([c for c in "ABXYZ019" if c != content[i]])
    return content[:i] + ch + content[i + 1:]


def mutate_other_length(rng, content):
    if content and rng.random() < 0.4:
        return content[:-1]
    return content + rng.choice(["!", "\n", "ZZ", "0"])


def gen_history(rng, multi=False, chain=False, exe=False):
    """multi: the experiment has a component that consumes several files with identical contents through one method
    (the steps then prefer to make contents of two files equal / different again: [X, X, Y] <-> [X, Y, Y]);
    chain: the experiment is a chain of producers (the steps prefer to remove and re-create files)"""
    for _ in range(30):
        if exe:
            spec = exe_world(rng, chain=chain)
        else:
            spec = gen_chain_world(rng) if chain else gen_mult_base(rng, allow_repl=True)[0] if multi else gen_world(rng)
        cur = initial_contents(spec)
        if cur:
            break
    else:
        return None
    init = dict(cur)
    files = sorted(cur, key=repr)
    multi = {f for f in files if f[0] == "out" and spec["comps"][f[1]].get("replicate")}
    steps = []
    nsteps = rng.randint(2, 5)
    for k in range(nsteps):
        kinds = ["rewrite"] * 6 + ["revert"] * 2 + ["swap"] * 2 + ["remove", "touch", "touch-all", "reload", "reload"]
        if chain:
            kinds += ["remove"] * 6 + ["revert"] * 2
        if exe:
            kinds += ["validate"] * 8
        if multi or chain or exe:
            kinds += ["equalise"] * (8 if multi else 0)
            kind = rng.choice(kinds)
        else:
            kind = "rewrite" if k == 0 else rng.choice(kinds)
        present = [f for f in files if cur[f] is not None]
        step = None
        if kind == "equalise":
            # a file receives the bytes another consumed file holds at this moment
            cands = [(a, b) for a in present for b in present if a != b and cur[a] != cur[b]]
            if cands:
                a, b = rng.choice(cands)
                step = {"op": "write", "file": list(a), "content": cur[b], "how": rng.choice(["inplace", "replace"]),
                        "mtime": rng.choice(["keep", "same-second", "later", "now"])}
                cur[a] = cur[b]
        elif kind == "rewrite":
            f = rng.choice(files)
            old = cur[f]
            if old is None:
                new = rng.choice(CONTENTS) if init[f] is None or rng.random() < 0.5 else mutate_same_length(rng, init[f]) \
                    if init[f] else "restored"
            elif old and rng.random() < 0.7:
                new = mutate_same_length(rng, old)
            else:
                new = mutate_other_length(rng, old)
            step = {"op": "write", "file": list(f), "content": new, "how": rng.choice(["inplace", "inplace", "replace"]),
                    "mtime": rng.choice(["keep", "keep", "keep", "same-second", "later", "earlier", "now"])}
            cur[f] = new
        elif kind == "revert":
            cands = [f for f in files if cur[f] != init[f] and init[f] is not None]
            if cands:
                f = rng.choice(cands)
                step = {"op": "write", "file": list(f), "content": init[f], "how": rng.choice(["inplace", "replace"]),
                        "mtime": rng.choice(["keep", "same-second", "later", "now"])}
                cur[f] = init[f]
        elif kind == "swap":
            cands = [(a, b) for a in present for b in present
                     if repr(a) < repr(b) and cur[a] != cur[b] and a not in multi and b not in multi]
            same = [(a, b) for a, b in cands if len(cur[a]) == len(cur[b])]
            if cands:
                a, b = rng.choice(same or cands)
                step = {"op": "swap", "a": list(a), "b": list(b), "mtime": rng.choice(["keep", "equalise"])}
                cur[a], cur[b] = cur[b], cur[a]
        elif kind == "remove":
            if present:
                f = rng.choice(present)
                step = {"op": "remove", "file": list(f)}
                cur[f] = None
        elif kind == "touch":
            if present:
                step = {"op": "touch", "file": list(rng.choice(present)),
                        "mtime": rng.choice(["same-second", "later", "earlier"])}
        elif kind == "touch-all":
            step = {"op": "touch-all", "t": 1000000000 + rng.randint(0, 10 ** 8)}
        elif kind == "validate":
            step = {"op": "validate"}
        if step is None:
            step = {"op": "reload"}
        if rng.random() < 0.5:
            step["order"] = rng.randint(0, 10 ** 6)
        steps.append(step)
    return {"kind": "history", "spec": spec, "steps": steps}


def _set_mtime(path, mode, st):
    """st = what os.stat said about the path before the operation (or the last time it existed)"""
    if mode == "now" or st is None:
        return
    sec, frac = divmod(st.st_mtime_ns, 10 ** 9)
    if mode == "keep":
        ns = st.st_mtime_ns
    elif mode == "same-second":
        ns = sec * 10 ** 9 + (frac + 500000000) % 10 ** 9
    elif mode == "later":
        ns = st.st_mtime_ns + 7 * 10 ** 9
    elif mode == "earlier":
        ns = st.st_mtime_ns - 3600 * 10 ** 9
    else:
        raise ValueError(mode)
    os.utime(path, ns=(st.st_atime_ns, ns))


def apply_step(world, step, last_stat, tracked):
    """performs the step on the real files; returns the operations of the file-system model that describe it"""
    ops = []

    def stat_of(p):
        if os.path.exists(p):
            last_stat[p] = os.stat(p)
        return last_stat.get(p)

    def wrote(p):
        n = fs_node(p)
        ops.append({"op": "write", "path": world.sym(p), "content": n["content"], "mtime": n["mtime"], "ino": n["ino"]})

    kind = step["op"]
    if kind == "write":
        for p in world.paths_of(tuple(step["file"])):
            st = stat_of(p)
            if step["how"] == "replace":
                with open(p + ".new~", "w") as fh:
                    fh.write(step["content"])
                os.replace(p + ".new~", p)
            else:
                with open(p, "w") as fh:
                    fh.write(step["content"])
            _set_mtime(p, step["mtime"], st)
            wrote(p)
    elif kind == "touch":
        for p in world.paths_of(tuple(step["file"])):
            if os.path.isfile(p):
                _set_mtime(p, step["mtime"], stat_of(p))
                ops.append({"op": "touch", "path": world.sym(p), "mtime": os.stat(p).st_mtime_ns})
    elif kind == "touch-all":
        for p in tracked:
            if os.path.isfile(p):
                os.utime(p, (step["t"], step["t"]))
                ops.append({"op": "touch", "path": world.sym(p), "mtime": os.stat(p).st_mtime_ns})
    elif kind == "remove":
        for p in world.paths_of(tuple(step["file"])):
            if os.path.isfile(p):
                stat_of(p)
                os.remove(p)
                ops.append({"op": "remove", "path": world.sym(p)})
    elif kind == "swap":
        pa, pb = world.paths_of(tuple(step["a"])), world.paths_of(tuple(step["b"]))
        if len(pa) == 1 and len(pb) == 1 and os.path.isfile(pa[0]) and os.path.isfile(pb[0]):
            a, b = pa[0], pb[0]
            sa = stat_of(a)
            stat_of(b)
            tmpn = os.path.join(world.inst, "swap.tmp~")
            for x, y in ((a, tmpn), (b, a), (tmpn, b)):
                os.rename(x, y)
                ops.append({"op": "rename", "a": world.sym(x), "b": world.sym(y)})
            if step["mtime"] == "equalise":
                for x in (a, b):
                    os.utime(x, ns=(sa.st_atime_ns, sa.st_mtime_ns))
                    ops.append({"op": "touch", "path": world.sym(x), "mtime": os.stat(x).st_mtime_ns})
    elif kind == "reload":
        world.reload()
        ops.append({"op": "reload"})
    elif kind == "validate":
        probes = probes_of(world)
        world.validate()
        ops.append({"op": "validate", "base": "$I", "probes": probes})
    else:
        raise ValueError(kind)
    return ops


def probes_of(world):
    """What the operating system answers to the questions ComponentSpecification.checkExecutable asks about the
    executable each node holds in the live configuration NOW (asked with shutil / os.path, not through the code under
    test): `which` in the PATH of the component environment, real paths, which of them can be executed."""
    res = []
    for n in world.order:
        cs = world.g.nodes[n]["componentSpecification"]
        exe = cs.commandDetails.get("executable", "")
        which = None
        if "/" not in exe:
            which = shutil.which(exe, path=(cs.environment or {}).get("PATH", ""))
        cands = {p_ for p_ in (exe, os.path.join(world.inst, exe), which) if p_ and p_.startswith("/")}
        reals = {p_: os.path.realpath(p_) for p_ in cands}
        res.append({"which": world.sym(which) if which else None,
                    "real": sorted([world.sym(a), world.sym(b)] for a, b in reals.items()),
                    "ok": sorted({world.sym(b) for b in reals.values() if os.path.exists(b) and os.access(b, os.X_OK)})})
    return res


def snapshot(world, files):
    """file id -> tuple of the contents of its paths (None = not there)"""
    snap = {}
    for f in files:
        vals = []
        for p in world.paths_of(f):
            if os.path.isfile(p):
                with open(p) as fh:
                    vals.append(fh.read())
            else:
                vals.append(None)
        snap[f] = tuple(vals)
    return snap


def run_history(case, tmp):
    """drives the real code through the history; returns the observations (index 0 = before the first step)"""
    spec = case["spec"]
    world = World(spec, tmp)
    try:
        files = sorted(initial_contents(spec), key=repr)
        tracked = sorted({p for f in files for p in world.paths_of(f)})
        first = world.observe(symbolic=True)
        fs = dict(first["fs"])
        for p in tracked:
            fs.setdefault(world.sym(p), fs_node(p))
        paths = sorted(fs)
        last_stat = {}
        obs = [dict(first, snap=snapshot(world, files), nops=0,
                    views={world.sym(p): fs_node(p) for p in tracked})]
        ops = []
        contents = set(first["contents"])
        for step in case["steps"]:
            ops += apply_step(world, step, last_stat, tracked)
            o = world.observe(order_seed=step.get("order"))
            contents |= o["contents"]
            obs.append(dict(o, snap=snapshot(world, files), nops=len(ops),
                            views={world.sym(p): fs_node(p) for p in tracked}))
        for n_ in fs.values():
            if n_ and n_["kind"] == "file":
                contents.add(n_["content"])
        for op in ops:
            if op["op"] == "write":
                contents.add(op["content"])
        sym_live = lambda live: [[st_, nm_, world.sym(e_) if e_.startswith("/") else e_] for st_, nm_, e_ in live]
        for o in obs:
            o["live"] = sym_live(o["live"])
        request = {"op": "history", "bps": first["bps"], "live": obs[0]["live"], "comps": first["scomps"],
                   "fs": [[p, fs[p]] for p in paths if fs[p] is not None], "ops": ops, "paths": paths,
                   "md5": sorted([c, md5s(c)] for c in contents)}
        return {"obs": obs, "request": request, "paths": paths, "files": files}
    finally:
        world.close()


def present(v):
    return all(x is not None for x in v)


def oracle_history(ctx, case, hist):
    """Model-independent restatement of the property along one history: the hashes computed at any two moments are
    related exactly as the contents of the consumed files at those moments are."""
    spec = case["spec"]
    obs = hist["obs"]
    keys = [n["key"] for n in obs[0]["nodes"]]
    H = [by_key(o) for o in obs]
    trace = [{"after_step": j - 1, "nodes": o["nodes"], "files": {repr(f): v for f, v in o["snap"].items()}}
             for j, o in enumerate(obs)]

    reported = set()

    def fail(what, i, j, key, **extra):
        # one report per kind of failure and history (the first pair of observations / node that shows it)
        if what in reported and what != "fuzzy-hash-does-not-track-producer":
            return
        reported.add(what)
        ctx.fail(what, case, dict({"observations": [i, j], "node": key, "trace": trace}, **extra))

    def fuzzy_view(snap, f):
        return snap[f] if f[0] != "out" else tuple(x is not None for x in snap[f])

    # per observation: the components that consume a file that is missing at that moment, and those whose hash stands
    # on the hash of such a component along a chain of producers
    gone = []
    for o in obs:
        d = {ci for ci in range(len(spec["comps"]))
             if any(not present(o["snap"][f]) for f, _m, _p in direct_files(spec, ci))}
        gone.append({"direct": d, "strong": unhashable(spec, d, "strong"), "fuzzy": unhashable(spec, d, "fuzzy")})
    for key in keys:
        ci = int(key.split(".")[0])
        direct = direct_files(spec, ci)
        dep = sorted(dep_files(spec, ci), key=repr)
        for j, o in enumerate(obs):
            h = H[j].get(key)
            if h is None:
                continue
            if all(present(o["snap"][f]) for f in dep) and (h["strong"] is None or h["fuzzy"] is None):
                fail("no-hash-although-every-input-is-present", j, j, key)
            if any(not present(o["snap"][f]) for f, _m, _p in direct) and (h["strong"] is not None or h["fuzzy"] is not None):
                fail("hash-produced-while-input-missing", j, j, key)
            for side in ("strong", "fuzzy"):
                if ci in gone[j][side] and h[side] is not None:
                    fail("hash-produced-while-input-missing:chain", j, j, key, side=side,
                         components_with_a_missing_file=sorted(gone[j]["direct"]))
        for i in range(len(obs)):
            for j in range(i + 1, len(obs)):
                a, b = H[i].get(key), H[j].get(key)
                if a is None or b is None:
                    continue
                si, sj = obs[i]["snap"], obs[j]["snap"]
                if all(si[f] == sj[f] for f in dep) and a["strong"] != b["strong"]:
                    fail("same-contents-different-strong-hash:history", i, j, key)
                if all(fuzzy_view(si, f) == fuzzy_view(sj, f) for f in dep) and a["fuzzy"] != b["fuzzy"]:
                    fail("same-contents-different-fuzzy-hash:history", i, j, key)
                if not all(present(s[f]) for s in (si, sj) for f in dep):
                    continue
                ms = [sorted((repr(s[f]), m) for f, m, _p in direct) for s in (si, sj)]
                if ms[0] != ms[1] and a["strong"] is not None and a["strong"] == b["strong"]:
                    fail("different-contents-same-strong-hash:history", i, j, key)
                mf = [sorted((repr(s[f]), m) for f, m, p in direct if not p) for s in (si, sj)]
                if mf[0] != mf[1] and a["fuzzy"] is not None and a["fuzzy"] == b["fuzzy"]:
                    fail("different-contents-same-fuzzy-hash:history", i, j, key)
                # the fuzzy hash of a component changes when the fuzzy hash of one of its producers changes
                moved = []
                for r in spec["comps"][ci]["refs"]:
                    if r["kind"] == "comp" and any(
                            H[i][k]["fuzzy"] is not None and H[j][k]["fuzzy"] is not None
                            and H[i][k]["fuzzy"] != H[j][k]["fuzzy"] for k in keys_of(obs[0], r["prod"])):
                        moved.append(r)
                if moved and a["fuzzy"] is not None and a["fuzzy"] == b["fuzzy"]:
                    fail("fuzzy-hash-does-not-track-producer", i, j, key, consumer=ci, refs_to_changed_producers=[
                        {"file": r["file"], "method": r["method"], "prod": r["prod"]} for r in moved])


def canon_view(n):
    if n is None:
        return None
    return "dir" if n["kind"] == "dir" else {"content": n["content"]}


def check_histories(ctx, cases):
    tmp = tempfile.mkdtemp(prefix="c16h-")
    done = []
    try:
        for case in cases:
            try:
                hist = run_history(case, tmp)
            except Exception as exc:  # the generated package was rejected: not a case of this property
                ctx.tag("rejected:" + type(exc).__name__)
                if case.get("must_build"):
                    ctx.fail("corpus-case-does-not-build", case, {"error": repr(exc)[:400]})
                continue
            done.append((case, hist))
    finally:
        shutil.rmtree(tmp, ignore_errors=True)
    answers = model_worlds(ctx, [h["request"] for _c, h in done])
    for idx, (case, hist) in enumerate(done):
        spec = case["spec"]
        referenced = set()
        for ci in range(len(spec["comps"])):
            referenced |= {f for f, _m, _p in direct_files(spec, ci)}
        changing = [s for s in case["steps"] if s["op"] in ("write", "remove", "swap", "validate")]
        tags = ["history", "comps:%d" % len(spec["comps"]), "steps:%d" % len(case["steps"])]
        for s_ in case["steps"]:
            t = "step:" + s_["op"]
            if s_["op"] == "write":
                t += ":" + s_["how"] + ":mtime-" + s_["mtime"]
            elif s_["op"] == "validate":
                if any(a != b for o_ in hist["obs"] for a, b in zip(o_["live"], hist["obs"][0]["live"])):
                    tags.append("validated:executable-rewritten")
                if any(b[2].startswith("$I/") and not a[2].startswith("$I/")
                       for o_ in hist["obs"] for a, b in zip(hist["obs"][0]["live"], o_["live"])):
                    tags.append("validated:executable-rewritten-into-the-instance")
            elif s_["op"] in ("touch", "swap"):
                t += ":mtime-" + s_["mtime"]
            tags.append(t)
        for i in range(1, len(hist["obs"])):
            s_ = case["steps"][i - 1]
            if s_["op"] == "write":
                f = tuple(s_["file"])
                before, after = hist["obs"][i - 1]["snap"][f], hist["obs"][i]["snap"][f]
                if present(before) and before != after and [len(x) for x in before] == [len(x) for x in after]:
                    tags.append("rewrite-same-length" + ("-same-mtime" if s_["mtime"] == "keep" else ""))
        ctx.case(case, nontrivial=bool(changing) and bool(referenced), tags=sorted(set(tags)))
        oracle_history(ctx, case, hist)
        if answers is None:
            continue
        ans = answers[idx]["obs"]
        for j, o in enumerate(hist["obs"]):
            m = ans[o["nops"]]
            ctx.compare("memoization_hash/_fuzzy of every node after every step of a history == Hash.observeHistory "
                        "(hashes of the current file system; md5 := hashlib table)",
                        {"which": "after-step-%d" % (j - 1), "case": case}, model_out(o, m), impl_out(o))
            if "live" in m:
                ctx.compare("executables of the live configuration after every step of a history (validation: "
                            "checkExecutable(updateSpecification=True) on every node) == Hash.validate",
                            {"which": "live-after-step-%d" % (j - 1), "case": case}, {"live": m["live"]},
                            {"live": [e_[2] for e_ in o["live"]]})
            mv = dict(zip(hist["paths"], m["views"]))
            ctx.compare("files after every step of a history == Hash.view of Hash.states (write/touch/remove/rename)",
                        {"which": "views-after-step-%d" % (j - 1), "case": case},
                        {p: mv[p] for p in o["views"]}, {p: canon_view(n) for p, n in o["views"].items()})


def corpus_histories():
    """a produced file and an input rewritten in place with other bytes of the same length and the same time;
    a new experiment object; the original bytes written back"""
    def link(p, f="out.txt", m="ref"):
        return {"kind": "comp", "file": f, "method": m, "prod": p, "abs": False, "content": None, "missing": False}
    inp = {"kind": "input", "file": "a.txt", "method": "copy", "prod": None, "abs": False, "content": "AAA",
           "missing": False}
    spec = {"comps": [_comp("gen", 0, "/bin/echo", [[{"l": "hello"}]], out={"out.txt": "result=1111\n"}),
                      _comp("first", 0, "/bin/cat", [[{"r": 0}]], [link(0)], out={"out.txt": "1"}),
                      _comp("second", 0, "/bin/cat", [[{"r": 0}]], [link(0), dict(inp)]),
                      _comp("last", 1, "/bin/cat", [[{"l": "x="}, {"r": 0}]], [dict(link(1, f=None), abs=True)])],
            "order": None, "mtime": None, "loc": "w"}
    steps = [{"op": "write", "file": ["out", 0, "out.txt"], "content": "result=2222\n", "how": "inplace", "mtime": "keep"},
             {"op": "write", "file": ["input", "a.txt"], "content": "ABA", "how": "replace", "mtime": "same-second"},
             {"op": "reload"},
             {"op": "write", "file": ["out", 0, "out.txt"], "content": "result=1111\n", "how": "inplace", "mtime": "later",
              "order": 7},
             {"op": "remove", "file": ["input", "a.txt"]},
             {"op": "write", "file": ["input", "a.txt"], "content": "AAA", "how": "inplace", "mtime": "keep"}]
    return [{"kind": "history", "spec": spec, "steps": steps, "must_build": True}]


def _comp(name, stage, exe, args, refs=None, out=None, backend=None, replicate=None, aggregate=False):
    return {"name": name, "stage": stage, "exe": exe, "refs": refs or [], "args": args, "out": out or {},
            "backend": backend or {"kind": "local"}, "replicate": replicate, "aggregate": aggregate}


def corpus_cases():
    """DESIGN section 8 #8a (calc / calc2 / step7), docker image, replicas of `calc2`, chain of 4, collision."""
    inp = {"kind": "input", "file": "a.txt", "method": "ref", "prod": None, "abs": False, "content": "AAA",
           "missing": False}
    base = {"comps": [_comp("calc", 0, "/bin/ls", [[{"l": "-l"}], [{"r": 0}]], [dict(inp)]),
                      _comp("work", 0, "/bin/cat", [[{"l": "-l"}], [{"r": 0}]], [dict(inp)])],
            "order": None, "mtime": None, "loc": "w"}
    v1 = copy.deepcopy(base)
    v1["comps"][1]["name"] = "calc2"
    v2 = copy.deepcopy(base)
    v2["comps"][1]["name"] = "step7"
    cases = [{"kind": "pair", "base": base, "variant": v1, "exp": {"aspect": "name", "target": 1}, "must_build": True},
             {"kind": "pair", "base": base, "variant": v2, "exp": {"aspect": "name", "target": 1}, "must_build": True}]
    d = {"comps": [_comp("dock", 0, "/bin/cat", [[{"l": "hi"}]], backend={"kind": "docker", "image": "foo/bar:1"})],
         "order": None, "mtime": None, "loc": "w"}
    d2 = copy.deepcopy(d)
    d2["comps"][0]["backend"]["image"] = "foo/bar:2"
    cases.append({"kind": "pair", "base": d, "variant": d2, "exp": {"aspect": "image", "target": 0}, "must_build": True})
    # replicas of a component whose name ends in a digit + aggregating consumer
    pr = {"kind": "comp", "file": "r.txt", "method": "ref", "prod": 0, "abs": False, "content": None, "missing": False}
    r = {"comps": [_comp("calc2", 0, "/bin/ls", [[{"l": "-l"}], [{"r": 0}]], [dict(inp)], out={"r.txt": "R"}, replicate=2),
                   _comp("agg", 0, "/bin/cat", [[{"r": 0}]], [pr], aggregate=True)],
         "order": None, "mtime": None, "loc": "w"}
    r2 = copy.deepcopy(r)
    r2["comps"][0]["name"] = "calc"
    cases.append({"kind": "pair", "base": r2, "variant": r, "exp": {"aspect": "producer-name", "target": 1},
                  "must_build": True})
    # 10 against 11 replicas (replica indices with one and with two digits) of a producer whose name ends in a digit
    r10 = copy.deepcopy(r)
    r10["comps"][0]["replicate"] = 10
    r11 = copy.deepcopy(r)
    r11["comps"][0]["replicate"] = 11
    cases.append({"kind": "pair", "base": r10, "variant": r11,
                  "exp": {"aspect": "mult:replicas", "target": 1, "source": "produced"}, "must_build": True})
    r11b = copy.deepcopy(r11)
    r11b["comps"][0]["name"] = "calc"
    cases.append({"kind": "pair", "base": r11b, "variant": r11, "exp": {"aspect": "producer-name", "target": 1},
                  "must_build": True})
    # known finding C16-reference-spelling-inside-fuzzy-replacement: producer `x` writes a file `x`; the consumer
    # names the working directory, the standard output `x:output` and the file `stage0.x/x:output`
    def pref(f, m, ab):
        return {"kind": "comp", "file": f, "method": m, "prod": 0, "abs": ab, "content": None, "missing": False}
    nx = {"comps": [_comp("x", 0, "exe2", [[{"l": "input"}]], out={"out.stdout": "", "x": "xx"}),
                    _comp("sim3", 0, "/bin/cat", [[{"l": "@"}, {"r": 0}], [{"r": 2}, {"l": ")"}],
                                                  [{"l": "a,b="}, {"r": 1}], [{"l": "-l"}]],
                          [pref(None, "ref", False), pref("x", "output", True), pref(None, "output", False)])],
          "order": None, "mtime": None, "loc": "w"}
    nm = copy.deepcopy(nx)
    nm["comps"][0]["name"] = "merge"
    cases.append({"kind": "pair", "base": nx, "variant": nm, "exp": {"aspect": "producer-name", "target": 1},
                  "must_build": True})
    # chain of four producers: the change of the root must reach the fuzzy hash of the last consumer
    def link(p, f="out.txt", m="ref"):
        return {"kind": "comp", "file": f, "method": m, "prod": p, "abs": False, "content": None, "missing": False}
    ch = {"comps": [_comp("gen", 0, "/bin/echo", [[{"l": "hello"}]], out={"out.txt": "0"}),
                    _comp("s1", 0, "/bin/cat", [[{"r": 0}]], [link(0)], out={"out.txt": "1"}),
                    _comp("s2", 0, "/bin/cat", [[{"l": "x="}, {"r": 0}]], [link(1, m="output")], out={"out.txt": "2"}),
                    _comp("s3", 0, "/bin/cat", [[{"r": 0}]], [link(2, f=None)], out={"out.txt": "3"}),
                    _comp("s4", 0, "/bin/cat", [[{"r": 0}], [{"l": "end"}]], [link(3)])],
          "order": None, "mtime": None, "loc": "w"}
    ch2 = copy.deepcopy(ch)
    ch2["comps"][0]["exe"] = "/bin/printf"
    cases.append({"kind": "pair", "base": ch, "variant": ch2,
                  "exp": {"aspect": "producer-exe", "target": 4, "changed": 0}, "must_build": True})
    ch3 = copy.deepcopy(ch)
    ch3["comps"][3]["out"]["out.txt"] = "3-changed"
    cases.append({"kind": "pair", "base": ch, "variant": ch3,
                  "exp": {"aspect": "produced-content", "target": 4}, "must_build": True})

    def one(args, exe):
        return {"comps": [_comp("c", 0, exe, [[{"l": args}]])], "order": None, "mtime": None, "loc": "w"}
    cases.append({"kind": "pair", "base": one("a", "bexecutablec"), "variant": one("aexecutableb", "c"),
                  "exp": {"aspect": "collision", "target": 0, "how": "infix"}, "must_build": True})
    cases.append({"kind": "pair", "base": one("xexecutabl", "E"), "variant": one("x", "xecutableE"),
                  "exp": {"aspect": "collision", "target": 0, "how": "border"}, "must_build": True})
    return cases


def corpus_mult_cases():
    """two copies of a default configuration (two files, the same bytes) staged in by :copy against one copy;
    [X, X, Y] against [X, Y, Y]; the same reference stated twice"""
    def cfg(fn, content, method="copy", kind="data"):
        return {"kind": kind, "file": fn, "method": method, "prod": None, "abs": False, "content": content,
                "missing": False}

    def world(refs, extra=None):
        comps = [_comp("merge", 0, "sh", [[{"l": "-c"}], [{"l": "run"}]], refs)]
        return {"comps": comps + (extra or []), "order": None, "mtime": None, "loc": "w"}
    x, y = "tolerance: 1\n", "tolerance: 2\n"
    one = world([cfg("first.cfg", x)])
    two = world([cfg("first.cfg", x), cfg("second.cfg", x)])
    cases = [{"kind": "pair", "base": one, "variant": two,
              "exp": {"aspect": "mult:more", "target": 0, "source": "direct"}, "must_build": True}]
    xxy = world([cfg("a.cfg", x), cfg("b.cfg", x), cfg("c.cfg", y)])
    xyy = world([cfg("a.cfg", x), cfg("b.cfg", y), cfg("c.cfg", y)])
    cases.append({"kind": "pair", "base": xxy, "variant": xyy,
                  "exp": {"aspect": "mult:rebalance", "target": 0, "source": "direct"}, "must_build": True})
    twin = world([cfg("first.cfg", x)], [_comp("merge7", 0, "sh", [[{"l": "-c"}], [{"l": "run"}]],
                                               [cfg("first.cfg", x), cfg("second.cfg", x, kind="input")])])
    cases.append({"kind": "pair", "base": one, "variant": twin,
                  "exp": {"aspect": "mult:twin-more", "target": 0, "twin": 1, "source": "direct"}, "must_build": True})
    again = copy.deepcopy(two)
    again["comps"][0]["restate"] = [0]
    cases.append({"kind": "pair", "base": two, "variant": again, "exp": {"aspect": "mult:restated", "target": 0},
                  "must_build": True})
    # empty marker files produced by one component, linked by the consumer: 2 against 3
    def link(f, m="link"):
        return {"kind": "comp", "file": f, "method": m, "prod": 0, "abs": False, "same_stage": True, "content": None,
                "missing": False}
    p2 = {"comps": [_comp("gen", 0, "/bin/echo", [[{"l": "hello"}]], out={"m0": "", "m1": "", "m2": ""}),
                    _comp("wait", 0, "/bin/cat", [[{"l": "go"}]], [link("m0"), link("m1")])],
          "order": None, "mtime": None, "loc": "w"}
    p3 = copy.deepcopy(p2)
    p3["comps"][1]["refs"].append(link("m2"))
    cases.append({"kind": "pair", "base": p2, "variant": p3,
                  "exp": {"aspect": "mult:more", "target": 1, "source": "produced"}, "must_build": True})
    both = copy.deepcopy(p2)
    both["comps"][1]["restate"] = [0, 1]
    cases.append({"kind": "pair", "base": p2, "variant": both, "exp": {"aspect": "mult:restated", "target": 1},
                  "must_build": True})
    return cases


# ----------------------------------------------------------------------------------------
# sessions: the per-object cache of the hashes, and the code that reads hashes while files are being written
# ----------------------------------------------------------------------------------------
# A ComponentSpecification remembers the first hash it could compute (until memoization_reset()).  That is sound only
# if nobody asks for the hash of a component before the files it stands on are final.  Two kinds of sessions:
#   controller  the REAL Controller (harness/detsim.py: real run loop, real finishedCheck / _schedule / can_memoize /
#               status reports, stand-in engines) with a CDB stand-in runs the experiment; the "tasks" write their
#               output files in pieces (half-written output when the task starts, leftovers of an earlier attempt, the
#               final bytes just before the task exits); read-only entry points (status reports) are called at chosen
#               moments.  Oracle (property text, model independent): the hash the controller uses to look a component up
#               in the CDB, and the hash the component ends the run with (what is published for it), is the hash an
#               identical component has over the files as they are AT THAT MOMENT (a second Experiment object over the
#               same instance directory, caches reset).
#   object      one experiment object: hashes are asked through the public properties (memoization_hash / _info /
#               _hash_fuzzy / _info_fuzzy) of chosen nodes, interleaved with file changes and memoization_reset() of
#               chosen nodes: no oracle between resets (the cache is the documented design), after a reset of every node
#               the answers are those of the current files; model comparison throughout.
# Model: Hash.runS (Model/HashCache.lean): file system + two caches; events write / remove / compute(flavour, j)
# (one evaluation of _compute_memoization_info, in the order in which the evaluations return) / reset(j).
#
# case = {"kind": "session", "mode": "controller"|"object", "spec": spec, "seed": int, "fuzzy": bool}

class FakeCDB:
    """stands in for the centralised database: remembers what it is asked, knows no past component"""

    def __init__(self):
        self.queries = []

    def cdb_get_document_component(self, query=None, **kwargs):
        self.queries.append(dict(query or {}))
        return []


def session_spec(rng):
    """a world for a session (see _session_spec) in which no component writes an output file under a name that it also
    stages in by :copy / :link (the task would write through the link into the directory of its finished producer)"""
    while True:
        spec = _session_spec(rng)
        clash = False
        for c in spec["comps"]:
            staged = {os.path.basename(r["file"]) for r in c["refs"] if r["file"] and r["method"] in NOARG_ALL}
            staged |= {spec["comps"][r["prod"]]["name"] for r in c["refs"]
                       if r["kind"] == "comp" and not r["file"] and r["method"] in NOARG_ALL}
            if staged & set(c.get("out") or {}):
                clash = True
        if not clash:
            return spec


def _session_spec(rng):
    """a world for a session: no replication, direct files under data/ (the deterministic runtime builds the experiment
    from a package), every component that is consumed has output files; often a consumer of >= 2 producers"""
    shape = rng.choice(["fanin", "fanin", "chain", "world"])
    if shape == "chain":
        spec = gen_chain_world(rng)
    elif shape == "world":
        spec = gen_world(rng, allow_repl=False)
    else:
        n = rng.randint(2, 3)
        names = rng.sample(NAMES, n + 2)
        comps = []
        for i in range(n):
            comps.append(_comp(names[i], 0, rng.choice(EXES), [[{"l": rng.choice(WORDS)}]],
                               out={"out.txt": rng.choice(["one\n", "part\nrest\n", "1 2 3", "x" * 70])}))
        refs = []
        cstage = rng.choice([0, 0, 1])
        for i in range(n):
            m = rng.choice(["ref", "ref", "copy", "output"])
            refs.append({"kind": "comp", "file": "out.txt", "method": m, "prod": i,
                         "abs": cstage != 0 or rng.random() < 0.5, "content": None, "missing": False})
        args = [[{"r": k}] for k, r in enumerate(refs) if r["method"] in ARG_METHODS] or [[{"l": "go"}]]
        comps.append(_comp(names[n], cstage, "/bin/cat", args, refs, out={"r.csv": "R"}))
        last = {"kind": "comp", "file": None, "method": "ref", "prod": n, "abs": True, "content": None, "missing": False}
        comps.append(_comp(names[n + 1], comps[n]["stage"], "/bin/ls", [[{"r": 0}]], [last]))
        spec = {"comps": comps, "order": None, "mtime": None, "loc": "w"}
    for c in spec["comps"]:
        c["replicate"] = None
        c["aggregate"] = False
        for r in c["refs"]:
            if r["kind"] == "input":
                r["kind"] = "data"
                r["file"] = "in_" + r["file"]
            r["missing"] = False
    pool = {}
    for c in spec["comps"]:
        for r in c["refs"]:
            if r["kind"] == "data":
                r["content"] = pool.setdefault(r["file"], r["content"] if r["content"] is not None else "AAA")
            elif r["file"] or r["method"] == "output":
                fn = r["file"] or "out.stdout"
                if spec["comps"][r["prod"]]["out"].get(fn) is None:
                    spec["comps"][r["prod"]]["out"][fn] = rng.choice(CONTENTS[:2])
    return spec


def partial_of(rng, final):
    """what a task that is still writing may have put there"""
    k = rng.random()
    if final and k < 0.6:
        return final[:max(1, len(final) // 2)] if len(final) > 1 else final + "~"
    if k < 0.8:
        return "tmp#" + final[::-1]
    return ""


class SessionLog:
    def __init__(self, world):
        self.world = world            # shadow world: the truth
        self.events = []              # model events
        self.seen = []                # what the real code answered, aligned with self.events
        self.contents = set()

    def write(self, path, content):
        with open(path, "w") as fh:
            fh.write(content)
        n = fs_node(path)
        self.contents.add(content)
        self.events.append({"op": "write", "path": self.world.sym(path), "content": content, "mtime": n["mtime"],
                            "ino": n["ino"]})
        self.seen.append(None)

    def remove(self, path):
        if os.path.isfile(path):
            os.remove(path)
            self.events.append({"op": "remove", "path": self.world.sym(path)})
            self.seen.append(None)

    def truth(self):
        """hashes of every node over the files as they are now (second experiment object, caches reset)"""
        o = self.world.observe(symbolic=True)
        self.contents |= o["contents"]
        return {n["id"]: n for n in o["nodes"]}, o


class ComputeTap:
    """records every evaluation of ComponentSpecification._compute_memoization_info on the watched objects, in the
    order in which the evaluations RETURN (producers before their consumers)"""

    def __init__(self, log, specs_by_id, index):
        G = _imports()[0]
        self.G, self.log, self.specs, self.index = G, log, specs_by_id, index
        self.real = G.ComponentSpecification.__dict__.get("_compute_memoization_info")
        self.active = self.real is not None

    def __enter__(self):
        if not self.active:
            return self
        tap, real, to_hash = self, self.real, self.G.ComponentSpecification._memoization_info_to_hash

        def wrapped(cs, fuzzy=False):
            info = real(cs, fuzzy)
            node = tap.specs.get(id(cs))
            if node is not None:
                tap.log.events.append({"op": "compute", "fuzzy": bool(fuzzy), "j": tap.index[node]})
                tap.log.seen.append(to_hash(copy.deepcopy(info)) if info else None)
            return info
        self.G.ComponentSpecification._compute_memoization_info = wrapped
        return self

    def __exit__(self, *a):
        if self.active:
            self.G.ComponentSpecification._compute_memoization_info = self.real


def session_paths(world, spec):
    """node id -> {file name: path} of the output files of the specification"""
    res = {}
    for n in world.order:
        node = world.g.nodes[n]
        cid = node["componentSpecification"].identification
        ci, _rep = comp_of_node(spec, cid.stageIndex, cid.componentName)
        res[n] = (ci, {fn: os.path.join(node["componentInstance"].directory, fn)
                       for fn, content in (spec["comps"][ci].get("out") or {}).items() if content is not None})
    return res


def run_controller_session(case, tmp):
    """the real Controller runs the experiment; returns {"lookups": […], "final": […], "request": model request, …}"""
    import random
    _imports()
    import experiment.model.data as D
    from harness import detsim
    spec = case["spec"]
    rng = random.Random(case["seed"])
    data = {"data/" + r["file"]: r["content"] for c in spec["comps"] for r in c["refs"] if r["kind"] == "data"}
    root = tempfile.mkdtemp(prefix="s-", dir=tmp)
    cwd = os.getcwd()
    sim = None
    try:
        sim = detsim.Sim(flowir_of(spec), root, {}, extra_files=data)
        ctl = sim.controller
        cdb = FakeCDB()
        ctl.cdb = cdb
        ctl._memoization_fuzzy = bool(case.get("fuzzy"))
        try:
            shadow = D.Experiment.experimentFromInstance(sim.exp.instanceDirectory.location)
            shadow.validateExperiment(checkExecutables=False)
        finally:
            os.chdir(cwd)
        world = World.over(spec, shadow)
        log = SessionLog(world)
        outs = session_paths(world, spec)
        specs_by_id = {id(sim.exp.experimentGraph.graph.nodes[n]["componentSpecification"]): n for n in world.order}
        # leftovers of an earlier attempt
        for n in world.order:
            for fn, path in sorted(outs[n][1].items()):
                if rng.random() < 0.2:
                    log.write(path, "old#" + spec["comps"][outs[n][0]]["out"][fn])
        first_truth, first = log.truth()
        fs0 = dict(first["fs"])
        for n in world.order:
            for path in outs[n][1].values():
                fs0.setdefault(world.sym(path), fs_node(path))
        n_leftover = len(log.events)
        lookups = []
        probes = [0]

        def on_launch(ref):
            for fn, path in sorted(outs.get(ref, (None, {}))[1].items()):
                final = spec["comps"][outs[ref][0]]["out"][fn]
                how = rng.choice(["partial", "partial", "partial", "none", "final"])
                if how == "partial":
                    log.write(path, partial_of(rng, final))
                elif how == "final":
                    log.write(path, final)

        def on_exit(ref, reason):
            for fn, path in sorted(outs.get(ref, (None, {}))[1].items()):
                log.write(path, spec["comps"][outs[ref][0]]["out"][fn])
        sim.launch_hook = on_launch
        sim.exit_hook = on_exit
        real_can = ctl.can_memoize

        def can_memoize(component, fuzzy):
            ref = component.specification.reference
            truth, _o = log.truth()
            before = len(cdb.queries)
            res = real_can(component, fuzzy)
            field = "memoization-hash-fuzzy" if fuzzy else "memoization-hash"
            used = cdb.queries[before].get(field) if len(cdb.queries) > before else None
            want = (truth.get(ref) or {}).get("fuzzy" if fuzzy else "strong")
            lookups.append({"node": ref, "fuzzy": bool(fuzzy), "used": used, "current": want,
                            "queries": len(cdb.queries) - before})
            if ref in world.index:
                log.events.append({"op": "get", "fuzzy": bool(fuzzy), "j": world.index[ref]})
                log.seen.append(used)
            return res
        ctl.can_memoize = can_memoize
        weights = rng.choice([dict(exit=3, fin=3, pm=3, sched=2), dict(exit=1, fin=6, pm=6, sched=3),
                              dict(exit=8, fin=1, pm=1, sched=1), dict(exit=2, fin=2, pm=0.5, sched=5)])
        p_probe = rng.choice([0.0, 0.15, 0.4])
        p_rewrite = rng.choice([0.0, 0.1, 0.3])
        count = [0]

        def chooser(s):
            count[0] += 1
            if count[0] > 400:
                return None
            if rng.random() < p_probe:
                probes[0] += 1
                k = rng.randrange(4)
                if k == 0:
                    ctl.generate_status_report_for_nodes(components=None, filter_done=True)
                elif k == 1:
                    ctl.generate_status_report_for_nodes(components=None, filter_done=False)
                elif k == 2:
                    ctl.generate_status_report_for_nodes(components=list(rng.sample(s.refs, rng.randint(1, len(s.refs)))))
                else:
                    try:
                        ctl.get_stage_status(s.stage_no)
                    except Exception:
                        pass
            running = [s.refs[i] for i in s.running()]
            if running and rng.random() < p_rewrite:
                ref = rng.choice(running)
                for fn, path in sorted(outs.get(ref, (None, {}))[1].items()):
                    log.write(path, partial_of(rng, spec["comps"][outs[ref][0]]["out"][fn]))
            cands = s.enabled()
            ws = [weights.get(op[0], weights["fin"]) for op in cands]
            cands.append(["sched"])
            ws.append(weights["sched"] if len(cands) > 1 else 1000)
            return rng.choices(cands, ws)[0]

        import contextlib
        with ComputeTap(log, specs_by_id, world.index) as tap, \
                (debug_logging() if case.get("debug") else contextlib.nullcontext()):
            result = sim.run(chooser)
            # what the run leaves behind for every component (annotate_component_documents publishes these)
            truth, last = log.truth()
            final = []
            for ref in world.order:
                comp = sim.comp.get(ref)
                if comp is None:
                    continue
                for fuzzy in (False, True):
                    got = comp.memoization_hash_fuzzy if fuzzy else comp.memoization_hash
                    final.append({"node": ref, "fuzzy": fuzzy, "used": got,
                                  "current": truth[ref]["fuzzy" if fuzzy else "strong"]})
                    log.events.append({"op": "get", "fuzzy": fuzzy, "j": world.index[ref]})
                    log.seen.append(got)
        states = {r: sim.state_name(r) for r in sim.refs}
        for ev in log.events:
            if ev["op"] == "write":
                log.contents.add(ev["content"])
        for n_ in fs0.values():
            if n_ and n_["kind"] == "file":
                log.contents.add(n_["content"])
        request = {"op": "session", "bps": first["bps"], "comps": first["scomps"],
                   "fs": [[p_, fs0[p_]] for p_ in sorted(fs0) if fs0[p_] is not None],
                   "events": log.events[n_leftover:], "md5": sorted([c, md5s(c)] for c in log.contents)}
        return {"result": result, "states": states, "lookups": lookups, "final": final, "request": request,
                "seen": log.seen[n_leftover:], "tapped": tap.active, "probes": probes[0], "ops": sim.ops(),
                "writes": sum(1 for e in log.events if e["op"] == "write")}
    finally:
        if sim is not None:
            sim.close()
        os.chdir(cwd)
        shutil.rmtree(root, ignore_errors=True)


def run_object_session(case, tmp):
    """one experiment object: public hash properties of chosen nodes, file changes, resets of chosen nodes"""
    import random
    _imports()
    import experiment.model.data as D
    spec = case["spec"]
    rng = random.Random(case["seed"])
    live = World(spec, tmp)
    cwd = os.getcwd()
    try:
        try:
            shadow = D.Experiment.experimentFromInstance(live.inst)
            shadow.validateExperiment(checkExecutables=False)
        finally:
            os.chdir(cwd)
        world = World.over(spec, shadow)
        log = SessionLog(world)
        outs = session_paths(world, spec)
        files = sorted(p for n in world.order for p in outs[n][1].values())
        for c in spec["comps"]:
            for r in c["refs"]:
                if r["kind"] == "data":
                    files.append(os.path.join(live.inst, "data", r["file"]))
        files = sorted(set(files))
        _t, first = log.truth()
        fs0 = dict(first["fs"])
        for path in files:
            fs0.setdefault(world.sym(path), fs_node(path))
        specs = {n: live.g.nodes[n]["componentSpecification"] for n in world.order}
        specs_by_id = {id(cs): n for n, cs in specs.items()}
        answers = []
        clean = True      # no file changed since the last reset of every node
        with ComputeTap(log, specs_by_id, world.index) as tap:
            for _ in range(rng.randint(4, 12)):
                k = rng.random()
                if k < 0.45:
                    n = rng.choice(world.order)
                    via = rng.choice(["memoization_hash", "memoization_hash_fuzzy", "memoization_info",
                                      "memoization_info_fuzzy"])
                    fuzzy = via.endswith("fuzzy")
                    got = getattr(specs[n], via)
                    if via.startswith("memoization_info"):
                        got = _imports()[0].ComponentSpecification._memoization_info_to_hash(got)
                    log.events.append({"op": "get", "fuzzy": fuzzy, "j": world.index[n]})
                    log.seen.append(got)
                    truth, _o = log.truth()
                    answers.append({"node": n, "via": via, "fuzzy": fuzzy, "used": got, "clean": clean,
                                    "current": truth[n]["fuzzy" if fuzzy else "strong"]})
                elif k < 0.75 and files:
                    path = rng.choice(files)
                    if os.path.isfile(path) and rng.random() < 0.2:
                        log.remove(path)
                    else:
                        old = fs_node(path)
                        log.write(path, mutate_other_length(rng, old["content"]) if old else rng.choice(CONTENTS))
                    clean = False
                elif k < 0.9:
                    n = rng.choice(world.order)
                    specs[n].memoization_reset()
                    log.events.append({"op": "reset", "j": world.index[n]})
                    log.seen.append(None)
                else:
                    for n in world.order:
                        specs[n].memoization_reset()
                        log.events.append({"op": "reset", "j": world.index[n]})
                        log.seen.append(None)
                    clean = True
        for ev in log.events:
            if ev["op"] == "write":
                log.contents.add(ev["content"])
        for n_ in fs0.values():
            if n_ and n_["kind"] == "file":
                log.contents.add(n_["content"])
        request = {"op": "session", "bps": first["bps"], "comps": first["scomps"],
                   "fs": [[p_, fs0[p_]] for p_ in sorted(fs0) if fs0[p_] is not None],
                   "events": log.events, "md5": sorted([c, md5s(c)] for c in log.contents)}
        return {"answers": answers, "request": request, "seen": log.seen, "tapped": tap.active}
    finally:
        live.close()


def check_sessions(ctx, cases):
    tmp = tempfile.mkdtemp(prefix="c16s-")
    done = []
    try:
        for case in cases:
            try:
                res = (run_controller_session if case["mode"] == "controller" else run_object_session)(case, tmp)
            except Exception as exc:  # the generated package was rejected: not a case of this property
                ctx.tag("rejected:" + type(exc).__name__)
                if case.get("must_build"):
                    ctx.fail("corpus-case-does-not-build", case, {"error": repr(exc)[:400]})
                continue
            done.append((case, res))
    finally:
        shutil.rmtree(tmp, ignore_errors=True)
    answers = model_sessions(ctx, [r["request"] for _c, r in done])
    for idx, (case, res) in enumerate(done):
        spec = case["spec"]
        fanin = max([len({r["prod"] for r in c["refs"] if r["kind"] == "comp"}) for c in spec["comps"]] or [0])
        if case["mode"] == "controller":
            tags = ["session:controller", "session:fanin-%d" % min(fanin, 3), "session:result-" + str(res["result"]),
                    "session:probes" if res["probes"] else "session:no-probes",
                    "session:fuzzy-lookups" if case.get("fuzzy") else "session:strong-lookups",
                    "session:log-debug" if case.get("debug") else "session:log-off"]
            ctx.case(case, nontrivial=bool(res["lookups"]) and res["writes"] >= 1 and fanin >= 1, tags=tags)
            detail = {"lookups": res["lookups"], "final": res["final"], "ops": res["ops"], "states": res["states"]}
            if res["result"] != "ok" or any(st != "finished" for st in res["states"].values()):
                ctx.tag("session:run-did-not-complete")
            for lk in res["lookups"]:
                if lk["used"] != lk["current"]:
                    ctx.fail("lookup-hash-is-not-the-hash-of-the-current-contents", case, dict(detail, lookup=lk))
                    break
            for fin in res["final"]:
                if fin["used"] != fin["current"]:
                    ctx.fail("hash-after-the-run-is-not-the-hash-of-the-final-contents", case, dict(detail, node=fin))
                    break
        else:
            ctx.case(case, nontrivial=len(res["answers"]) >= 2 and any(e["op"] in ("write", "remove")
                                                                     for e in res["request"]["events"]),
                     tags=["session:object"] + sorted({"session:via-" + a["via"] for a in res["answers"]}))
            for a in res["answers"]:
                if a["clean"] and a["used"] != a["current"]:
                    ctx.fail("hash-after-reset-is-not-the-hash-of-the-current-contents", case,
                             {"answer": a, "answers": res["answers"]})
                    break
        if answers is None or not res["tapped"]:
            ctx.tag("session:no-model-comparison")
            continue
        if case["mode"] == "controller":
            # hypothesis of C16.session_hashes_are_current, checked by the model on what the real Controller did:
            # no file changed under the producer cone of a hash that was remembered at that moment
            ctx.compare("the evaluations and file changes of a run of the real Controller keep the discipline of "
                        "C16.session_hashes_are_current (Hash.disciplinedB) in a topological numbering",
                        {"case": case, "which": "discipline"},
                        {"disciplined": answers[idx]["disciplined"], "wellOrdered": answers[idx]["wellOrdered"]},
                        {"disciplined": True, "wellOrdered": True})
        else:
            ctx.tag("session:object-disciplined" if answers[idx]["disciplined"] else "session:object-undisciplined")
        model = [None if (a is None or a is False) else a["hash"] for a in answers[idx]["events"]]
        evs = res["request"]["events"]
        m_out = [[e["op"], e.get("fuzzy"), e.get("j"), model[k]] for k, e in enumerate(evs) if e["op"] in ("compute", "get")]
        i_out = [[e["op"], e.get("fuzzy"), e.get("j"), res["seen"][k]] for k, e in enumerate(evs) if e["op"] in ("compute", "get")]
        ctx.compare("every evaluation of _compute_memoization_info and every hash read during a session == "
                    "Hash.runS (file system + per-object caches; md5 := hashlib table)",
                    {"case": case, "which": "session"}, m_out, i_out)


def model_sessions(ctx, requests):
    """fixed point of the md5 table for session requests"""
    if ctx.driver is None or not requests:
        return None
    tables = [dict((p_, d) for p_, d in r["md5"]) for r in requests]
    answers = [None] * len(requests)
    todo = list(range(len(requests)))
    for _round in range(12):
        if not todo:
            break
        reqs = []
        for i in todo:
            r = dict(requests[i])
            r["md5"] = sorted([p_, d] for p_, d in tables[i].items())
            reqs.append(r)
        outs = ctx.model(reqs)
        nxt = []
        for i, o in zip(todo, outs):
            answers[i] = o
            changed = False
            for e in o.get("events", []):
                if e and e.get("ser") is not None and e["ser"] not in tables[i]:
                    tables[i][e["ser"]] = md5s(e["ser"])
                    changed = True
            if changed:
                nxt.append(i)
        todo = nxt
    return answers


def corpus_sessions():
    """`fast` and `slow` feed `consumer`; the outputs are half-written when the tasks start"""
    def link(p, m="ref"):
        return {"kind": "comp", "file": "out.txt", "method": m, "prod": p, "abs": False, "content": None, "missing": False}
    spec = {"comps": [_comp("fast", 0, "sh", [[{"l": "-c"}]], out={"out.txt": "one\n"}),
                      _comp("slow", 0, "sh", [[{"l": "-c"}], [{"l": "x"}]], out={"out.txt": "part\nrest\n"}),
                      _comp("consumer", 0, "cat", [[{"r": 0}], [{"r": 1}]], [link(0), link(1)], out={"r.csv": "R"}),
                      _comp("last", 0, "/bin/ls", [[{"r": 0}]],
                            [{"kind": "comp", "file": None, "method": "ref", "prod": 2, "abs": True, "content": None,
                              "missing": False}])],
            "order": None, "mtime": None, "loc": "w"}
    return [{"kind": "session", "mode": "controller", "spec": spec, "seed": k, "fuzzy": bool(k % 2), "must_build": True}
            for k in range(6)] + \
           [{"kind": "session", "mode": "object", "spec": spec, "seed": k, "must_build": True} for k in range(2)]


def gen_sessions(rng, n_ctl, n_obj):
    cases = []
    for _ in range(n_ctl):
        spec = session_spec(rng)
        for _k in range(2):
            cases.append({"kind": "session", "mode": "controller", "spec": spec, "seed": rng.randint(0, 10 ** 6),
                          "fuzzy": rng.random() < 0.4, "debug": rng.random() < 0.3})
    for _ in range(n_obj):
        cases.append({"kind": "session", "mode": "object", "spec": session_spec(rng), "seed": rng.randint(0, 10 ** 6)})
    return cases


def corpus_chain_cases():
    """consumer -> working directory of `middle` (in the arguments) -> file of `gen`: the file of `gen` is missing, the
    data file of `gen` is missing (three levels up)"""
    def link(p, f=None, m="ref"):
        return {"kind": "comp", "file": f, "method": m, "prod": p, "abs": True, "content": None, "missing": False}
    cfg = {"kind": "data", "file": "conf.json", "method": "copy", "prod": None, "abs": False, "content": "1 2 3",
           "missing": False}
    base = {"comps": [_comp("gen", 0, "/bin/echo", [[{"l": "hello"}]], [dict(cfg)], out={"out.txt": "AAA"}),
                      _comp("middle", 0, "/bin/cat", [[{"r": 0}]], [link(0, "out.txt")], out={"r.csv": "BBB"}),
                      _comp("consumer", 0, "/bin/ls", [[{"l": "-l"}], [{"r": 0}]], [link(1)]),
                      _comp("last", 1, "/bin/cat", [[{"l": "x="}, {"r": 0}]], [link(2)])],
            "order": None, "mtime": None, "loc": "w"}
    v1 = copy.deepcopy(base)
    v1["comps"][0]["out"]["out.txt"] = None
    v2 = copy.deepcopy(base)
    v2["comps"][0]["refs"][0]["missing"] = True
    return [{"kind": "pair", "base": base, "variant": v1,
             "exp": {"aspect": "missing-produced", "target": 3, "missing_at": 1}, "must_build": True},
            {"kind": "pair", "base": base, "variant": v2,
             "exp": {"aspect": "missing-input", "target": 3, "missing_at": 0}, "must_build": True}]


def corpus_mult_histories():
    """three copied files [X, X, Y]: one of the X files receives the bytes of Y ([X, Y, Y]: another multiset, the
    same set), then the third one receives X ([X, Y, X]: the multiset of the beginning)"""
    def cfg(fn, content):
        return {"kind": "data", "file": fn, "method": "copy", "prod": None, "abs": False, "content": content,
                "missing": False}
    x, y = "tolerance: 1\n", "tolerance: 2\n"
    spec = {"comps": [_comp("merge", 0, "sh", [[{"l": "-c"}], [{"l": "run"}]],
                            [cfg("a.cfg", x), cfg("b.cfg", x), cfg("c.cfg", y)])],
            "order": None, "mtime": None, "loc": "w"}
    steps = [{"op": "write", "file": ["data", "b.cfg"], "content": y, "how": "inplace", "mtime": "keep"},
             {"op": "write", "file": ["data", "c.cfg"], "content": x, "how": "replace", "mtime": "same-second"},
             {"op": "reload"},
             {"op": "write", "file": ["data", "a.cfg"], "content": y, "how": "inplace", "mtime": "keep", "order": 3}]
    return [{"kind": "history", "spec": spec, "steps": steps, "must_build": True}]


def gen_chain_world(rng):
    """a chain of 3-5 components, each consuming something of the previous one - the working directory named in the
    arguments, a file named in the arguments, the standard output, a file or the directory staged in by :copy / :link -
    (+ sometimes a side producer and direct files), all files present"""
    n = rng.randint(3, 5)
    names = rng.sample(NAMES, n)
    stage = 0
    comps = []
    for i in range(n):
        if i and rng.random() < 0.25:
            stage += 1
        c = _comp(names[i], stage, rng.choice(EXES), [[{"l": rng.choice(WORDS)}] for _ in range(rng.randint(0, 2))])
        if i == 0 or rng.random() < 0.3:
            kind = rng.choice(["input", "data"])
            c["refs"].append({"kind": kind, "file": rng.choice(FILES[:4]) if kind == "input" else rng.choice(FILES[4:]),
                              "method": rng.choice(["ref", "copy", "ref"]), "prod": None, "abs": False,
                              "content": None, "missing": False})
        if i:
            prods = [i - 1] + ([rng.randrange(i)] if rng.random() < 0.3 else [])
            for j in sorted(set(prods)):
                shape = rng.choice(["dir-ref"] * 5 + ["file-ref", "file-ref", "stdout", "file-copy", "dir-copy"])
                r = {"kind": "comp", "file": None, "method": "ref", "prod": j,
                     "abs": comps[j]["stage"] != stage or rng.random() < 0.4, "content": None, "missing": False}
                if shape in ("file-ref", "file-copy"):
                    r["file"] = rng.choice(FILES)
                    r["method"] = rng.choice(["ref", "output"]) if shape == "file-ref" else rng.choice(["copy", "link"])
                    comps[j]["out"].setdefault(r["file"], rng.choice(CONTENTS))
                elif shape == "stdout":
                    r["method"] = "output"
                    comps[j]["out"].setdefault("out.stdout", rng.choice(CONTENTS))
                elif shape == "dir-copy":
                    r["method"] = "copy"
                c["refs"].append(r)
        for k, r in enumerate(c["refs"]):
            if r["method"] in ARG_METHODS:
                part = [{"l": rng.choice(PREFIXES)}, {"r": k}]
                c["args"].insert(rng.randint(0, len(c["args"])), [seg for seg in part if seg.get("l") != ""])
        comps.append(c)
    # the contents of direct files are per (kind, file)
    pool = {}
    for c in comps:
        for r in c["refs"]:
            if r["kind"] in ("input", "data"):
                r["content"] = pool.setdefault((r["kind"], r["file"]), rng.choice(CONTENTS))
    return {"comps": comps, "order": None, "mtime": None, "loc": "w"}


def gen_chain_pairs(rng, nworlds, per_world):
    """chains of producers: a file is missing at some level, the executable / the name / the output of a producer up
    the chain changes"""
    pairs = []
    for _ in range(nworlds):
        base = gen_chain_world(rng)
        t = len(base["comps"]) - 1
        made = 0
        for aspect in rng.sample(["missing-input", "missing-produced", "missing-input", "missing-produced",
                                  "producer-exe", "producer-name", "produced-content", "name", "location"], 9):
            res = make_variant(rng, base, aspect, rng.choice([t, t, t - 1]))
            if res is not None:
                pairs.append({"kind": "pair", "base": base, "variant": res[0], "exp": res[1]})
                made += 1
            if made >= per_world:
                break
    return pairs


# ----------------------------------------------------------------------------------------
# where the executable comes from: the specification as the author wrote it / the validated live configuration
# ----------------------------------------------------------------------------------------
# Experiment.validateExperiment(checkExecutables=True) - run by elaunch before anything executes - calls
# ComponentSpecification.checkExecutable(updateSpecification=True) on every node: pathless executables are looked up in
# the PATH of the component environment (which may name directories INSIDE the instance: $INSTANCE_DIR/bin), links are
# resolved (/bin/ls -> /usr/bin/ls), and the resolved absolute path is written into the live configuration.  The
# property: same executable, same arguments, same files => same hash; the hash does not depend on where the instance
# lives.  So: hashes before == hashes after validation; the same package validated at two places hashes the same; a
# replica (whose executable is read from its blueprint) and a non-replicated component doing the same work hash the
# same; all the one-aspect pairs hold on validated experiments too.

TOOLS = {"tool.sh": "#!/bin/sh\ncat \"$@\"\n", "c16tool": "#!/bin/sh\necho \"$@\"\n"}
EXES_V = ["/bin/ls", "/bin/cat", "/usr/bin/env", "echo", "cat", "sh", "tool.sh", "tool.sh", "c16tool", "c16tool",
          "bin/tool.sh", "bin/c16tool", "python", "sander", "exe2"]
PATHS = ["$INSTANCE_DIR/bin:$PATH", "$INSTANCE_DIR/bin:$PATH", "$INSTANCE_DIR/bin:/usr/bin:/bin",
         "$PATH:$INSTANCE_DIR/bin", "/usr/bin:$INSTANCE_DIR/bin"]


def exe_world(rng, chain=False):
    """a world of the general family whose executables are pathless system tools, pathless tools shipped in the bin/
    directory of the package (found through the PATH of the component environment, which names $INSTANCE_DIR/bin),
    absolute paths through a link, paths relative to the instance, and executables that do not exist"""
    spec = gen_chain_world(rng) if chain else gen_world(rng)
    for c in spec["comps"]:
        if c["backend"].get("kind") in ("kubernetes", "docker"):      # their check would start a container
            c["backend"] = rng.choice([{"kind": "local"}, {"kind": "lsf", "image": rng.choice(IMAGES + [None])}])
        c["exe"] = rng.choice(EXES_V)
        c["env"] = rng.random() < 0.7
    spec["tools"] = dict(TOOLS)
    if rng.random() < 0.4:
        spec["tools"]["cat"] = "#!/bin/sh\nexec /bin/cat \"$@\"\n"   # shadows the system tool where bin/ comes first
    spec["path"] = rng.choice(PATHS)
    return spec


def gen_exe_pairs(rng, nworlds):
    pairs = []

    def emit(base, res):
        if res is not None:
            pairs.append({"kind": "pair", "base": base, "variant": res[0], "exp": res[1]})

    for _ in range(nworlds):
        plain = exe_world(rng, chain=rng.random() < 0.3)
        n = len(plain["comps"])
        weights = [1 + 2 * len(c["refs"]) + 2 * chain_len(plain, i) for i, c in enumerate(plain["comps"])]
        pick = lambda: rng.choices(range(n), weights=weights)[0]
        valid = dict(copy.deepcopy(plain), validate=True)
        # before against after validation
        emit(plain, make_variant(rng, plain, "validation", pick()))
        # the same package validated at two places
        emit(valid, make_variant(rng, valid, "location", pick()))
        # a replicated twin (its executable is read from the blueprint) on a validated / an unvalidated experiment
        for base in (valid, plain if rng.random() < 0.3 else valid):
            free = [i for i, c in enumerate(base["comps"]) if not c.get("replicate") and not c.get("aggregate")]
            if free:
                emit(base, make_variant(rng, base, "twin-replicated", rng.choice(free)))
        # the one-aspect pairs on validated experiments
        for aspect in rng.sample(["name", "stage", "order", "mtime", "file-name", "producer-name", "exe", "args",
                                  "input-content", "produced-content", "producer-exe", "twin-same", "twin-exe",
                                  "missing-input"], 4):
            emit(valid, make_variant(rng, valid, aspect, pick()))
    return pairs


def corpus_exe_cases():
    """`single` and the replicated `many` run the tool shipped in bin/ (found through PATH: $INSTANCE_DIR/bin:$PATH) on
    the same input; `sys` a pathless system tool; `abs` an absolute path through a link: before / after validation, at
    two places, replica against non-replica"""
    inp = {"kind": "input", "file": "msg.txt", "method": "ref", "prod": None, "abs": False,
           "content": "the same input everywhere\n", "missing": False}

    def comp(name, exe, env=True, replicate=None):
        c = _comp(name, 0, exe, [[{"r": 0}]], [dict(inp)], replicate=replicate)
        c["env"] = env
        return c
    plain = {"comps": [comp("single", "tool.sh"), comp("sys", "echo", env=False), comp("abs", "/bin/cat", env=False)],
             "order": None, "mtime": None, "loc": "w", "tools": dict(TOOLS), "path": "$INSTANCE_DIR/bin:$PATH"}
    valid = dict(copy.deepcopy(plain), validate=True)
    moved = dict(copy.deepcopy(valid), loc="some/where/else")
    twin = copy.deepcopy(valid)
    twin["comps"].append(comp("many", "tool.sh", replicate=2))
    return [{"kind": "pair", "base": plain, "variant": valid, "exp": {"aspect": "validation", "target": 0},
             "must_build": True},
            {"kind": "pair", "base": valid, "variant": moved, "exp": {"aspect": "location", "target": 0},
             "must_build": True},
            {"kind": "pair", "base": valid, "variant": twin, "exp": {"aspect": "twin-replicated", "target": 0, "twin": 3},
             "must_build": True}]


def corpus_exe_histories():
    spec = corpus_exe_cases()[2]["variant"]
    spec = dict(copy.deepcopy(spec), validate=False)
    steps = [{"op": "validate"},
             {"op": "write", "file": ["input", "msg.txt"], "content": "another input\n", "how": "inplace", "mtime": "keep"},
             {"op": "validate", "order": 5},
             {"op": "reload"},
             {"op": "write", "file": ["input", "msg.txt"], "content": "the same input everywhere\n", "how": "replace",
              "mtime": "later"},
             {"op": "validate"}]
    return [{"kind": "history", "spec": spec, "steps": steps, "must_build": True}]


# ----------------------------------------------------------------------------------------
# reference spellings that contain each other
# ----------------------------------------------------------------------------------------
# `\b` of the substitution sees a boundary at every `-`: the spelling `prod/out.txt:ref` is, at word boundaries, the
# tail of `x-prod/out.txt:ref` (and of `stage0.x-prod/out.txt:ref`); `data/a.txt:ref` is the tail of the reference to
# the file a.txt of a producer called `my-data`.  Whatever the names: every reference stands for the content IT refers
# to, at the places where IT is written.

NEST_STEMS = ["prod", "calc", "sim3", "a1", "data", "input", "prod", "run0"]
NEST_PRE = ["x-", "a-", "my-", "y-", "u-", "B-", "zz-", "x-y-"]
NEST_CONTENTS = ["PPPP\n", "QQQQ\n", "RRRR\n", "SSS", "1 2 3", "hello\nworld\n"]
NEST_ASPECTS = ["producer-name", "producer-name", "producer-name", "content-swap", "content-swap", "content-swap",
                "produced-content", "order", "name", "location", "twin-same", "stage", "args", "method"]


def gen_nested_world(rng):
    stem = rng.choice(NEST_STEMS)
    direct = stem in ("data", "input")
    shape = "file" if direct else rng.choice(["file", "file", "file", "dir", "stdout"])
    method = rng.choice(["ref", "ref", "output"]) if shape == "file" else ("ref" if shape == "dir" else "output")
    fn = rng.choice(["out.txt", "r.csv", "a.txt"]) if shape == "file" else None
    pres = rng.sample(NEST_PRE, rng.choice([1, 2, 2, 3]))
    names = [p + stem for p in pres] + ([] if direct else [stem])
    rng.shuffle(names)
    contents = rng.sample(NEST_CONTENTS, len(pres) + 1)
    comps = []
    for nm, content in zip(names, contents):
        comps.append(_comp(nm, 0, rng.choice(["/bin/echo", "/bin/cat", "exe2"]), [[{"l": rng.choice(WORDS)}]],
                           out={(fn or ("out.stdout" if shape == "stdout" else "out.txt")): content}))
    refs = []
    for j, nm in enumerate(names):
        refs.append({"kind": "comp", "file": fn, "method": method, "prod": j,
                     "abs": nm != stem and rng.random() < 0.3, "content": None, "missing": False})
    if direct:
        refs.append({"kind": stem, "file": fn, "method": method, "prod": None, "abs": False,
                     "content": contents[-1], "missing": False})
    if rng.random() < 0.3:
        refs.append({"kind": rng.choice(["input", "data"]), "file": "conf.json", "method": rng.choice(["ref", "copy"]),
                     "prod": None, "abs": False, "content": "{}", "missing": False})
    parts = [[{"l": rng.choice(WORDS)}] for _ in range(rng.randint(0, 2))]
    for k, r in enumerate(refs):
        if r["method"] not in ARG_METHODS:
            continue
        for _ in range(rng.choice([1, 1, 1, 2])):
            part = []
            pre = rng.choice(PREFIXES)
            if pre:
                part.append({"l": pre})
            part.append({"r": k})
            suf = rng.choice(SUFFIXES).strip()
            if suf:
                part.append({"l": suf})
            parts.insert(rng.randint(0, len(parts)), part)
    cons = _comp(rng.choice(["consumer", "merge", "zz", "a"]), 0, rng.choice(["paste", "/bin/cat", "python"]), parts, refs)
    ro = list(range(len(refs)))
    rng.shuffle(ro)
    cons["reforder"] = ro
    comps.append(cons)
    return {"comps": comps, "order": None, "mtime": None, "loc": "w"}


def nested_fresh_name(rng, spec, old):
    """a new name for a producer: another prefix in front of the same stem, a prefix in front of the name of another
    component, the stem alone, or an unrelated name"""
    used = {c["name"] for c in spec["comps"]}
    cands = ["work", "calc7", "step7"]
    if "-" in old:
        rest = old.split("-", 1)[1]
        cands += [p + rest for p in ("u-", "v-", "A-", "zz-", "w-q-")] + [rest, rest.split("-")[-1]]
    for other in sorted(used - {old}):
        cands += [p + other for p in ("u-", "v-", "A-", "zz-")]
    cands = [nm for nm in cands if nm not in used]
    return rng.choice(cands)


def gen_nested_pairs(rng, nworlds, per_world):
    pairs = []
    for _ in range(nworlds):
        base = gen_nested_world(rng)
        t = len(base["comps"]) - 1
        made = 0
        tries = 0
        while made < per_world and tries < per_world * 4:
            tries += 1
            aspect = rng.choice(NEST_ASPECTS)
            if aspect == "producer-name":
                v = copy.deepcopy(base)
                p = rng.randrange(t)
                v["comps"][p]["name"] = nested_fresh_name(rng, v, v["comps"][p]["name"])
                res = (v, {"aspect": aspect, "target": t, "renamed": p})
            else:
                res = make_variant(rng, base, aspect, t)
            if res is None:
                continue
            pairs.append({"kind": "pair", "base": base, "variant": res[0], "exp": res[1]})
            made += 1
    return pairs


def corpus_nested_cases():
    """a consumer of three producers prod, x-prod, y-prod (relative spellings): the other two renamed; the contents of
    their files exchanged"""
    def link(p):
        return {"kind": "comp", "file": "out.txt", "method": "ref", "prod": p, "abs": False, "content": None,
                "missing": False}
    base = {"comps": [_comp("x-prod", 0, "/bin/echo", [[{"l": "first"}]], out={"out.txt": "PPPP\n"}),
                      _comp("y-prod", 0, "/bin/echo", [[{"l": "second"}]], out={"out.txt": "QQQQ\n"}),
                      _comp("prod", 0, "/bin/echo", [[{"l": "third"}]], out={"out.txt": "RRRR\n"}),
                      _comp("consumer", 0, "paste", [[{"l": "-d,"}], [{"r": 0}], [{"r": 1}], [{"r": 2}]],
                            [link(0), link(1), link(2)])],
            "order": None, "mtime": None, "loc": "w"}
    sw = copy.deepcopy(base)
    sw["comps"][0]["out"]["out.txt"], sw["comps"][1]["out"]["out.txt"] = "QQQQ\n", "PPPP\n"
    rn = copy.deepcopy(base)
    rn["comps"][0]["name"], rn["comps"][1]["name"] = "a-prod", "B-prod"
    return [{"kind": "pair", "base": base, "variant": sw, "must_build": True,
             "exp": {"aspect": "content-swap", "target": 3, "swapped": [["comp", 0, "out.txt"], ["comp", 1, "out.txt"]],
                     "direct": 0}},
            {"kind": "pair", "base": base, "variant": rn, "exp": {"aspect": "producer-name", "target": 3},
             "must_build": True}]


def gen_pairs(rng, nworlds, per_world, aspects=None, allow_repl=True):
    pairs = []
    for _ in range(nworlds):
        base = gen_world(rng, allow_repl=allow_repl) if not allow_repl else gen_world(rng)
        aspects = aspects or (RELEVANT + IRRELEVANT + OTHER)
        tries = 0
        made = 0
        while made < per_world and tries < per_world * 4:
            tries += 1
            aspect = rng.choice(aspects)
            # prefer components with references / at the end of chains as targets
            weights = [1 + 2 * len(c["refs"]) + 2 * chain_len(base, i) for i, c in enumerate(base["comps"])]
            t = rng.choices(range(len(base["comps"])), weights=weights)[0]
            res = make_variant(rng, base, aspect, t)
            if res is None:
                continue
            v, exp = res
            pairs.append({"kind": "pair", "base": base, "variant": v, "exp": exp})
            made += 1
    return pairs


def run(ctx):
    ctx.classifiers = CLASSIFIERS
    ctx.rule = ("case = pair (base experiment, variant differing in exactly one aspect) of real experiments with 1-5 "
                "components in 1-2 stages, 0-3 references per component (input/data files, produced files, producer "
                "directories, stdout; methods ref/output/copy/link; absolute and relative spellings; optional "
                "replication+aggregation; local/kubernetes/lsf/docker backends), aspects: 7 hash-relevant, 7 "
                "hash-irrelevant, 2 missing-input, 2 twin, collision, 8 multiplicity aspects (targets that consume 1-4 "
                "different input/data/produced files with identical contents through copy/link/extract/copyout: one "
                "more such file with the same / another method, [X,X,Y] against [X,Y,Y], 2 against 3 replicas of an "
                "aggregated producer, twins with one more / with other such files, a reference stated twice, a "
                "`./` spelling) and a cross oracle over all components of all experiments of the run whose references "
                "stay out of the arguments; non-trivial = the target component has >= 1 "
                "reference, or the aspect is exe/image/twin/collision; distinct by canonical JSON. Additionally "
                "info dictionaries for the static serialiser and strings for tokens / word-boundary substitution. "
                "Histories: one real experiment of the same family + 2-5 steps (rewrite a consumed input/data/produced "
                "file in place or by os.replace with bytes of the same or another length, modification time kept "
                "exactly / same second / later / earlier / now; write the original bytes back; exchange two files by "
                "renames; remove; touch one or all files; re-create the Experiment object over the instance; in "
                "experiments with several identical consumed files: give one file the bytes of another), all "
                "hashes recomputed after every step; non-trivial = some step changes, removes or exchanges a file and "
                "some component consumes a file. Chains: 3-5 components each consuming the working directory (named "
                "in the arguments or staged in), a file or the standard output of the previous one; a file is missing "
                "at any level of the chain (pairs and histories): no hash for every component whose hash stands on "
                "the hash of an un-hashable producer. A sample of every batch is built and hashed again at the end "
                "of the batch (other order, other place, DEBUG logging). Sessions: (controller) the real Controller "
                "with a CDB stand-in runs experiments of 3-6 components (fan-in of 1-3 producers, chains) under the "
                "deterministic runtime with random interleavings; tasks leave leftovers, half-written and rewritten "
                "outputs and write the final bytes at their exit; status reports are requested at random moments; "
                "logging off or DEBUG; every CDB look-up and every hash a component ends the run with is compared "
                "with the hash of a second Experiment object over the files of that moment; non-trivial = at least "
                "one look-up, one write and one producer; (object) 4-12 reads of the four public hash properties "
                "of random nodes interleaved with file changes and resets; non-trivial = two reads and a file change. "
                "Source of the executable: worlds of the same families (local / lsf backends) whose executables are "
                "pathless system tools, pathless tools shipped in bin/ of the package and found through the PATH of "
                "the component environment (4 PATH shapes naming $INSTANCE_DIR/bin, a shipped tool shadowing a system "
                "tool), absolute paths through a link, instance-relative paths, missing executables; pairs: "
                "unvalidated against validated (Experiment.validateExperiment(checkExecutables=True)), validated at "
                "two places, a replicated twin (2-3 replicas) of a component on validated / unvalidated experiments, "
                "4 one-aspect pairs on the validated experiment; histories with validate steps between the file "
                "changes and reloads. Nested spellings: a consumer of 2-4 producers / direct files whose reference "
                "spellings contain each other at word boundaries (S, x-S, a-S, B-S, x-y-S; data/f next to my-data/f; "
                "files, directories, standard outputs; relative / absolute; random document order of the references) "
                "with the aspects producer-name (other prefix, stem alone, unrelated name), content-swap (two files "
                "named at different places of the arguments exchange their contents: different strong hash), "
                "produced-content, order, name, location, twin, stage, args, method; content-swap also on the "
                "general family.")
    ctx.assumptions = [
        "md5 of the model is a table of hashlib digests filled by the harness (pre-images: file contents and the "
        "serialisations returned by the model); the theorems take md5 as a parameter with Function.Injective md5 as "
        "hypothesis",
        "model inputs (reference spellings, producer numbers, file contents, replica variable, resolved arguments) are "
        "read from the real DataReference / ComponentSpecification objects; executables, blueprint table and backends "
        "come from the generated specification; the live configuration (`live`, what commandDetails['executable'] "
        "answers at the moment of the observation) is read from the real objects and handed to the model next to the "
        "blueprint table; the answers of the operating system to the look-ups of checkExecutable (Hash.Probe: which in "
        "the PATH of the component environment, real paths, executable bits) are asked with shutil / os.path",
        "validation is driven through Experiment.validateExperiment(checkExecutables=True, "
        "ignoreTestExecutablesError=True) on experiments with local / lsf backends only (the kubernetes / docker "
        "checks start containers; the image rewrite through the container image cache is not driven)",
        "generated arguments contain no %(variable)s, file contents are ASCII text",
        "histories: a hash is observed after memoization_reset() of every node (or on a freshly created Experiment "
        "object); the operations of the file-system model (write/touch/remove/rename) are compared with what "
        "the operating system did to the tracked paths after every step",
        "sessions: the per-object cache is inside the model (Hash.runS); the evaluations are recorded by "
        "wrapping ComponentSpecification._compute_memoization_info (order of return); the tasks of a controller "
        "session are stand-in engines (harness/detsim.py), their output files are written by the harness at launch, "
        "at chosen moments and at exit; all tasks succeed, no repeating components, no DoWhile, no replication; the "
        "truth of a moment is computed by a second Experiment object created from the same instance directory",
    ]
    ctx.trusted.append("C16: hashlib.md5 treated as an injective function (hypothesis of the theorems, not an axiom); "
                       "embeddingFunction (JavaScript) fuzzy hashes, DoWhile placeholders and loopref are not modelled; "
                       "harness/detsim.py (deterministic execution of the real Controller) for the controller sessions")
    rng = ctx.rng
    quick = ctx.tier == "quick"
    pairs = corpus_cases()
    pairs += gen_pairs(rng, 45 if quick else 300, 8 if quick else 10)
    for _ in range(6 if quick else 40):
        kind, a, b = collision_specs(rng)
        pairs.append({"kind": "pair", "base": a, "variant": b, "exp": {"aspect": "collision", "target": 0, "how": kind}})
    check_pairs(ctx, pairs)
    infos = [gen_info(rng) for _ in range(300 if quick else 3000)]
    infos += [{"files": [], "command": {"executable": "bexecutablec", "arguments": "a"}, "backend": {}},
              {"files": [], "command": {"executable": "c", "arguments": "aexecutableb"}, "backend": {}}]
    check_infos(ctx, infos)
    check_strings(ctx, rng, 1500 if quick else 15000)
    # histories last: the random stream of the parts above is the one earlier versions of this check used
    histories = corpus_histories()
    for _ in range(40 if quick else 400):
        h = gen_history(rng)
        if h is not None:
            histories.append(h)
    check_histories(ctx, histories)
    # multiplicity: the NUMBER of consumed files with identical contents (after the parts above: their random stream
    # is the one earlier versions of this check used)
    mult = corpus_mult_cases()
    mult += gen_mult_pairs(rng, 14 if quick else 120)
    mult += gen_replica_pairs(rng, 3 if quick else 20)
    check_pairs(ctx, mult)
    histories = corpus_mult_histories()
    for _ in range(10 if quick else 100):
        h = gen_history(rng, multi=True)
        if h is not None:
            histories.append(h)
    check_histories(ctx, histories)
    # chains of producers: a missing file at any level (after the parts above, same reason)
    check_pairs(ctx, corpus_chain_cases() + gen_chain_pairs(rng, 8 if quick else 50, 4))
    histories = []
    for _ in range(8 if quick else 50):
        h = gen_history(rng, chain=True)
        if h is not None:
            histories.append(h)
    check_histories(ctx, histories)
    # sessions: the real Controller (and plain readers) ask for hashes while files are being written
    check_sessions(ctx, corpus_sessions() + gen_sessions(rng, 20 if quick else 150, 8 if quick else 60))
    # the source of the executable: the author's specification / the validated live configuration (last: the random
    # stream of the parts above is the one earlier versions of this check used)
    check_pairs(ctx, corpus_exe_cases() + gen_exe_pairs(rng, 5 if quick else 40))
    histories = corpus_exe_histories()
    for _ in range(8 if quick else 50):
        h = gen_history(rng, exe=True, chain=rng.random() < 0.3)
        if h is not None:
            histories.append(h)
    check_histories(ctx, histories)
    # reference spellings that contain each other at word boundaries (producers prod / x-prod / my-prod, data/f and a
    # producer my-data), every order of names and of the references; contents exchanged between the places of the
    # arguments (last: the random stream of the parts above is the one earlier versions of this check used)
    check_pairs(ctx, corpus_nested_cases() + gen_nested_pairs(rng, 10 if quick else 120, 4)
                + gen_pairs(rng, 6 if quick else 60, 2, aspects=["content-swap"], allow_repl=False))


def replay(ctx, doc):
    ctx.classifiers = CLASSIFIERS
    case = doc.get("input")
    if case is None:
        for b in doc.get("no_longer_checks", []):
            if b.get("kind") == "correspondence":
                case = b["input"]
        if case is None:
            return
    if "case" in case and "which" in case:
        case = case["case"]
    kind = case.get("kind")
    if kind == "pair":
        case = dict(case)
        case["must_build"] = True
        check_pairs(ctx, [case])
    elif kind == "cross":
        check_pairs(ctx, [dict(c, must_build=True) for c in case["cases"]])
    elif kind == "history":
        case = dict(case)
        case["must_build"] = True
        check_histories(ctx, [case])
    elif kind == "session":
        check_sessions(ctx, [dict(case, must_build=True)])
    elif kind == "info":
        check_infos(ctx, [case["info"]])
    elif kind == "info-pair":
        check_infos(ctx, [case["a"], case["b"]])
    elif kind in ("tokens", "subword"):
        import random
        check_strings(ctx, random.Random(0), 1)
