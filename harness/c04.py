"""C04 - Resolved component configuration follows the documented layering order.

Implementation under test (real code, in-process):
    FlowIRConcrete(doc, platform, {}) [+ FlowIRExperimentConfiguration._patch_in_variable_files for user
    variables] .get_component_configuration(comp, raw=False, include_default=True, platform=P[, is_primitive])
    plus direct calls of FlowIR.override_object / FlowIR.interpolate for the unit-level relations.
Model: lean/St4sd/Model/{Tree,Interp,Convert,Resolve}.lean via drv-c04.  Theorems: lean/St4sd/Props/C04.lean.

Oracles (model independent): `spec_*` below restate the property on the implementation's answer:
  * the value of an option/variable = the one of the highest-priority layer that defines it
    (None does not count for options), layers of other platforms are never visible;
  * after a successful resolution no reference to a *defined* variable is left, a reference to an
    undefined variable makes the resolution fail (never left in place / replaced);
  * typed options carry their declared type.
"""
from __future__ import annotations

import copy
import itertools
import json
import logging
import os
import re
import shutil
import sys
import tempfile

FUEL = 400
VARPAT = re.compile(r'%\([a-zA-Z0-9_.-]+\)s')

# layer names, lowest priority first (the order the property text gives)
OPT_LAYERS = ["DG", "DS", "PG", "PS", "C", "O"]          # + built-in defaults below all of them
VAR_LAYERS = ["DG", "DS", "PG", "PS", "U", "C", "O"]
FOREIGN = ["QG", "QS", "QO"]                             # another platform: must never be visible


def _F():
    import experiment.model.frontends.flowir as F
    return F


def _quiet():
    logging.disable(logging.CRITICAL)
    sys.setrecursionlimit(max(1000, min(sys.getrecursionlimit(), 3000)))


# ----------------------------------------------------------------------------------------
# canonical forms
# ----------------------------------------------------------------------------------------

def to_json(v):
    """Python value -> the JSON the model driver speaks (floats as {"$flt": repr})"""
    if isinstance(v, bool) or v is None or isinstance(v, str):
        return v
    if isinstance(v, int):
        return v
    if isinstance(v, float):
        return {"$flt": repr(v)}
    if isinstance(v, dict):
        return {str(k): to_json(x) for k, x in v.items()}
    if isinstance(v, (list, tuple)):
        return [to_json(x) for x in v]
    return {"$other": type(v).__name__}


def err_kind(exc):
    import experiment.model.errors as E
    n = type(exc).__name__
    table = {"FlowIRVariableUnknown": "unknown-variable", "FlowIRVariableInvalid": "invalid-variable",
             "FlowIRVariablesIncomplete": "incomplete-variable", "RecursionError": "recursion",
             "FlowIRFailedComponentConvertType": "invalid-type", "AttributeError": "type-clash",
             "FlowIRPlatformUnknown": "platform-unknown", "FlowIRComponentUnknown": "component-unknown",
             "FlowIRComponentExists": "component-exists", "FlowIRInconsistency": "inconsistent",
             "KeyError": "key-error", "TypeError": "key-error"}
    k = table.get(n, "other:" + n)
    out = {"error": k}
    if k == "unknown-variable":
        out["name"] = getattr(exc, "variable_route", None)
    return out


def desc_of(concrete):
    """the part of the description the resolver reads, as the model's Desc JSON"""
    raw = concrete.raw()
    bp = {}
    for P, b in (raw.get("blueprint") or {}).items():
        b = b or {}
        e = {"stages": {str(i): to_json(v) for i, v in (b.get("stages") or {}).items()}}
        if "global" in b:
            e["global"] = to_json(b["global"])
        bp[P] = e
    vs = {}
    for P, b in (raw.get("variables") or {}).items():
        b = b or {}
        vs[P] = {"global": to_json(b.get("global") or {}),
                 "stages": {str(i): to_json(v or {}) for i, v in (b.get("stages") or {}).items()}}
    comps = [{"stage": c["stage"], "name": c["name"], "body": to_json(c)} for c in raw["components"]]
    return {"platforms": list(concrete.platforms), "blueprint": bp, "variables": vs, "components": comps}


# ----------------------------------------------------------------------------------------
# real code drivers
# ----------------------------------------------------------------------------------------

def build(doc, user, tmpdir):
    F = _F()
    conc = F.FlowIRConcrete(copy.deepcopy(doc), "default", {})
    desc = desc_of(conc)
    nstages = conc.get_stage_number()
    if user is not None:
        import yaml
        import experiment.model.conf as C
        path = os.path.join(tmpdir, "user.yaml")
        with open(path, "w") as fh:
            yaml.safe_dump(user, fh)
        errs = []
        C.FlowIRExperimentConfiguration._patch_in_variable_files([path], conc, errs)
        if errs:
            raise errs[0]
    return conc, desc, nstages


def impl_resolve(conc, comp, platform, prim):
    try:
        kw = dict(raw=False, include_default=True, platform=platform)
        if prim:
            kw["is_primitive"] = True
        return {"ok": to_json(conc.get_component_configuration(tuple(comp), **kw))}
    except BaseException as exc:  # RecursionError is not an Exception subclass issue, but be broad
        if isinstance(exc, (KeyboardInterrupt, SystemExit)):
            raise
        return err_kind(exc)


def user_json(user):
    if user is None:
        return None
    return {"global": to_json(user.get("global", {})),
            "stages": {str(i): to_json(v) for i, v in user.get("stages", {}).items()}}


# ----------------------------------------------------------------------------------------
# generators
# ----------------------------------------------------------------------------------------

# option -> (route, value generator per layer tag). The values are already of the declared type so that the
# priority oracle can compare them directly.
OPTION_POOL = [
    (("command", "arguments"), lambda t, k: "-x " + t),
    (("command", "executable"), lambda t, k: "/bin/" + t),
    (("command", "environment"), lambda t, k: "env" + t),
    (("resourceRequest", "numberProcesses"), lambda t, k: 10 + k),
    (("workflowAttributes", "maxRestarts"), lambda t, k: 20 + k),
    (("workflowAttributes", "repeatRetries"), lambda t, k: 30 + k),
    (("resourceManager", "lsf", "queue"), lambda t, k: "q" + t),
    (("resourceManager", "kubernetes", "image"), lambda t, k: "img:" + t),
    (("resourceManager", "config", "backend"), lambda t, k: "b" + t),
    (("workflowAttributes", "memoization", "embeddingFunction"), lambda t, k: "js" + t),   # untyped leaf
    (("workflowAttributes", "shutdownOn"), lambda t, k: ["KnownIssue", t]),                 # list leaf
    (("executors", "pre"), lambda t, k: [{"name": t}]),
    (("custom", "deep", "leaf"), lambda t, k: "z" + t),                                     # not in the defaults
]


def set_route(d, route, value):
    for k in route[:-1]:
        d = d.setdefault(k, {})
    d[route[-1]] = value


def get_route(d, route):
    for k in route:
        if not isinstance(d, dict) or k not in d:
            return ("absent",)
        d = d[k]
    return ("value", d)


def base_doc():
    return {
        "platforms": ["default", "p", "q"],
        "blueprint": {"default": {"global": {}, "stages": {0: {}, 1: {}}},
                      "p": {"global": {}, "stages": {0: {}, 1: {}}},
                      "q": {"global": {}, "stages": {0: {}, 1: {}}}},
        "variables": {"default": {"global": {}, "stages": {0: {}, 1: {}}},
                      "p": {"global": {}, "stages": {0: {}, 1: {}}},
                      "q": {"global": {}, "stages": {0: {}, 1: {}}}},
        "components": [
            {"name": "c0", "stage": 0, "command": {}, "variables": {}, "override": {}},
            {"name": "c1", "stage": 1, "command": {}, "variables": {}, "override": {}},
        ],
    }


def option_target(doc, tag, stage, comp_index):
    """the dictionary of the layer `tag` into which an option is written"""
    comp = doc["components"][comp_index]
    if tag in ("DG", "PG", "QG"):
        return doc["blueprint"][{"DG": "default", "PG": "p", "QG": "q"}[tag]]["global"]
    if tag in ("DS", "PS", "QS"):
        return doc["blueprint"][{"DS": "default", "PS": "p", "QS": "q"}[tag]]["stages"][stage]
    if tag == "C":
        return comp
    if tag == "O":
        return comp["override"].setdefault("p", {})
    if tag == "QO":
        return comp["override"].setdefault("q", {})
    raise KeyError(tag)


def variable_target(doc, user, tag, stage, comp_index):
    comp = doc["components"][comp_index]
    if tag in ("DG", "PG", "QG"):
        return doc["variables"][{"DG": "default", "PG": "p", "QG": "q"}[tag]]["global"]
    if tag in ("DS", "PS", "QS"):
        return doc["variables"][{"DS": "default", "PS": "p", "QS": "q"}[tag]]["stages"][stage]
    if tag == "U":
        return user["global"]
    if tag == "US":
        return user["stages"].setdefault(stage, {})
    if tag == "C":
        return comp["variables"]
    if tag == "O":
        return comp["override"].setdefault("p", {}).setdefault("variables", {})
    if tag == "QO":
        return comp["override"].setdefault("q", {}).setdefault("variables", {})
    raise KeyError(tag)


def visible(tag, platform):
    """is the layer part of the resolution for `platform` at all?"""
    if tag in ("DG", "DS", "C", "U", "US"):
        return True
    if tag in ("PG", "PS", "O"):
        return platform == "p"
    return False


def mask_case(kind, route_i, mask, nulls, foreign, platform, stage):
    return {"kind": kind, "route": route_i, "mask": mask, "nulls": nulls, "foreign": foreign,
            "platform": platform, "stage": stage}


def materialise_mask(case):
    """doc/user/expected for an option-mask or variable-mask case"""
    doc = base_doc()
    user = None
    stage = case["stage"]
    ci = stage
    platform = case["platform"]
    if case["kind"] == "option-mask":
        route, gen = OPTION_POOL[case["route"]]
        expected = ("default",)
        for k, tag in enumerate(OPT_LAYERS + FOREIGN):
            present = tag in case["mask"] or tag in case["foreign"]
            if not present:
                continue
            value = None if tag in case["nulls"] else gen(tag, k)
            set_route(option_target(doc, tag, stage, ci), route, value)
            if visible(tag, platform) and value is not None:
                expected = ("value", value)
        return doc, user, {"route": list(route), "expected": expected}
    else:
        user = {"global": {}, "stages": {}}
        expected = ("undefined",)
        order = ["DG", "DS", "PG", "PS", "U", "US", "C", "O"]
        for k, tag in enumerate(order + FOREIGN):
            present = tag in case["mask"] or tag in case["foreign"]
            if not present:
                continue
            value = "val-" + tag if k % 3 else 100 + k        # strings and integers
            variable_target(doc, user, tag, stage, ci)["v"] = value
            if visible(tag, platform):
                expected = ("value", value)
        doc["components"][ci]["command"]["arguments"] = "<%(v)s>"
        if not user["global"] and not user["stages"]:
            user = None
        return doc, user, {"expected": expected}


def gen_chain(rng):
    """variables referring to variables, spread over the layers; depth <= 6"""
    depth = rng.randint(1, 6)
    platform = rng.choice(["default", "p"])
    stage = rng.choice([0, 1])
    doc = base_doc()
    user = {"global": {}, "stages": {}}
    names = ["a%d" % i for i in range(depth + 1)]
    tags = ["DG", "DS", "U", "US", "C"] + (["PG", "PS", "O"] if platform == "p" else [])
    defs = {}
    lit = rng.choice(["lit", "x y", "42", "", "100%", "a(b)c", "%d", "s)"])
    scalar = rng.choice([None, None, 7, True, 2.5])
    for i, n in enumerate(names):
        if i == 0:
            value = lit if scalar is None else scalar
        else:
            shape = rng.choice(["plain", "plain", "pre", "post", "twice", "two"])
            ref = "%%(%s)s" % names[i - 1]
            if shape == "plain":
                value = ref
            elif shape == "pre":
                value = "p" + ref
            elif shape == "post":
                value = ref + "/q"
            elif shape == "twice":
                value = ref + ":" + ref
            else:
                value = ref + "+" + "%%(%s)s" % names[rng.randrange(i)]
        defs[n] = value
        variable_target(doc, user, rng.choice(tags), stage, stage)[n] = value
    fault = rng.choice(["none", "none", "none", "undefined", "foreign-only", "incomplete", "invalid", "cycle",
                        "self", "replica", "replica-prim"])
    top = "run %%(%s)s --opt=%%(%s)s" % (names[-1], names[rng.randrange(len(names))])
    prim = False
    if fault == "undefined":
        victim = rng.randrange(len(names))
        if victim == 0 or rng.random() < 0.3:
            top += " %(nowhere)s"
        else:
            # remove a definition in the middle of the chain
            n = names[victim - 1]
            for coll in all_var_dicts(doc, user):
                coll.pop(n, None)
            del defs[n]
    elif fault == "foreign-only":
        # defined, but only on another platform: must be as good as undefined
        tag = rng.choice(FOREIGN if platform == "p" else FOREIGN + ["PG", "PS", "O"])
        variable_target(doc, user, tag, stage, stage)["elsewhere"] = "leak"
        top += " %(elsewhere)s"
    elif fault == "incomplete":
        top += " %(" + names[0] + ")"
    elif fault == "invalid":
        variable_target(doc, user, "C", stage, stage)["bad"] = rng.choice([None, [1, 2], {"k": "v"}])
        top += " %(bad)s"
    elif fault == "cycle":
        variable_target(doc, user, "C", stage, stage)["cy1"] = "%(cy2)s"
        variable_target(doc, user, "DG", stage, stage)["cy2"] = "x%(cy1)s"
        top += " %(cy1)s"
    elif fault == "self":
        variable_target(doc, user, "C", stage, stage)["a"] = "%(a)s"
        top += " %(a)s"
    elif fault in ("replica", "replica-prim"):
        top += " %(replica)s"
        prim = fault == "replica-prim"
    where = rng.choice(["arguments", "environment", "queue", "list"])
    comp = doc["components"][stage]
    if where == "arguments":
        comp["command"]["arguments"] = top
    elif where == "environment":
        comp["command"]["environment"] = top
    elif where == "queue":
        comp.setdefault("resourceManager", {}).setdefault("lsf", {})["queue"] = top
    else:
        comp["references"] = []
        comp.setdefault("workflowAttributes", {})["shutdownOn"] = ["KnownIssue", top]
    if not user["global"] and not user["stages"]:
        user = None
    return {"kind": "chain", "doc": doc, "user": user, "platform": platform, "stage": stage, "prim": prim,
            "fault": fault, "where": where, "top": top}


def all_var_dicts(doc, user):
    out = []
    for P in doc["variables"].values():
        out.append(P["global"])
        out.extend(P["stages"].values())
    for c in doc["components"]:
        out.append(c["variables"])
        for o in c.get("override", {}).values():
            if "variables" in o:
                out.append(o["variables"])
    if user:
        out.append(user["global"])
        out.extend(user["stages"].values())
    return out


TYPED_VALUES = {
    "int": [5, "7", "-3", "+4", "007", True, False, "abc", "", "1.5", None, "%(n)s"],
    "optional_int": [5, "7", "-3", True, "abc", None, "%(n)s"],
    "float": [3, "2.5", "10", "0.50", "-0.25", True, "x", "", None, "%(n)s", "%(f)s"],
    "bool": [True, False, 0, 1, 2, "", "false", "x", None],
    "str_to_bool": [True, False, "yes", "No", "TRUE", "false", "maybe", 1, ""],
    "to_bool": [True, False, 0, 1, 2, "yes", "No", "TRUE", "false", "maybe", "x", "", None],
    "memory_to_bytes": [100, "100", "2Mi", "3Gi", "5Ki", "Mi", "x", "1.5Gi", True, None, "%(n)sMi"],
    "str_to_kubernetes_qos": ["Guaranteed", "burstable", "BESTEFFORT", "x", 1, None],
    "str": ["s", 5, -2, True, "", None, "%(n)s"],
    "dict": [{"a": 1}, {}, "x", 3, None],
}
PYTYPE = {"int": int, "optional_int": int, "float": float, "bool": bool, "str_to_bool": bool, "to_bool": bool,
          "memory_to_bytes": int, "str_to_kubernetes_qos": str, "str": str, "dict": dict}


def typed_leaves(table, prefix=()):
    for k, v in table.items():
        if isinstance(v, dict):
            yield from typed_leaves(v, prefix + (k,))
        else:
            yield prefix + (k,), v


def gen_typed(rng, table, exhaustive_index=None):
    leaves = [l for l in typed_leaves(table) if l[0] != ("command", "interpreter")]
    doc = base_doc()
    stage = rng.choice([0, 1])
    platform = rng.choice(["default", "p"])
    doc["variables"]["default"]["global"]["n"] = rng.choice([4, "12"])
    doc["variables"]["default"]["global"]["f"] = rng.choice([0.5, "1.25"])
    chosen = []
    if exhaustive_index is not None:
        route, ty = leaves[exhaustive_index[0] % len(leaves)]
        picks = [(route, ty, TYPED_VALUES[ty][exhaustive_index[1] % len(TYPED_VALUES[ty])])]
    else:
        picks = []
        for route, ty in rng.sample(leaves, rng.randint(1, 4)):
            picks.append((route, ty, rng.choice(TYPED_VALUES[ty])))
    tags = ["DG", "DS", "C"] + (["PG", "PS", "O"] if platform == "p" else [])
    for route, ty, value in picks:
        tag = rng.choice(tags)
        set_route(option_target(doc, tag, stage, stage), route, copy.deepcopy(value))
        chosen.append({"route": list(route), "type": ty, "value": to_json(value), "layer": tag})
    return {"kind": "typed", "doc": doc, "user": None, "platform": platform, "stage": stage, "prim": False,
            "chosen": chosen}


def gen_structural(rng):
    """malformed / structural stream: dictionaries against scalars, falsy values at inner nodes, unknown platform"""
    doc = base_doc()
    stage = rng.choice([0, 1])
    platform = rng.choice(["default", "p"])
    what = rng.choice(["scalar-over-dict", "falsy-over-dict", "dict-over-scalar", "unknown-platform",
                       "unknown-component", "array-access", "dotted", "repeat", "foreign-override-ref"])
    comp = doc["components"][stage]
    name = comp["name"]
    if what == "scalar-over-dict":
        set_route(option_target(doc, rng.choice(["DG", "C"]), stage, stage), ("resourceRequest",), rng.choice(["big", 3, [1]]))
    elif what == "falsy-over-dict":
        set_route(option_target(doc, "DG", stage, stage), ("resourceRequest", "numberThreads"), 4)
        set_route(option_target(doc, "C", stage, stage), ("resourceRequest",), rng.choice([None, 0, "", [], False, {}]))
    elif what == "dict-over-scalar":
        set_route(option_target(doc, "DG", stage, stage), ("custom",), rng.choice(["s", 0, None]))
        set_route(option_target(doc, "C", stage, stage), ("custom",), {"k": "v"})
    elif what == "unknown-platform":
        platform = "nope"
    elif what == "unknown-component":
        name = "ghost"
    elif what == "array-access":
        comp["command"]["arguments"] = rng.choice(["a b c[1]", "%(l)s[0]", "x[%(i)s]"])
        comp["variables"]["l"] = "u v w"
        comp["variables"]["i"] = 1
    elif what == "dotted":
        comp["command"]["arguments"] = "%(a.b)s"
    elif what == "foreign-override-ref":
        # the override for ANOTHER platform mentions a variable that only exists on that platform
        doc["variables"]["q"]["global"]["qonly"] = "Q"
        comp["override"]["q"] = {"command": {"arguments": "--q=%(qonly)s"}}
    elif what == "repeat":
        set_route(option_target(doc, rng.choice(["DG", "C"]), stage, stage), ("workflowAttributes", "repeatInterval"),
                  rng.choice([0, 5, "0", "7", None, False, "%(ri)s"]))
        set_route(option_target(doc, "C", stage, stage), ("workflowAttributes", "isRepeat"), rng.choice([True, False]))
        comp["variables"]["ri"] = rng.choice([0, 3])
    return {"kind": "structural", "what": what, "doc": doc, "user": None, "platform": platform, "stage": stage,
            "name": name, "prim": False}


# ----------------------------------------------------------------------------------------
# oracles
# ----------------------------------------------------------------------------------------

def strings_of(v):
    if isinstance(v, str):
        yield v
    elif isinstance(v, dict):
        for x in v.values():
            yield from strings_of(x)
    elif isinstance(v, list):
        for x in v:
            yield from strings_of(x)


def spec_substitute(s, variables, depth=0):
    """independent re-statement of 'substitute until nothing defined remains' (None = undefined/invalid somewhere)"""
    if depth > 50:
        return None
    out = []
    pos = 0
    for m in VARPAT.finditer(s):
        name = m.group()[2:-2]
        if name not in variables:
            return None
        v = variables[name]
        if isinstance(v, bool) or isinstance(v, (int, float)):
            rep = repr(v)
        elif isinstance(v, str):
            rep = spec_substitute(v, variables, depth + 1)
            if rep is None:
                return None
        else:
            return None
        out.append(s[pos:m.start()])
        out.append(rep)
        pos = m.end()
    out.append(s[pos:])
    return "".join(out)


def oracle_common(ctx, case, out, variables_expected_defined=None):
    """clauses that must hold for every successful resolution"""
    if "ok" not in out:
        return
    tree = out["ok"]
    defined = set((tree.get("variables") or {}).keys())
    for s in strings_of(tree):
        for m in VARPAT.finditer(s):
            name = m.group()[2:-2]
            if name in defined:
                ctx.fail("defined-variable-left-in-place", case, {"string": s, "name": name})
            elif not (case.get("prim") and name == "replica") and "." not in name:
                ctx.fail("undefined-variable-left-in-place", case, {"string": s, "name": name})


def check_typed_tree(ctx, case, tree, table, prefix=()):
    for k, ty in table.items():
        if not isinstance(tree, dict) or k not in tree:
            continue
        v = tree[k]
        if isinstance(ty, dict):
            check_typed_tree(ctx, case, v, ty, prefix + (k,))
            continue
        if v is None or isinstance(v, list):
            continue
        if isinstance(v, dict) and "$flt" in v:
            if ty != "float":
                ctx.tag("typed:float-kept-for-" + ty)   # floats are passed through by the code: reported, not gated
            continue
        want = PYTYPE[ty]
        ok = (isinstance(v, bool) if want is bool else
              (isinstance(v, int) and not isinstance(v, bool)) if want is int else isinstance(v, want))
        if isinstance(v, dict) and want is not dict:
            ok = len(v) == 0 and False
        if not ok:
            ctx.fail("typed-option-has-wrong-type", case, {"route": list(prefix + (k,)), "declared": ty, "value": v})


# ----------------------------------------------------------------------------------------
# running cases
# ----------------------------------------------------------------------------------------

def run_cases(ctx, cases, tmpdir, table):
    """cases: list of dicts with doc,user,platform,stage,(name),prim + kind specific fields"""
    reqs = []
    impl = []
    for case in cases:
        doc, user = case["doc"], case["user"]
        comp = (case["stage"], case.get("name", "c%d" % case["stage"]))
        try:
            conc, desc, nstages = build(doc, user, tmpdir)
        except Exception as exc:  # the package does not even load: not a case of this property
            impl.append(None)
            reqs.append(None)
            ctx.tag("build-failed:" + type(exc).__name__)
            continue
        out = impl_resolve(conc, comp, case["platform"], case.get("prim", False))
        # the second query must give the same answer (cache) and platform isolation: asking for the other
        # platform first must not change anything
        impl.append(out)
        reqs.append({"op": "resolve", "desc": desc, "user": user_json(user), "nstages": nstages,
                     "platform": case["platform"], "stage": comp[0], "name": comp[1],
                     "prim": bool(case.get("prim", False)), "fuel": FUEL})
    live = [r for r in reqs if r is not None]
    mouts = ctx.model(live) if live else []
    mi = 0
    for case, req, out in zip(cases, reqs, impl):
        if req is None:
            continue
        mout = mouts[mi] if mouts is not None else None
        mi += 1
        slim = {k: v for k, v in case.items()}
        kind = case["kind"]
        tags = ["kind:" + kind, "platform:" + case["platform"],
                "impl:" + ("ok" if "ok" in out else out["error"])]
        nontrivial = True
        if kind in ("option-mask", "variable-mask"):
            nontrivial = len(case["mask"]) >= 2
            tags.append("layers-defining:%d" % len(case["mask"]))
        elif kind == "chain":
            tags.append("fault:" + case["fault"])
        elif kind == "structural":
            tags.append("structural:" + case["what"])
        ctx.case(slim, nontrivial=nontrivial, tags=tags)
        # ---- oracles --------------------------------------------------------------------
        oracle_common(ctx, slim, out)
        if "ok" in out:
            check_typed_tree(ctx, slim, out["ok"], table)
        if kind == "option-mask":
            exp = case["expect"]
            if "ok" not in out:
                ctx.fail("resolution-of-well-formed-layers-fails", slim, out)
            else:
                got = get_route(out["ok"], exp["route"])
                if exp["expected"][0] == "value":
                    if got != ("value", to_json(exp["expected"][1])):
                        ctx.fail("option-not-from-highest-priority-layer", slim,
                                 {"expected": exp["expected"][1], "got": got})
                else:
                    dflt = get_route(to_json(_F().FlowIR.default_component_structure()), exp["route"])
                    nulls_visible = any(visible(t, case["platform"]) for t in case["nulls"] if t in case["mask"])
                    if dflt[0] == "value":
                        # typed defaults are converted (20 -> 20.0): compare only untouched kinds
                        if got[0] != "value":
                            ctx.fail("default-lost", slim, {"got": got})
                    elif got[0] == "value" and not (got[1] is None and nulls_visible):
                        ctx.fail("option-appears-from-invisible-layer", slim, {"got": got})
        elif kind == "variable-mask":
            exp = case["expect"]["expected"]
            if exp[0] == "undefined":
                if out.get("error") != "unknown-variable":
                    ctx.fail("undefined-variable-not-reported", slim, out)
            elif "ok" not in out:
                ctx.fail("resolution-of-well-formed-layers-fails", slim, out)
            else:
                v = exp[1]
                if out["ok"]["variables"].get("v") != v:
                    ctx.fail("variable-not-from-highest-priority-layer", slim,
                             {"expected": v, "got": out["ok"]["variables"].get("v")})
                want = "<%s>" % (v if isinstance(v, str) else repr(v))
                if out["ok"]["command"]["arguments"] != want:
                    ctx.fail("substituted-value-not-from-highest-priority-layer", slim,
                             {"expected": want, "got": out["ok"]["command"]["arguments"]})
        elif kind == "chain":
            fault = case["fault"]
            if fault in ("undefined", "foreign-only", "replica"):
                if out.get("error") != "unknown-variable":
                    ctx.fail("undefined-variable-not-reported", slim, out)
            elif fault in ("none", "replica-prim"):
                if "ok" not in out:
                    ctx.fail("acyclic-chain-does-not-resolve", slim, out)
                else:
                    variables = out["ok"]["variables"]   # resolved values: compare with an independent substitution
                    raw_vars = mout and mout.get("vars")
                    # independent expectation from the *layered, unresolved* variables is computed below from the doc
                    exp = expected_chain_string(case)
                    got = locate_top(out["ok"], case["where"])
                    if exp is not None and got != exp:
                        ctx.fail("substitution-result-differs-from-specification", slim, {"expected": exp, "got": got})
            elif fault in ("cycle", "self"):
                ctx.tag("cyclic-definition->" + out.get("error", "ok"))
                if "ok" in out:
                    ctx.fail("cyclic-definition-resolves", slim, out)
            elif fault in ("incomplete", "invalid"):
                if "ok" in out:
                    ctx.fail("malformed-reference-accepted", slim, out)
        elif kind == "structural" and case["what"] == "foreign-override-ref":
            if "ok" not in out:
                ctx.fail("override-of-another-platform-breaks-resolution", slim, out)
        # ---- correspondence -------------------------------------------------------------
        if mout is not None:
            mres = mout["result"]
            if mres.get("error") == "unsupported":
                ctx.tag("model:unsupported")
                continue
            if "error" in out and out["error"].startswith("other:"):
                ctx.tag("impl:" + out["error"])
            ctx.compare("get_component_configuration == Tree.resolve", slim, mres, out)


def locate_top(tree, where):
    if where == "arguments":
        return tree["command"]["arguments"]
    if where == "environment":
        return tree["command"]["environment"]
    if where == "queue":
        return tree["resourceManager"]["lsf"]["queue"]
    return tree["workflowAttributes"]["shutdownOn"][1]


def expected_chain_string(case):
    """layer the variables by the documented order (independent of the code and of the model) and substitute"""
    doc, user, platform, stage = case["doc"], case["user"], case["platform"], case["stage"]
    comp = doc["components"][stage]
    order = [doc["variables"]["default"]["global"], doc["variables"]["default"]["stages"].get(stage, {})]
    if platform != "default":
        order += [doc["variables"][platform]["global"], doc["variables"][platform]["stages"].get(stage, {})]
    if user:
        order += [user.get("global", {}), user.get("stages", {}).get(stage, {})]
    order += [comp.get("variables", {})]
    order += [comp.get("override", {}).get(platform, {}).get("variables", {})]
    variables = {}
    for layer in order:
        variables.update(layer)
    if case.get("prim"):
        variables = dict(variables)
        variables.setdefault("replica", "%(replica)s")
        top = case["top"].replace("%(replica)s", "\0")
        res = spec_substitute(top, {k: v for k, v in variables.items() if k != "replica"})
        return None if res is None else res.replace("\0", "%(replica)s")
    return spec_substitute(case["top"], variables)


# unit-level relations -------------------------------------------------------------------

def gen_tree(rng, depth=0):
    r = rng.random()
    if depth >= 3 or r < 0.35:
        return rng.choice([None, None, 0, 1, 5, True, False, "", "s", "t", [], [1], 1.5])
    d = {}
    for k in rng.sample(["a", "b", "c", "d"], rng.randint(0, 3)):
        d[k] = gen_tree(rng, depth + 1)
    return d


def unit_override(ctx, rng, n):
    F = _F()
    cases, reqs = [], []
    for _ in range(n):
        a = gen_tree(rng) if rng.random() < 0.2 else {k: gen_tree(rng, 1) for k in "abc"}
        b = gen_tree(rng)
        cases.append((a, b))
        reqs.append({"op": "override", "old": to_json(a), "new": to_json(b)})
    mouts = ctx.model(reqs)
    for (a, b), mo in zip(cases, mouts or [None] * len(cases)):
        try:
            out = {"ok": to_json(F.FlowIR.override_object(copy.deepcopy(a), copy.deepcopy(b)))}
        except Exception as exc:
            out = err_kind(exc)
        case = {"kind": "override", "old": to_json(a), "new": to_json(b)}
        ctx.case(case, nontrivial=isinstance(a, dict) and isinstance(b, dict) and bool(set(a) & set(b)),
                 tags=["kind:override", "override:" + ("ok" if "ok" in out else out["error"])])
        if mo is not None:
            ctx.compare("FlowIR.override_object == Tree.override", case, mo, out)


def unit_interp(ctx, rng, n):
    F = _F()
    pieces = ["%(a)s", "%(b)s", "%(c)s", "%(zz)s", "%(replica)s", "%(", ")s", "%", "(", ")", "s", "x", " ", "a", "%(a)",
              "%(%(d)s)s", "-", "_"]
    cases, reqs = [], []
    for _ in range(n):
        ctxv = {}
        for k in rng.sample(["a", "b", "c", "d", "x"], rng.randint(1, 5)):
            ctxv[k] = rng.choice([1, True, "lit", "", "a", "%(a)s", "%(b)s", "p%(c)sq", "a)s", "%(a", "%(", 2.5, "zz", None,
                                  "".join(rng.choice(pieces) for _ in range(rng.randint(0, 3)))])
        s = "".join(rng.choice(pieces) for _ in range(rng.randint(0, 6)))
        prim = rng.random() < 0.3
        cases.append((ctxv, s, prim))
        reqs.append({"op": "interp", "ctx": to_json(ctxv), "s": s, "prim": prim, "fuel": FUEL})
    mouts = ctx.model(reqs)
    for (ctxv, s, prim), mo in zip(cases, mouts or [None] * len(cases)):
        try:
            out = {"ok": F.FlowIR.interpolate(s, copy.deepcopy(ctxv), is_primitive=prim)}
        except BaseException as exc:
            if isinstance(exc, (KeyboardInterrupt, SystemExit)):
                raise
            out = err_kind(exc)
        case = {"kind": "interp", "ctx": to_json(ctxv), "s": s, "prim": prim}
        ctx.case(case, nontrivial=s.count("%(") >= 1,
                 tags=["kind:interp", "interp:" + ("ok" if "ok" in out else out["error"])])
        if "ok" in out:
            for m in VARPAT.finditer(out["ok"]):
                name = m.group()[2:-2]
                if not (prim and name == "replica" and name not in ctxv):
                    ctx.fail("interpolate-leaves-a-reference", case, out)
        if mo is not None:
            if mo.get("error") == "unsupported":
                ctx.tag("model:unsupported")
                continue
            ctx.compare("FlowIR.interpolate == Tree.interp", case, mo, out)


CORPUS = []


def run(ctx):
    _quiet()
    ctx.classifiers = CLASSIFIERS
    from harness import gen_c04
    table = gen_c04.py_table()
    rng = ctx.rng
    quick = ctx.tier == "quick"
    ctx.rule = ("cases = (a) option-mask: one option route x subset of the 6 definable option layers (+ layers of a "
                "foreign platform, + layers defining None) x platform in {default,p} x stage; (b) variable-mask: the "
                "same for one variable over the 8 variable layers (user global/stage included); (c) chain: variables "
                "referring to variables (depth 1-6) spread over random layers with an optional fault (undefined, "
                "defined only on another platform, incomplete, invalid value, cycle, self reference, replica); "
                "(d) typed: 1-4 typed options with values from per-type pools (valid and invalid); (e) structural "
                "probes; (f) unit cases of override_object / interpolate on random trees / strings. non-trivial = "
                ">= 2 layers define the key (masks), the input has >= 1 reference (interp), the trees share a key "
                "(override), always (others); distinct by canonical JSON of the case. thorough: all 2^6 option masks "
                "and all 2^8 variable masks for both platforms and both stages.")
    ctx.assumptions = [
        "generated strings contain no '[' (array access is not modelled) and no dotted variable names",
        "int()/float() literals are drawn from the documented subset (sign+digits; <=10 integer and <=4 fractional digits)",
        "at most one kind of error is injected per case (the model reports the first error in its own traversal order)",
        "components have command.interpreter = None (interpreter digestion not modelled)",
    ]
    ctx.trusted.append("C04: FlowIRConcrete.__init__/raw() (normalisation of the document) is used to obtain the "
                       "description handed to the model; floats compared by repr")
    tmpdir = tempfile.mkdtemp(prefix="c04-")
    try:
        cases = []
        # (a) option masks
        layer_sets = [list(c) for r in range(len(OPT_LAYERS) + 1) for c in itertools.combinations(OPT_LAYERS, r)]
        if quick:
            picked = [(ri, m, pl, st) for ri in range(len(OPTION_POOL)) for m in rng.sample(layer_sets, 10)
                      for pl in ("default", "p") for st in (rng.choice([0, 1]),)]
        else:
            picked = [(ri, m, pl, st) for ri in range(len(OPTION_POOL)) for m in layer_sets
                      for pl in ("default", "p") for st in (0, 1)]
            ctx.exhaustive = True
        for ri, m, pl, st in picked:
            foreign = [t for t in FOREIGN if rng.random() < 0.4]
            nulls = [t for t in m if rng.random() < 0.15]
            case = mask_case("option-mask", ri, m, nulls, foreign, pl, st)
            doc, user, exp = materialise_mask(case)
            case.update(doc=doc, user=user, expect=exp, prim=False)
            cases.append(case)
        # (b) variable masks
        vorder = ["DG", "DS", "PG", "PS", "U", "US", "C", "O"]
        vsets = [list(c) for r in range(len(vorder) + 1) for c in itertools.combinations(vorder, r)]
        if quick:
            vpicked = [(m, pl, rng.choice([0, 1])) for m in rng.sample(vsets, 90) for pl in ("default", "p")]
        else:
            vpicked = [(m, pl, st) for m in vsets for pl in ("default", "p") for st in (0, 1)]
        for m, pl, st in vpicked:
            foreign = [t for t in FOREIGN if rng.random() < 0.4]
            case = mask_case("variable-mask", 0, m, [], foreign, pl, st)
            doc, user, exp = materialise_mask(case)
            case.update(doc=doc, user=user, expect=exp, prim=False)
            cases.append(case)
        # (c) chains
        for _ in range(300 if quick else 4000):
            cases.append(gen_chain(rng))
        # (d) typed
        leaves = list(typed_leaves(table))
        if not quick:
            for li in range(len(leaves)):
                for vi in range(12):
                    cases.append(gen_typed(rng, table, (li, vi)))
        for _ in range(250 if quick else 2500):
            cases.append(gen_typed(rng, table))
        # (e) structural
        for _ in range(60 if quick else 600):
            cases.append(gen_structural(rng))
        run_cases(ctx, cases, tmpdir, table)
        # (f) unit relations
        unit_override(ctx, rng, 400 if quick else 6000)
        unit_interp(ctx, rng, 600 if quick else 10000)
    finally:
        shutil.rmtree(tmpdir, ignore_errors=True)


def classify_foreign_override_leak(what, case, detail):
    """resolution on platform P fails with unknown-variable and the only text that mentions the variable is inside
    the component's override for a platform other than P"""
    if what != "override-of-another-platform-breaks-resolution":
        return False
    if not isinstance(detail, dict) or detail.get("error") != "unknown-variable" or not detail.get("name"):
        return False
    ref = "%%(%s)s" % detail["name"]
    comp = copy.deepcopy(case["doc"]["components"][case["stage"]])
    foreign = {p: o for p, o in (comp.get("override") or {}).items() if p != case["platform"]}
    if ref not in json.dumps(foreign):
        return False
    comp["override"] = {p: o for p, o in (comp.get("override") or {}).items() if p == case["platform"]}
    rest = json.dumps([comp, case["doc"].get("blueprint")])
    return ref not in rest


CLASSIFIERS = {"c04_reference_inside_override_of_another_platform": classify_foreign_override_leak}


def replay(ctx, doc):
    ctx.classifiers = CLASSIFIERS
    _quiet()
    from harness import gen_c04
    table = gen_c04.py_table()
    case = doc.get("input") or doc["no_longer_checks"][-1]["input"]
    tmpdir = tempfile.mkdtemp(prefix="c04-")
    try:
        kind = case.get("kind")
        if kind == "override":
            F = _F()
            a, b = from_json(case["old"]), from_json(case["new"])
            try:
                out = {"ok": to_json(F.FlowIR.override_object(a, b))}
            except Exception as exc:
                out = err_kind(exc)
            mo = ctx.model([{"op": "override", "old": case["old"], "new": case["new"]}])
            ctx.case(case, nontrivial=True, tags=["kind:override"])
            if mo is not None:
                ctx.compare("FlowIR.override_object == Tree.override", case, mo[0], out)
        elif kind == "interp":
            F = _F()
            try:
                out = {"ok": F.FlowIR.interpolate(case["s"], from_json(case["ctx"]), is_primitive=case["prim"])}
            except BaseException as exc:
                out = err_kind(exc)
            mo = ctx.model([{"op": "interp", "ctx": case["ctx"], "s": case["s"], "prim": case["prim"], "fuel": FUEL}])
            ctx.case(case, nontrivial=True, tags=["kind:interp"])
            if mo is not None and mo[0].get("error") != "unsupported":
                ctx.compare("FlowIR.interpolate == Tree.interp", case, mo[0], out)
        else:
            case = fix_int_keys(case)
            run_cases(ctx, [case], tmpdir, table)
    finally:
        shutil.rmtree(tmpdir, ignore_errors=True)


def from_json(v):
    if isinstance(v, dict):
        if list(v.keys()) == ["$flt"]:
            return float(v["$flt"])
        return {k: from_json(x) for k, x in v.items()}
    if isinstance(v, list):
        return [from_json(x) for x in v]
    return v


def fix_int_keys(case):
    """JSON turned the integer stage keys of the document into strings: undo"""
    def fix_stages(d):
        if isinstance(d, dict) and "stages" in d and isinstance(d["stages"], dict):
            d["stages"] = {int(k): v for k, v in d["stages"].items()}
    doc = case["doc"]
    for sect in ("blueprint", "variables"):
        for P in (doc.get(sect) or {}).values():
            fix_stages(P)
    if case.get("user"):
        fix_stages(case["user"])
    return case
