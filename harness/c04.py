"""C04 - Resolved component configuration follows the documented layering order.

Implementation under test (real code, in-process):
    FlowIRConcrete(doc, platform, {}) [+ FlowIRExperimentConfiguration._patch_in_variable_files for user
    variables] .get_component_configuration(comp, raw=False, include_default=True, platform=P[, is_primitive])
    plus direct calls of FlowIR.override_object / FlowIR.interpolate for the unit-level relations.
Model: lean/St4sd/Model/{Tree,Interp,Convert,Resolve}.lean via drv-c04.  Theorems: lean/St4sd/Props/C04.lean.

Besides single questions to a fresh object: (g) the same cases asked with every combination of the keyword
arguments raw / include_default / is_primitive / inject_missing_fields (model: Tree.resolveF), and (h) sequences
of read-only operations on ONE FlowIRConcrete that describes several components per stage (queries of every
keyword variant, instance(), replicate(), raw(), copy(), component / blueprint / variable getters - every
returned object is scribbled on -, reference getters without a write) with points at which EVERY component is
fully resolved on every platform: each answer is compared with the model's resolution of the ORIGINAL
description, with the layering oracle computed from the ORIGINAL document, and with a fresh object that was
never asked anything else; the description must not change.

(i) Flattened views: the runtime does not execute the package description but FlowIRConcrete.instance(platform)
of it (FlowIRExperimentConfiguration(primitive=False) -> replicate() -> instance(); flowir_instance.yaml).  Every
case of (a)-(e) and every sequence is therefore ALSO resolved through FlowIRConcrete(instance(P)),
FlowIRConcrete(replicate(P)) and FlowIRExperimentConfiguration(primitive=False).configurationForNode: the same
layering / substitution / type oracles are evaluated on those answers (slugs end in -in-flattened-view), the
document instance() returns is compared with the model's Tree.flatten, and the answers with the model's resolution
of the ORIGINAL description (theorems flatten_preserves_layering / flatten_preserves_resolution).
(j) Primitive look-ups inside sequences: some components of a sequence are NOT replicated but mention
%(replica)s (in the arguments, in a typed option, in a variable): their primitive resolution (tolerated) and their
strict one (an error) differ; validate() (which resolves every component in primitive mode) is one of the read-only
operations and primitive queries are placed before strict ones: the strict answer must stay the error.

Oracles (model independent): `spec_*` below restate the property on the implementation's answer:
  * the value of an option/variable = the one of the highest-priority layer that defines it
    (None does not count for options), layers of other platforms are never visible;
  * after a successful resolution no reference to a *defined* variable is left, a reference to an
    undefined variable makes the resolution fail (never left in place / replaced);
  * typed options carry their declared type.
"""
from __future__ import annotations

import copy
import itertools
import json
import logging
import os
import re
import shutil
import sys
import tempfile

FUEL = 400
VARPAT = re.compile(r'%\([a-zA-Z0-9_.-]+\)s')

# layer names, lowest priority first (the order the property text gives)
OPT_LAYERS = ["DG", "DS", "PG", "PS", "C", "O"]          # + built-in defaults below all of them
VAR_LAYERS = ["DG", "DS", "PG", "PS", "U", "C", "O"]
FOREIGN = ["QG", "QS", "QO"]                             # another platform: must never be visible


def _F():
    import experiment.model.frontends.flowir as F
    return F


def _quiet():
    logging.disable(logging.CRITICAL)
    sys.setrecursionlimit(max(1000, min(sys.getrecursionlimit(), 3000)))


# ----------------------------------------------------------------------------------------
# canonical forms
# ----------------------------------------------------------------------------------------

def to_json(v):
    """Python value -> the JSON the model driver speaks (floats as {"$flt": repr})"""
    if isinstance(v, bool) or v is None or isinstance(v, str):
        return v
    if isinstance(v, int):
        return v
    if isinstance(v, float):
        return {"$flt": repr(v)}
    if isinstance(v, dict):
        return {str(k): to_json(x) for k, x in v.items()}
    if isinstance(v, (list, tuple)):
        return [to_json(x) for x in v]
    return {"$other": type(v).__name__}


def err_kind(exc):
    import experiment.model.errors as E
    n = type(exc).__name__
    table = {"FlowIRVariableUnknown": "unknown-variable", "FlowIRVariableInvalid": "invalid-variable",
             "FlowIRVariablesIncomplete": "incomplete-variable", "RecursionError": "recursion",
             "FlowIRFailedComponentConvertType": "invalid-type", "AttributeError": "type-clash",
             "FlowIRPlatformUnknown": "platform-unknown", "FlowIRComponentUnknown": "component-unknown",
             "FlowIRComponentExists": "component-exists", "FlowIRInconsistency": "inconsistent",
             "KeyError": "key-error", "TypeError": "key-error"}
    k = table.get(n, "other:" + n)
    out = {"error": k}
    if k == "unknown-variable":
        out["name"] = getattr(exc, "variable_route", None)
    return out


def desc_of(concrete):
    """the part of the description the resolver reads, as the model's Desc JSON"""
    return desc_of_raw(concrete.raw(), concrete.platforms)


def desc_of_raw(raw, platforms):
    bp = {}
    for P, b in (raw.get("blueprint") or {}).items():
        b = b or {}
        e = {"stages": {str(i): to_json(v) for i, v in (b.get("stages") or {}).items()}}
        if "global" in b:
            e["global"] = to_json(b["global"])
        bp[P] = e
    vs = {}
    for P, b in (raw.get("variables") or {}).items():
        b = b or {}
        vs[P] = {"global": to_json(b.get("global") or {}),
                 "stages": {str(i): to_json(v or {}) for i, v in (b.get("stages") or {}).items()}}
    comps = [{"stage": c["stage"], "name": c["name"], "body": to_json(c)} for c in raw["components"]]
    return {"platforms": list(platforms), "blueprint": bp, "variables": vs, "components": comps}


# ----------------------------------------------------------------------------------------
# real code drivers
# ----------------------------------------------------------------------------------------

def user_files(user):
    """the variable files of a case, first to last: None | one file (a dict) | a list of files"""
    if user is None:
        return []
    if isinstance(user, dict):
        return [user]
    return list(user)


# variable files in the INI flavour (`*.conf`): a file dictionary with a "conf" entry (how to write it) is written
# as [GLOBAL] / [STAGE<n>] sections and read by DOSINIExperimentConfiguration._fetch_user_variables; every value
# of such a file is a text (what an INI file can say)
CONF_STYLES = {"upper": "STAGE%d", "lower": "stage%d", "title": "Stage%d", "mixed": "sTaGe%d"}
# spellings the loader happens to accept because it hands the rest of the name to int(): compared with the model
# only (conf-loader stream), no oracle is stated for them
EXOTIC_STYLES = {"zero": "STAGE%02d", "space": "STAGE %d"}
CONF_DELIMS = ["=", " = ", ":", " : ", "= "]


def section_name(style, stage):
    return (CONF_STYLES.get(style) or EXOTIC_STYLES[style]) % stage


def conf_spec(rng):
    """how a .conf file is written: spelling of the stage sections, option delimiter, order of the sections"""
    return {"style": rng.choice(["upper", "upper", "lower", "title", "mixed"]),
            "delim": rng.choice(CONF_DELIMS), "order": rng.choice(["asc", "desc"])}


def conf_text(v):
    return v if isinstance(v, str) else str(v)


def confify(f, spec):
    """turn the variable file `f` (in place) into one of the INI flavour: every value becomes the text an INI
    file holds for it"""
    f["conf"] = spec
    if f.get("global"):
        f["global"] = {k: conf_text(v) for k, v in f["global"].items()}
    for st, sec in (f.get("stages") or {}).items():
        f["stages"][st] = {k: conf_text(v) for k, v in (sec or {}).items()}
    return f


def maybe_confify(rng, files, p=0.35):
    for f in files:
        if rng.random() < p:
            confify(f, conf_spec(rng))


def conf_sections(f):
    """[(section name, {option: text})] of a file of the INI flavour, in the order they are written"""
    spec = f["conf"]
    names = spec.get("names") or {}
    stages = sorted((f.get("stages") or {}).items())
    secs = [(names.get(str(st)) or section_name(spec["style"], st), dict(sec or {})) for st, sec in stages]
    glob = [("GLOBAL", dict(f["global"]))] if f.get("global") else []
    return glob + secs if spec["order"] == "asc" else list(reversed(secs)) + glob


def render_conf(sections, delim):
    lines = ["# user variables", ""]
    for name, options in sections:
        lines.append("[%s]" % name)
        for k, v in options.items():
            lines.append(("%s%s%s" % (k, delim, v)).rstrip())
        lines.append("")
    return "\n".join(lines)


def write_user_files(user, tmpdir):
    import yaml
    paths = []
    for k, content in enumerate(user_files(user)):
        if content.get("conf"):
            path = os.path.join(tmpdir, "user%d.conf" % k)
            with open(path, "w") as fh:
                fh.write(render_conf(conf_sections(content), content["conf"]["delim"]))
        else:
            path = os.path.join(tmpdir, "user%d.yaml" % k)
            with open(path, "w") as fh:
                yaml.safe_dump(content, fh)
        paths.append(path)
    return paths


def expected_user_variables(files):
    """the documented meaning of several variable files (model independent): in every scope a name has the value
    of the LAST file that defines it there; nothing else appears"""
    exp = {"global": {}, "stages": {}}
    for f in files:
        exp["global"].update(to_json(f.get("global") or {}))
        for st, vs in (f.get("stages") or {}).items():
            exp["stages"].setdefault(str(st), {}).update(to_json(vs or {}))
    return prune_empty(exp)


def build(doc, user, tmpdir, paths=None):
    """FlowIRConcrete of the document with the user's variable file(s) patched in by the real
    _patch_in_variable_files (several files: layered first to last by layer_many_variable_files);
    paths: the files are already there"""
    F = _F()
    conc = F.FlowIRConcrete(copy.deepcopy(doc), "default", {})
    desc = desc_of(conc)
    nstages = conc.get_stage_number()
    if paths is None:
        paths = write_user_files(user, tmpdir)
    if paths:
        import experiment.model.conf as C
        errs = []
        C.FlowIRExperimentConfiguration._patch_in_variable_files(paths, conc, errs)
        if errs:
            raise errs[0]
    conc.c04_source = (doc, paths)          # for the views that load document + files themselves
    return conc, desc, nstages


def impl_user_variables(doc, paths, platform):
    """get_user_variables() of a FlowIRExperimentConfiguration that reads the variable files itself"""
    F = _F()
    import experiment.model.conf as C
    try:
        conf = C.FlowIRExperimentConfiguration(None, platform, list(paths), {}, False, False, True,
                                               concrete=F.FlowIRConcrete(copy.deepcopy(doc), platform, {}),
                                               updateInstanceFiles=False, validate=False)
        return {"ok": prune_empty(user_json(conf.get_user_variables()))}
    except BaseException as exc:
        if isinstance(exc, (KeyboardInterrupt, SystemExit)):
            raise
        return {"error": type(exc).__name__}


STD_FLAGS = {"raw": False, "incl": True, "prim": False, "inject": True}
ALL_FLAGS = [{"raw": r, "incl": i, "prim": p, "inject": j}
             for r in (False, True) for i in (False, True) for p in (False, True) for j in (False, True)]


def flag_kwargs(flags):
    return dict(raw=flags["raw"], include_default=flags["incl"], is_primitive=flags["prim"],
                inject_missing_fields=flags["inject"])


def flag_tag(flags):
    return "flags:" + "".join(k[0] if flags[k] else "-" for k in ("raw", "incl", "prim", "inject"))


def impl_resolve(conc, comp, platform, prim, flags=None, keep=None):
    """one get_component_configuration call; `flags` selects raw / include_default / is_primitive /
    inject_missing_fields (default: the observed call of the property); `keep` receives the returned object"""
    try:
        if flags is not None:
            kw = dict(platform=platform, **flag_kwargs(flags))
        else:
            kw = dict(raw=False, include_default=True, platform=platform)
            if prim:
                kw["is_primitive"] = True
        res = conc.get_component_configuration(tuple(comp), **kw)
        if keep is not None:
            keep.append(res)
        return {"ok": to_json(res)}
    except BaseException as exc:  # RecursionError is not an Exception subclass issue, but be broad
        if isinstance(exc, (KeyboardInterrupt, SystemExit)):
            raise
        return err_kind(exc)


def user_json(user):
    if user is None:
        return None
    return {"global": to_json(user.get("global") or {}),
            "stages": {str(i): to_json(v or {}) for i, v in (user.get("stages") or {}).items()}}


def user_req(user):
    """the fields of a model request that describe the user's variable file(s)"""
    if isinstance(user, list):
        return {"users": [user_json(f) for f in user]}
    return {"user": user_json(user)}


def user_layers(user, stage):
    """the user-supplied layer for a component of `stage`, lowest priority first: every file's global section
    (first file to last), then every file's section for the stage (first to last)"""
    files = user_files(user)
    return ([f.get("global") or {} for f in files] +
            [(f.get("stages") or {}).get(stage) or {} for f in files])


# ----------------------------------------------------------------------------------------
# read-only operations of FlowIRConcrete (shared with harness/c08.py)
# ----------------------------------------------------------------------------------------

READ_KINDS = ["instance", "instance", "instance", "replicate", "raw", "get_component", "get_components", "blueprint",
              "blueprint", "variables", "component_variables", "variable_references", "copy", "identifiers",
              "validate", "validate"]


def scramble(tree):
    """in-place mutation of everything reachable in a returned object (the caller's copy is the caller's)"""
    if isinstance(tree, dict):
        for k in list(tree.keys()):
            v = tree[k]
            if isinstance(v, (dict, list)):
                scramble(v)
            else:
                tree[k] = "MUTATED-BY-CALLER"
        tree["injected-by-caller"] = {"x": 1}
    elif isinstance(tree, list):
        for v in tree:
            scramble(v)
        tree.append("MUTATED-BY-CALLER")


def gen_read(rng, comps, platforms, stages=(0, 1)):
    """one accessor call that hands out copies (answer not modelled); comps = [(stage, name)]"""
    what = rng.choice(READ_KINDS)
    op = {"op": "read", "what": what}
    cid = rng.choice(comps) if comps else (0, "ghost")
    if what == "instance":
        op.update(platform=rng.choice(platforms), fill_in_all=rng.random() < 0.3, prim=rng.random() < 0.5,
                  inject=rng.random() < 0.4)
    elif what == "replicate":
        op.update(platform=rng.choice(platforms))
    elif what in ("get_component", "variable_references"):
        op.update(stage=cid[0], name=cid[1])
    elif what == "component_variables":
        op.update(stage=cid[0], name=cid[1], platform=rng.choice(platforms), include=[rng.random() < 0.6 for _ in range(5)])
    elif what == "blueprint":
        op.update(which=rng.choice(["default-global", "default-stage", "platform-global", "platform-stage"]),
                  stage=rng.choice(list(stages)), platform=rng.choice(platforms))
    elif what == "variables":
        op.update(which=rng.choice(["default-global", "default-stage", "platform-global", "platform-stage",
                                    "platform", "global", "stage", "workflow"]),
                  stage=rng.choice(list(stages)), platform=rng.choice(platforms))
    return op


op_raised = []      # accessor calls that raised (reported as tags: they must stay the exception)


def apply_read(conc, op):
    """runs the accessor on the real object, then scribbles all over what it returned; errors are part of
    the game (e.g. instance() of a description with an unresolvable reference) and are not compared"""
    what = op["what"]
    try:
        cid = (op.get("stage"), op.get("name"))
        if what == "instance":
            res = conc.instance(platform=op["platform"], ignore_errors=True, fill_in_all=op["fill_in_all"],
                                is_primitive=op["prim"], inject_missing_fields=op["inject"])
        elif what == "replicate":
            res = conc.replicate(platform=op["platform"], ignore_errors=True)
        elif what == "raw":
            res = conc.raw()
        elif what == "get_component":
            res = conc.get_component(cid)
        elif what == "get_components":
            res = conc.get_components()
        elif what == "variable_references":
            res = conc.get_component_variable_references(cid)
        elif what == "component_variables":
            inc = op["include"]
            res = conc.get_component_variables(cid, platform=op["platform"], include_default_global=inc[0],
                                               include_default_stage=inc[1], include_platform_global=inc[2],
                                               include_platform_stage=inc[3], include_platform_override=inc[4])
        elif what == "blueprint":
            w = op["which"]
            res = (conc.get_default_global_blueprint() if w == "default-global" else
                   conc.get_default_stage_blueprint(op["stage"]) if w == "default-stage" else
                   conc.get_platform_blueprint(op["platform"]) if w == "platform-global" else
                   conc.get_platform_stage_blueprint(op["stage"], op["platform"]))
        elif what == "variables":
            w = op["which"]
            res = (conc.get_default_global_variables() if w == "default-global" else
                   conc.get_default_stage_variables(op["stage"]) if w == "default-stage" else
                   conc.get_platform_global_variables(op["platform"]) if w == "platform-global" else
                   conc.get_platform_stage_variables(op["stage"], op["platform"]) if w == "platform-stage" else
                   conc.get_platform_variables(op["platform"]) if w == "platform" else
                   conc.get_global_variables() if w == "global" else
                   conc.get_stage_variables(op["stage"]) if w == "stage" else
                   conc.get_workflow_variables())
        elif what == "copy":
            other = conc.copy()
            other.set_global_variable("g", "SET-ON-THE-COPY")
            for c in other.get_components(return_copy=False):
                scramble(c)
            res = None
        elif what == "identifiers":
            conc.get_component_identifiers(recompute=True)
            res = None
        elif what == "validate":
            # resolves every component in PRIMITIVE mode (every configuration load ends with it); returns errors
            res = conc.validate()
        else:
            raise ValueError(what)
        scramble(res)
    except BaseException as exc:
        if isinstance(exc, (KeyboardInterrupt, SystemExit)):
            raise
        op_raised.append(what + ":" + type(exc).__name__)
    return {"ok": None}


def prune_empty(v):
    """{} and a missing key mean the same in the blueprint / variables sections (the accessors create the
    empty scopes they look at)"""
    if isinstance(v, dict):
        out = {k: prune_empty(x) for k, x in v.items()}
        return {k: x for k, x in out.items() if x != {}}
    return v


def desc_norm(conc):
    d = desc_of(conc)
    return {"platforms": sorted(d["platforms"]), "blueprint": prune_empty(d["blueprint"]),
            "variables": prune_empty(d["variables"]),
            "components": sorted(d["components"], key=lambda c: (c["stage"], c["name"]))}


def first_difference(a, b, path=()):
    """route of the first difference of two JSON trees (for failure details)"""
    if isinstance(a, dict) and isinstance(b, dict):
        for k in sorted(set(a) | set(b), key=str):
            if k not in a or k not in b:
                return {"route": list(path + (k,)), "before": a.get(k, "<absent>"), "after": b.get(k, "<absent>")}
            d = first_difference(a[k], b[k], path + (k,))
            if d is not None:
                return d
        return None
    if isinstance(a, list) and isinstance(b, list) and len(a) == len(b):
        for i, (x, y) in enumerate(zip(a, b)):
            d = first_difference(x, y, path + (i,))
            if d is not None:
                return d
        return None
    return None if a == b else {"route": list(path), "before": a, "after": b}


# ----------------------------------------------------------------------------------------
# flattened views: what the runtime executes
# ----------------------------------------------------------------------------------------

VIEWS = ("instance", "stored", "replicate", "conf")
# other entry points for document + variable FILES (the files are read by the object itself)
FILE_VIEWS = ("conf-files", "reparam")
# views whose document is compared with Tree.flatten: view -> (is_primitive, inject_missing_fields)
FLAT_MODES = {"instance": (False, True), "stored": (True, False)}


def open_view(conc, platform, view):
    """a FLATTENED form of the description held by `conc` for `platform` (read-only for `conc`):
    instance  - FlowIRConcrete(conc.instance(platform, ignore_errors=True, fill_in_all=False), platform)
    stored    - the same with is_primitive=True, inject_missing_fields=False: the document that
                store_unreplicated_flowir_to_disk writes to flowir_instance.yaml (what a restart loads)
    replicate - FlowIRConcrete(conc.replicate(platform, ignore_errors=True), platform): what
                FlowIRExperimentConfiguration.replicate() installs as its `_concrete`
    conf      - FlowIRExperimentConfiguration(primitive=False, concrete=copy of conc): the object the runtime asks
                (flattens, replicates, validates - every load ends with validate())
    returns (resolve(cid) -> answer of the observed strict call, the flattened FlowIRConcrete)"""
    F = _F()
    if view in FLAT_MODES:
        prim, inject = FLAT_MODES[view]
        flat = conc.instance(platform=platform, ignore_errors=True, fill_in_all=False, is_primitive=prim,
                             inject_missing_fields=inject)
        fc = F.FlowIRConcrete(flat, platform, {})
        fc.flattened_document = norm_desc_json(desc_of_raw(flat, flat["platforms"]))     # what instance() returned
    elif view == "replicate":
        fc = F.FlowIRConcrete(conc.replicate(platform=platform, ignore_errors=True), platform, {})
    elif view == "conf":
        import experiment.model.conf as C
        conf = C.FlowIRExperimentConfiguration(None, platform, [], {}, False, False, False,
                                               concrete=F.FlowIRConcrete(conc.raw(), platform, {}),
                                               updateInstanceFiles=False, validate=False)

        def ask(cid):
            try:
                return {"ok": to_json(conf.configurationForNode("stage%d.%s" % (cid[0], cid[1]), raw=False))}
            except BaseException as exc:
                if isinstance(exc, (KeyboardInterrupt, SystemExit)):
                    raise
                return err_kind(exc)
        return ask, conf.get_flowir_concrete(return_copy=False)
    elif view in FILE_VIEWS:
        # the runtime's own route: FlowIRExperimentConfiguration reads the variable files itself
        # (conf-files), or is re-parametrised with them after it was constructed with OTHER files (reparam:
        # parametrize() starts again from the original document; nothing of the first load may survive)
        import experiment.model.conf as C
        doc, paths = conc.c04_source
        first = list(paths) if view == "conf-files" else list(reversed(paths))[:1]
        conf = C.FlowIRExperimentConfiguration(None, platform, first, {}, False, False, False,
                                               concrete=F.FlowIRConcrete(copy.deepcopy(doc), platform, {}),
                                               updateInstanceFiles=False, validate=False)
        if view == "reparam":
            conf.parametrize(platform, list(paths), {}, False, False, False, updateInstanceFiles=False,
                             validate=False)

        def ask(cid):
            try:
                return {"ok": to_json(conf.configurationForNode("stage%d.%s" % (cid[0], cid[1]), raw=False))}
            except BaseException as exc:
                if isinstance(exc, (KeyboardInterrupt, SystemExit)):
                    raise
                return err_kind(exc)
        return ask, conf.get_flowir_concrete(return_copy=False)
    else:
        raise ValueError(view)
    return (lambda cid: impl_resolve(fc, cid, None, False)), fc


def try_view(conc, platform, view):
    """(resolver, flattened concrete, None) or (None, None, error) when the flattened form cannot be built
    (e.g. the description holds a cyclic definition: instance() raises)"""
    try:
        ask, fc = open_view(conc, platform, view)
        return ask, fc, None
    except BaseException as exc:
        if isinstance(exc, (KeyboardInterrupt, SystemExit)):
            raise
        return None, None, err_kind(exc)


def without_override(ans):
    """the answer of a resolution without (i) the raw `override` blocks (a flattened description keeps only the
    block of the selected platform) and (ii) the derived flag workflowAttributes.isRepeat, which
    FlowIRConcrete.__init__ recomputes from repeatInterval AFTER the flattening converted its type (the text "0"
    counts as a repeat interval before the conversion and not after it)"""
    if isinstance(ans, dict) and isinstance(ans.get("ok"), dict):
        out = {k: v for k, v in ans["ok"].items() if k != "override"}
        if isinstance(out.get("workflowAttributes"), dict):
            out["workflowAttributes"] = {k: v for k, v in out["workflowAttributes"].items() if k != "isRepeat"}
        return {"ok": out}
    return ans


def norm_desc_json(d):
    """the model's Desc JSON in the normal form of desc_norm"""
    return {"platforms": sorted(d["platforms"]), "blueprint": prune_empty(d["blueprint"]),
            "variables": prune_empty(d["variables"]),
            "components": sorted(d["components"], key=lambda c: (c["stage"], c["name"]))}


FLATTEN_REL = "FlowIRConcrete.instance(P, ignore_errors=True) == Tree.flatten"
VIEW_REL = ("resolution through the flattened description == Tree.resolve of the ORIGINAL description "
            "(flatten_preserves_resolution)")


# ----------------------------------------------------------------------------------------
# generators
# ----------------------------------------------------------------------------------------

# option -> (route, value generator per layer tag). The values are already of the declared type so that the
# priority oracle can compare them directly.
OPTION_POOL = [
    (("command", "arguments"), lambda t, k: "-x " + t),
    (("command", "executable"), lambda t, k: "/bin/" + t),
    (("command", "environment"), lambda t, k: "env" + t),
    (("resourceRequest", "numberProcesses"), lambda t, k: 10 + k),
    (("workflowAttributes", "maxRestarts"), lambda t, k: 20 + k),
    (("workflowAttributes", "repeatRetries"), lambda t, k: 30 + k),
    (("resourceManager", "lsf", "queue"), lambda t, k: "q" + t),
    (("resourceManager", "kubernetes", "image"), lambda t, k: "img:" + t),
    (("resourceManager", "config", "backend"), lambda t, k: "b" + t),
    (("workflowAttributes", "memoization", "embeddingFunction"), lambda t, k: "js" + t),   # untyped leaf
    (("workflowAttributes", "shutdownOn"), lambda t, k: ["KnownIssue", t]),                 # list leaf
    (("executors", "pre"), lambda t, k: [{"name": t}]),
    (("custom", "deep", "leaf"), lambda t, k: "z" + t),                                     # not in the defaults
]


def set_route(d, route, value):
    for k in route[:-1]:
        d = d.setdefault(k, {})
    d[route[-1]] = value


def get_route(d, route):
    for k in route:
        if not isinstance(d, dict) or k not in d:
            return ("absent",)
        d = d[k]
    return ("value", d)


def base_doc():
    return {
        "platforms": ["default", "p", "q"],
        "blueprint": {"default": {"global": {}, "stages": {0: {}, 1: {}}},
                      "p": {"global": {}, "stages": {0: {}, 1: {}}},
                      "q": {"global": {}, "stages": {0: {}, 1: {}}}},
        "variables": {"default": {"global": {}, "stages": {0: {}, 1: {}}},
                      "p": {"global": {}, "stages": {0: {}, 1: {}}},
                      "q": {"global": {}, "stages": {0: {}, 1: {}}}},
        "components": [
            {"name": "c0", "stage": 0, "command": {}, "variables": {}, "override": {}},
            {"name": "c1", "stage": 1, "command": {}, "variables": {}, "override": {}},
        ],
    }


def option_target(doc, tag, stage, comp_index):
    """the dictionary of the layer `tag` into which an option is written"""
    comp = doc["components"][comp_index]
    if tag in ("DG", "PG", "QG"):
        return doc["blueprint"][{"DG": "default", "PG": "p", "QG": "q"}[tag]]["global"]
    if tag in ("DS", "PS", "QS"):
        return doc["blueprint"][{"DS": "default", "PS": "p", "QS": "q"}[tag]]["stages"][stage]
    if tag == "C":
        return comp
    if tag == "O":
        return comp["override"].setdefault("p", {})
    if tag == "QO":
        return comp["override"].setdefault("q", {})
    raise KeyError(tag)


def variable_target(doc, user, tag, stage, comp_index):
    comp = doc["components"][comp_index]
    if tag in ("DG", "PG", "QG"):
        return doc["variables"][{"DG": "default", "PG": "p", "QG": "q"}[tag]]["global"]
    if tag in ("DS", "PS", "QS"):
        return doc["variables"][{"DS": "default", "PS": "p", "QS": "q"}[tag]]["stages"][stage]
    if tag in ("U", "US", "V", "VS"):
        # U / US: global / stage section of the FIRST variable file, V / VS: of the SECOND one
        f = user if isinstance(user, dict) else user[0 if tag[0] == "U" else 1]
        return f["global"] if len(tag) == 1 else f["stages"].setdefault(stage, {})
    if tag == "C":
        return comp["variables"]
    if tag == "O":
        return comp["override"].setdefault("p", {}).setdefault("variables", {})
    if tag == "QO":
        return comp["override"].setdefault("q", {}).setdefault("variables", {})
    raise KeyError(tag)


def visible(tag, platform):
    """is the layer part of the resolution for `platform` at all?"""
    if tag in ("DG", "DS", "C", "U", "US", "V", "VS"):
        return True
    if tag in ("PG", "PS", "O"):
        return platform == "p"
    return False


def mask_case(kind, route_i, mask, nulls, foreign, platform, stage, fill=None, conf=None):
    case = {"kind": kind, "route": route_i, "mask": mask, "nulls": nulls, "foreign": foreign,
            "platform": platform, "stage": stage}
    if fill is not None:
        case["fill"] = fill     # variable files (0 / 1) that hold a section for the stage with ANOTHER name in it
    if conf is not None and any(conf):
        case["conf"] = conf     # per variable file: None (YAML) or how it is written as a .conf file
    return case


def new_user_files():
    return [{"global": {}, "stages": {}}, {"global": {}, "stages": {}}]


def trim_user_files(files):
    """None when no file says anything, otherwise the files up to the last one that does (an empty file in
    front of it is a legitimate variable file)"""
    files = list(files)
    while files and not files[-1]["global"] and not files[-1]["stages"]:
        files.pop()
    return files or None


VAR_ORDER = ["DG", "DS", "PG", "PS", "U", "V", "US", "VS", "C", "O"]      # lowest priority first


def materialise_mask(case):
    """doc/user/expected for an option-mask or variable-mask case"""
    doc = base_doc()
    user = None
    stage = case["stage"]
    ci = stage
    platform = case["platform"]
    if case["kind"] == "option-mask":
        route, gen = OPTION_POOL[case["route"]]
        expected = ("default",)
        for k, tag in enumerate(OPT_LAYERS + FOREIGN):
            present = tag in case["mask"] or tag in case["foreign"]
            if not present:
                continue
            value = None if tag in case["nulls"] else gen(tag, k)
            set_route(option_target(doc, tag, stage, ci), route, value)
            if visible(tag, platform) and value is not None:
                expected = ("value", value)
        return doc, user, {"route": list(route), "expected": expected}
    else:
        user = new_user_files()
        specs = case.get("conf") or [None, None]
        for k, spec in enumerate(specs):
            if spec:
                user[k]["conf"] = spec
        expected = ("undefined",)
        for k, tag in enumerate(VAR_ORDER + FOREIGN):
            present = tag in case["mask"] or tag in case["foreign"]
            if not present:
                continue
            value = "val-" + tag if k % 3 else 100 + k        # strings and integers
            if tag in ("U", "US", "V", "VS") and specs[0 if tag[0] == "U" else 1]:
                value = conf_text(value)                       # an INI file holds texts
            variable_target(doc, user, tag, stage, ci)["v"] = value
            if visible(tag, platform):
                expected = ("value", value)
        for k in case.get("fill") or []:
            # the file has a section for this stage (and one for the other stage) that does not mention `v`
            user[k]["stages"].setdefault(stage, {})["other%d" % k] = "o%d" % k
            user[k]["stages"].setdefault(1 - stage, {})["v"] = "wrong-stage-%d" % k
        doc["components"][ci]["command"]["arguments"] = "<%(v)s>"
        return doc, trim_user_files(user), {"expected": expected}


def gen_chain(rng):
    """variables referring to variables, spread over the layers; depth <= 6"""
    depth = rng.randint(1, 6)
    platform = rng.choice(["default", "p"])
    stage = rng.choice([0, 1])
    doc = base_doc()
    user = new_user_files()
    names = ["a%d" % i for i in range(depth + 1)]
    tags = ["DG", "DS", "U", "US", "V", "VS", "C"] + (["PG", "PS", "O"] if platform == "p" else [])
    defs = {}
    lit = rng.choice(["lit", "x y", "42", "", "100%", "a(b)c", "%d", "s)"])
    scalar = rng.choice([None, None, 7, True, 2.5])
    for i, n in enumerate(names):
        if i == 0:
            value = lit if scalar is None else scalar
        else:
            shape = rng.choice(["plain", "plain", "pre", "post", "twice", "two"])
            ref = "%%(%s)s" % names[i - 1]
            if shape == "plain":
                value = ref
            elif shape == "pre":
                value = "p" + ref
            elif shape == "post":
                value = ref + "/q"
            elif shape == "twice":
                value = ref + ":" + ref
            else:
                value = ref + "+" + "%%(%s)s" % names[rng.randrange(i)]
        defs[n] = value
        variable_target(doc, user, rng.choice(tags), stage, stage)[n] = value
    fault = rng.choice(["none", "none", "none", "undefined", "foreign-only", "incomplete", "invalid", "cycle",
                        "self", "replica", "replica-prim"])
    top = "run %%(%s)s --opt=%%(%s)s" % (names[-1], names[rng.randrange(len(names))])
    prim = False
    if fault == "undefined":
        victim = rng.randrange(len(names))
        if victim == 0 or rng.random() < 0.3:
            top += " %(nowhere)s"
        else:
            # remove a definition in the middle of the chain
            n = names[victim - 1]
            for coll in all_var_dicts(doc, user):
                coll.pop(n, None)
            del defs[n]
    elif fault == "foreign-only":
        # defined, but only on another platform: must be as good as undefined
        tag = rng.choice(FOREIGN if platform == "p" else FOREIGN + ["PG", "PS", "O"])
        variable_target(doc, user, tag, stage, stage)["elsewhere"] = "leak"
        top += " %(elsewhere)s"
    elif fault == "incomplete":
        top += " %(" + names[0] + ")"
    elif fault == "invalid":
        variable_target(doc, user, "C", stage, stage)["bad"] = rng.choice([None, [1, 2], {"k": "v"}])
        top += " %(bad)s"
    elif fault == "cycle":
        variable_target(doc, user, "C", stage, stage)["cy1"] = "%(cy2)s"
        variable_target(doc, user, "DG", stage, stage)["cy2"] = "x%(cy1)s"
        top += " %(cy1)s"
    elif fault == "self":
        variable_target(doc, user, "C", stage, stage)["a"] = "%(a)s"
        top += " %(a)s"
    elif fault in ("replica", "replica-prim"):
        top += " %(replica)s"
        prim = fault == "replica-prim"
    where = rng.choice(["arguments", "environment", "queue", "list"])
    comp = doc["components"][stage]
    if where == "arguments":
        comp["command"]["arguments"] = top
    elif where == "environment":
        comp["command"]["environment"] = top
    elif where == "queue":
        comp.setdefault("resourceManager", {}).setdefault("lsf", {})["queue"] = top
    else:
        comp["references"] = []
        comp.setdefault("workflowAttributes", {})["shutdownOn"] = ["KnownIssue", top]
    maybe_confify(rng, user)
    user = trim_user_files(user)
    return {"kind": "chain", "doc": doc, "user": user, "platform": platform, "stage": stage, "prim": prim,
            "fault": fault, "where": where, "top": top}


# array-indexed references: %(v)s[3] / %(v)s[%(i)s] ------------------------------------------------------

ARRAY_WORDS = ["h4t4", "h6t5", "h8t5", "c60", "x1", "x2", "0.5", "w-a", "w_b", "7", "True", "p/q", "a=b", "z9",
               "m.n", "k:v"]
ARRAY_TEXTS = [" ", " --all ", " --mine ", " => ", ":", "", "/", " -n", "x", "=", ", ", " run "]


def render_segs(segs):
    """the text of a list of occurrences: ["t", text] | ["r", name] | ["i", name, n] | ["v", name, index-name]"""
    out = []
    for g in segs:
        if g[0] == "t":
            out.append(g[1])
        elif g[0] == "r":
            out.append("%%(%s)s" % g[1])
        elif g[0] == "i":
            out.append("%%(%s)s[%d]" % (g[1], g[2]))
        else:
            out.append("%%(%s)s[%%(%s)s]" % (g[1], g[2]))
    return "".join(out)


def spec_segs(segs, variables):
    """'layer, then substitute' for a text given as its occurrences: every occurrence is replaced by the value of
    its variable (plain) / by the n-th blank-separated word of that value (indexed); None = some variable is
    undefined / the index is not a position of the array"""
    out = []
    for g in segs:
        if g[0] == "t":
            out.append(g[1])
            continue
        val = spec_substitute("%%(%s)s" % g[1], variables)
        if val is None:
            return None
        if g[0] == "r":
            out.append(val)
            continue
        if g[0] == "i":
            n = g[2]
        else:
            idx = spec_substitute("%%(%s)s" % g[2], variables)
            if idx is None or not idx.strip().isdigit():
                return None
            n = int(idx)
        words = val.split()
        if n >= len(words):
            return None
        out.append(words[n])
    return "".join(out)


def gen_segs(rng, arrays, indices, sizes, shape=None):
    """2-5 occurrences over the array variables `arrays` (index variables `indices`, every array has at least
    sizes[name] words on every layer) separated by constant texts; shapes: plain-then-indexed (the same variable
    first plainly, later with an index), indexed-then-plain, only-plain, only-indexed, mixed"""
    shape = shape or rng.choice(["plain-then-indexed", "plain-then-indexed", "indexed-then-plain", "only-plain",
                                 "only-indexed", "mixed", "mixed"])

    def indexed(name):
        if indices and rng.random() < 0.5:
            return ["v", name, rng.choice(indices)]
        if sizes[name] >= 11 and rng.random() < 0.6:
            return ["i", name, rng.choice([9, 10, 10, sizes[name] - 1])]
        return ["i", name, rng.randrange(sizes[name])]

    a = rng.choice(arrays)
    if shape == "plain-then-indexed":
        occ = [["r", a]] * rng.randint(1, 2) + [indexed(a)] + ([["r", a]] if rng.random() < 0.3 else [])
    elif shape == "indexed-then-plain":
        occ = [indexed(a)] + [["r", a]] * rng.randint(1, 2)
    elif shape == "only-plain":
        occ = [["r", rng.choice(arrays)] for _ in range(rng.randint(2, 3))]
    elif shape == "only-indexed":
        occ = [indexed(rng.choice(arrays)) for _ in range(rng.randint(1, 3))]
    else:
        occ = [rng.choice([["r", n], indexed(n)]) for n in (rng.choice(arrays) for _ in range(rng.randint(2, 5)))]
    segs = [["t", rng.choice(["", "", "--x ", "run ", "a "])]]
    for k, o in enumerate(occ):
        segs.append(list(o))
        segs.append(["t", rng.choice(ARRAY_TEXTS) if k + 1 < len(occ) else rng.choice(["", "", " end", "/q"])])
    return shape, segs


def gen_array(rng):
    """array variables (blank separated words; 2-4 or 11-13 of them; possibly built from another variable) and
    integer index variables defined by random subsets of the variable layers with DIFFERENT values per layer,
    used from the component's arguments / another option and from a variable of the component, plainly and with
    literal / variable indices in every order"""
    platform = rng.choice(["default", "p"])
    stage = rng.choice([0, 1])
    doc = base_doc()
    user = new_user_files()
    tags = ["DG", "DS", "U", "US", "V", "VS", "C"] + (["PG", "PS", "O"] if platform == "p" else [])
    arrays, sizes = ["arr"] + (["mol"] if rng.random() < 0.5 else []), {}
    for name in arrays:
        big = rng.random() < 0.25
        sizes[name] = 11 if big else 2
        for tag in rng.sample(tags, rng.randint(1, 3)):
            words = rng.sample(ARRAY_WORDS, rng.randint(11, 13) if big else rng.randint(2, 4))
            value = rng.choice([" ", " ", "  "]).join(words)
            if rng.random() < 0.3 and len(words) > 2:
                # a chain: part of the array comes from another variable (defined in the lowest layer)
                base = "base_" + name
                variable_target(doc, user, "DG", stage, stage)[base] = " ".join(words[:2])
                value = "%%(%s)s %s" % (base, " ".join(words[2:]))
            variable_target(doc, user, tag, stage, stage)[name] = value
        for tag in rng.sample(FOREIGN, rng.randint(0, 2)):
            variable_target(doc, user, tag, stage, stage)[name] = "leak0 leak1 leak2 leak3 leak4 leak5 leak6 leak7 leak8 leak9 leak10 leak11"
    indices = []
    for name in rng.sample(["which", "idx"], rng.randint(0, 2)):
        indices.append(name)
        top = min(sizes.values())
        for tag in rng.sample(tags, rng.randint(1, 3)):
            variable_target(doc, user, tag, stage, stage)[name] = rng.randrange(top)
        if rng.random() < 0.25:
            # the index through a chain
            variable_target(doc, user, "DG", stage, stage)["n_" + name] = rng.randrange(top)
            variable_target(doc, user, rng.choice(tags), stage, stage)[name] = "%%(n_%s)s" % name
    fault = rng.choice(["none"] * 8 + ["undefined-array", "undefined-index"])
    shape, segs = gen_segs(rng, arrays, indices, sizes)
    if fault == "undefined-array":
        segs += [["i", "nowhere", 0], ["t", ""]]
    elif fault == "undefined-index":
        segs += [["v", arrays[0], "nowhere"], ["t", ""]]
    where = rng.choice(["arguments", "arguments", "queue", "list"])
    comp = doc["components"][stage]
    top = render_segs(segs)
    if where == "arguments":
        comp["command"]["arguments"] = top
    elif where == "queue":
        comp.setdefault("resourceManager", {}).setdefault("lsf", {})["queue"] = top
    else:
        comp["references"] = []
        comp.setdefault("workflowAttributes", {})["shutdownOn"] = ["KnownIssue", top]
    vshape, vsegs = None, None
    if rng.random() < 0.6:
        # a variable of the component itself built the same way (it may be used by the arguments too)
        vshape, vsegs = gen_segs(rng, arrays, indices, sizes)
        variable_target(doc, user, "O" if platform == "p" and rng.random() < 0.4 else "C", stage, stage)["report"] = \
            render_segs(vsegs)
        if where != "arguments":
            comp["command"]["arguments"] = "report: %(report)s."
    maybe_confify(rng, user)
    user = trim_user_files(user)
    return {"kind": "array", "doc": doc, "user": user, "platform": platform, "stage": stage, "prim": False,
            "fault": fault, "where": where, "top": top, "segs": segs, "shape": shape, "vsegs": vsegs,
            "vshape": vshape}


def expected_array(case):
    """(expected text of the option that holds `top`, expected value of the variable `report` or None,
    expected arguments when they quote the variable or None) by layering the variables of the ORIGINAL document
    in the documented order and replacing every occurrence by its own value"""
    comp = case["doc"]["components"][case["stage"]]
    variables = layered_variables(case["doc"], case["user"], case["platform"], comp)
    top = spec_segs(case["segs"], variables)
    report = spec_segs(case["vsegs"], variables) if case.get("vsegs") else None
    quoted = None
    if case.get("vsegs") and case["where"] != "arguments" and report is not None:
        quoted = "report: %s." % report
    return top, report, quoted


SIB_NAMES = ["alpha", "beta", "gamma", "delta", "c0", "c1", "s0", "zeta9", "a", "b"]
SIB_STAGES = [0, 1, 0, 1, 2, 10, 11]


def gen_siblings(rng):
    """2-4 components in ONE stage plus one in another stage.  2-4 shared names are defined by random outer
    layers (global / stage sections of default and p, one or two variable files) - at most one of them by no
    outer layer at all; decoys sit in the sections of ANOTHER stage and of platform q.  Every component
    privately (own variables or its override for p) re-defines some of the shared names and reaches the others
    through variables of its OWN (`use_n1: <%(n1)s>`) and directly from its arguments.  The private definitions
    are arranged so that for every pair of siblings each one re-defines a name the other one reaches: in whichever
    order an implementation visits the components of the stage, a private variable that leaks from one sibling
    to the next changes an answer.  Returns one case per component (same document)."""
    doc = base_doc()
    platform = rng.choice(["default", "p"])
    stage = rng.choice(SIB_STAGES)
    other = rng.choice([st for st in (0, 1, 2, 10) if st != stage])
    for sect in ("blueprint", "variables"):
        for P in doc[sect].values():
            P["stages"] = {stage: {}, other: {}}
    cnames = rng.sample(SIB_NAMES, rng.randint(2, 4))
    doc["components"] = [{"name": n, "stage": stage, "command": {}, "variables": {}, "override": {}} for n in cnames]
    doc["components"].append({"name": rng.choice(SIB_NAMES), "stage": other, "command": {}, "variables": {},
                              "override": {}})
    shared = ["n%d" % k for k in range(max(2, rng.randint(2, 4), len(cnames)))]
    user = new_user_files()
    outer_tags = ["DG", "DS", "U", "US", "V", "VS"] + (["PG", "PS"] if platform == "p" else [])
    undefined = rng.choice(shared) if rng.random() < 0.3 else None
    for n in shared:
        if n != undefined:
            for tag in rng.sample(outer_tags, rng.randint(1, 2)):
                variable_target(doc, user, tag, stage, 0)[n] = rng.choice(["%s@%s" % (n, tag), 7, True])
        # decoys: the same name in the sections of another stage and of another platform
        for tag in rng.sample(["DS", "US", "VS", "PS", "QG", "QS"], rng.randint(0, 2)):
            st = stage if tag in ("QG", "QS") else other
            variable_target(doc, user, tag, st, 0)[n] = "decoy-%s-%s" % (n, tag)
    for f in user:
        if rng.random() < 0.5:
            f["stages"].setdefault(stage, {})["unrelated"] = "u"       # a section for the stage in this file too
    for k, comp in enumerate(doc["components"]):
        own, ovr = comp["variables"], {}
        shadows = {shared[k % len(shared)]} | {n for n in shared if rng.random() < 0.25}
        if len(shadows) == len(shared):
            shadows.discard(shared[(k + 1) % len(shared)])
        for n in sorted(shadows):
            (ovr if platform == "p" and rng.random() < 0.3 else own)[n] = "%s-private-of-%s" % (n, comp["name"])
        reached = [n for n in shared if n not in shadows]
        if comp["stage"] != stage:
            # the outer definitions were made for `stage`: here several names may be undefined - reach only one
            # (at most one kind of error per case)
            reached = [rng.choice(reached)]
        top = []
        for n in reached:
            r = rng.random()
            if r < 0.75:
                shape = rng.choice(["%%(%s)s", "<%%(%s)s>", "%%(%s)s/%%(%s)s"])
                (ovr if platform == "p" and rng.random() < 0.2 else own)["use_" + n] = shape % ((n,) * shape.count("%s"))
                top.append("%%(use_%s)s" % n)
            if r > 0.6:
                top.append("%%(%s)s" % n)
        if rng.random() < 0.5:
            top.append("%%(%s)s" % rng.choice(sorted(shadows)))
        comp["command"]["arguments"] = " ".join(top) or "nothing"
        if ovr:
            comp["override"]["p"] = {"variables": ovr}
    maybe_confify(rng, user, 0.45)
    user = trim_user_files(user)
    asked = list(doc["components"])
    # stage indices are contiguous: a plain component in every stage that has none
    for st in range(max(stage, other)):
        if st not in (stage, other):
            doc["components"].append({"name": "pad", "stage": st, "command": {"arguments": "pad"}, "variables": {},
                                      "override": {}})
    return [{"kind": "siblings", "doc": doc, "user": user, "platform": platform, "stage": c["stage"], "name": c["name"],
             "prim": False, "undefined": undefined} for c in asked]


STAGE_VARS = ["x", "tag", "n"]


def gen_stages(rng):
    """a workflow with 12-14 stages, one component (the SAME name) per stage.  The package defines three
    variables globally and re-defines some of them for some stages (default platform and p); the user supplies
    one or two variable files - YAML or INI flavour (.conf: [GLOBAL] / [STAGE<n>] sections spelled in any letter
    case, written in ascending or descending order) - with sections for a random subset of the stages in which
    the stages 1, 10, 11 and the last one are frequent.  Every value says which file, name and stage it was
    written for.  Every component reaches the three names from its arguments, half of them through a variable of
    their own too.  One case per stage (same document); the first one also compares get_user_variables()."""
    N = rng.randint(12, 14)
    platform = rng.choice(["default", "p"])
    doc = base_doc()
    for sect in ("blueprint", "variables"):
        for P in doc[sect].values():
            P["stages"] = {st: {} for st in range(N)}
    cname = rng.choice(SIB_NAMES)
    doc["components"] = [{"name": cname, "stage": st, "command": {}, "variables": {}, "override": {}}
                         for st in range(N)]
    frequent = [1, 10, 11, N - 1]
    for n in STAGE_VARS:
        doc["variables"]["default"]["global"][n] = "pkg-%s" % n
    for st in range(N):
        for tag in ("DS",) + (("PG", "PS") if platform == "p" else ()):
            if rng.random() < (0.4 if st in frequent else 0.12):
                n = rng.choice(STAGE_VARS)
                variable_target(doc, None, tag, st, st)[n] = "pkg-%s-%s-stage%d" % (tag, n, st)
    user = new_user_files()
    for k, f in enumerate(user):
        if k == 1 and rng.random() < 0.45:
            continue
        if rng.random() < 0.7:
            f["global"][rng.choice(STAGE_VARS)] = "user%d-global" % k
        for st in range(N):
            if rng.random() < (0.6 if st in frequent else 0.15):
                sec = f["stages"].setdefault(st, {})
                for n in STAGE_VARS:
                    r = rng.random()
                    if r < 0.45:
                        sec[n] = "user%d-%s-stage%d" % (k, n, st)
                    elif r < 0.6:
                        sec[n] = 1000 * (k + 1) + st
        if rng.random() < 0.65:
            confify(f, conf_spec(rng))
    user = trim_user_files(user)
    for comp in doc["components"]:
        top = ["%%(%s)s" % n for n in STAGE_VARS]
        if rng.random() < 0.5:
            n = rng.choice(STAGE_VARS)
            comp["variables"]["use"] = "<%%(%s)s>" % n
            top.append("%(use)s")
        if rng.random() < 0.15:
            n = rng.choice(STAGE_VARS)
            comp["variables"][n] = "%s-own-of-stage%d" % (n, comp["stage"])
        comp["command"]["arguments"] = " ".join(top)
    cases = []
    for st in range(N):
        case = {"kind": "stages", "doc": doc, "user": user, "platform": platform, "stage": st, "name": cname,
                "prim": False}
        if st == 0 and user is not None:
            case["check_user_vars"] = True
        if user is not None and st in (1, 10, 11) and rng.random() < 0.6:
            case["views"] = ["instance", rng.choice(["conf-files", "conf-files", "reparam"])]
        cases.append(case)
    return cases


def layered_variables(doc, user, platform, comp):
    """the variables of a component by the documented order (independent of the code and of the model): default
    global < default stage < platform global < platform stage < the user's files (first to last; global sections,
    then the sections of the stage) < the component's own < its override for the platform"""
    stage = comp["stage"]
    order = [doc["variables"]["default"]["global"], doc["variables"]["default"]["stages"].get(stage, {})]
    if platform != "default":
        order += [doc["variables"][platform]["global"], doc["variables"][platform]["stages"].get(stage, {})]
    order += user_layers(user, stage)
    order += [comp.get("variables", {})]
    order += [((comp.get("override") or {}).get(platform) or {}).get("variables", {})]
    variables = {}
    for layer in order:
        variables.update(layer)
    return variables


def expected_sibling(case):
    """(expected arguments, expected variables) of the component the case asks about, or None when a reference
    of the component cannot be resolved from ITS layers (then the resolution must fail)"""
    comp = next(c for c in case["doc"]["components"] if (c["stage"], c["name"]) == (case["stage"], case["name"]))
    variables = layered_variables(case["doc"], case["user"], case["platform"], comp)
    exp = {}
    for k, v in variables.items():
        exp[k] = spec_substitute(v, variables) if isinstance(v, str) else v
        if exp[k] is None:
            return None
    args = spec_substitute(comp["command"]["arguments"], variables)
    return None if args is None else (args, exp)


def all_var_dicts(doc, user):
    out = []
    for P in doc["variables"].values():
        out.append(P["global"])
        out.extend(P["stages"].values())
    for c in doc["components"]:
        out.append(c["variables"])
        for o in c.get("override", {}).values():
            if "variables" in o:
                out.append(o["variables"])
    for f in user_files(user):
        out.append(f["global"])
        out.extend(f["stages"].values())
    return out


TYPED_VALUES = {
    "int": [5, "7", "-3", "+4", "007", True, False, "abc", "", "1.5", None, "%(n)s"],
    "optional_int": [5, "7", "-3", True, "abc", None, "%(n)s"],
    "float": [3, "2.5", "10", "0.50", "-0.25", True, "x", "", None, "%(n)s", "%(f)s"],
    "bool": [True, False, 0, 1, 2, "", "false", "x", None],
    "str_to_bool": [True, False, "yes", "No", "TRUE", "false", "maybe", 1, ""],
    "to_bool": [True, False, 0, 1, 2, "yes", "No", "TRUE", "false", "maybe", "x", "", None],
    "memory_to_bytes": [100, "100", "2Mi", "3Gi", "5Ki", "Mi", "x", "1.5Gi", True, None, "%(n)sMi"],
    "str_to_kubernetes_qos": ["Guaranteed", "burstable", "BESTEFFORT", "x", 1, None],
    "str": ["s", 5, -2, True, "", None, "%(n)s"],
    "dict": [{"a": 1}, {}, "x", 3, None],
}
PYTYPE = {"int": int, "optional_int": int, "float": float, "bool": bool, "str_to_bool": bool, "to_bool": bool,
          "memory_to_bytes": int, "str_to_kubernetes_qos": str, "str": str, "dict": dict}


def typed_leaves(table, prefix=()):
    for k, v in table.items():
        if isinstance(v, dict):
            yield from typed_leaves(v, prefix + (k,))
        else:
            yield prefix + (k,), v


def gen_typed(rng, table, exhaustive_index=None):
    leaves = [l for l in typed_leaves(table) if l[0] != ("command", "interpreter")]
    doc = base_doc()
    stage = rng.choice([0, 1])
    platform = rng.choice(["default", "p"])
    doc["variables"]["default"]["global"]["n"] = rng.choice([4, "12"])
    doc["variables"]["default"]["global"]["f"] = rng.choice([0.5, "1.25"])
    chosen = []
    if exhaustive_index is not None:
        route, ty = leaves[exhaustive_index[0] % len(leaves)]
        picks = [(route, ty, TYPED_VALUES[ty][exhaustive_index[1] % len(TYPED_VALUES[ty])])]
    else:
        picks = []
        for route, ty in rng.sample(leaves, rng.randint(1, 4)):
            picks.append((route, ty, rng.choice(TYPED_VALUES[ty])))
    tags = ["DG", "DS", "C"] + (["PG", "PS", "O"] if platform == "p" else [])
    for route, ty, value in picks:
        tag = rng.choice(tags)
        set_route(option_target(doc, tag, stage, stage), route, copy.deepcopy(value))
        chosen.append({"route": list(route), "type": ty, "value": to_json(value), "layer": tag})
    return {"kind": "typed", "doc": doc, "user": None, "platform": platform, "stage": stage, "prim": False,
            "chosen": chosen}


def gen_shadowed(rng):
    """a variable of an OUTER scope (global, or stage) refers to a name that an inner scope of the component
    re-defines: layering first and substituting afterwards (the property) gives the inner value; instance()
    interpolates the outer scopes on their own (Witness/C04.lean, flattened_binds_early)"""
    doc = base_doc()
    stage = rng.choice([0, 1])
    platform = rng.choice(["default", "p"])
    outer = rng.choice(["DG", "DS"] + (["PG"] if platform == "p" else []))
    inner = rng.choice((["C"] + (["O"] if platform == "p" else [])) +
                       ([] if outer == "DS" else ["DS"] + (["PS"] if platform == "p" else [])))
    variable_target(doc, None, "DG", stage, stage)["v"] = "outerV"
    variable_target(doc, None, outer, stage, stage)["g"] = "%(v)s-g"
    variable_target(doc, None, inner, stage, stage)["v"] = "innerV"
    doc["components"][stage]["command"]["arguments"] = "%(g)s"
    return {"kind": "shadowed", "doc": doc, "user": None, "platform": platform, "stage": stage, "prim": False,
            "outer": outer, "inner": inner}


def gen_structural(rng):
    """malformed / structural stream: dictionaries against scalars, falsy values at inner nodes, unknown platform"""
    doc = base_doc()
    stage = rng.choice([0, 1])
    platform = rng.choice(["default", "p"])
    what = rng.choice(["scalar-over-dict", "falsy-over-dict", "dict-over-scalar", "unknown-platform",
                       "unknown-component", "array-access", "dotted", "repeat", "foreign-override-ref"])
    comp = doc["components"][stage]
    name = comp["name"]
    if what == "scalar-over-dict":
        set_route(option_target(doc, rng.choice(["DG", "C"]), stage, stage), ("resourceRequest",), rng.choice(["big", 3, [1]]))
    elif what == "falsy-over-dict":
        set_route(option_target(doc, "DG", stage, stage), ("resourceRequest", "numberThreads"), 4)
        set_route(option_target(doc, "C", stage, stage), ("resourceRequest",), rng.choice([None, 0, "", [], False, {}]))
    elif what == "dict-over-scalar":
        set_route(option_target(doc, "DG", stage, stage), ("custom",), rng.choice(["s", 0, None]))
        set_route(option_target(doc, "C", stage, stage), ("custom",), {"k": "v"})
    elif what == "unknown-platform":
        platform = "nope"
    elif what == "unknown-component":
        name = "ghost"
    elif what == "array-access":
        comp["command"]["arguments"] = rng.choice(["a b c[1]", "%(l)s[0]", "x[%(i)s]"])
        comp["variables"]["l"] = "u v w"
        comp["variables"]["i"] = 1
    elif what == "dotted":
        comp["command"]["arguments"] = "%(a.b)s"
    elif what == "foreign-override-ref":
        # the override for ANOTHER platform mentions a variable that only exists on that platform
        doc["variables"]["q"]["global"]["qonly"] = "Q"
        comp["override"]["q"] = {"command": {"arguments": "--q=%(qonly)s"}}
    elif what == "repeat":
        set_route(option_target(doc, rng.choice(["DG", "C"]), stage, stage), ("workflowAttributes", "repeatInterval"),
                  rng.choice([0, 5, "0", "7", None, False, "%(ri)s"]))
        set_route(option_target(doc, "C", stage, stage), ("workflowAttributes", "isRepeat"), rng.choice([True, False]))
        comp["variables"]["ri"] = rng.choice([0, 3])
    return {"kind": "structural", "what": what, "doc": doc, "user": None, "platform": platform, "stage": stage,
            "name": name, "prim": False}


# ----------------------------------------------------------------------------------------
# oracles
# ----------------------------------------------------------------------------------------

def strings_of(v):
    if isinstance(v, str):
        yield v
    elif isinstance(v, dict):
        for x in v.values():
            yield from strings_of(x)
    elif isinstance(v, list):
        for x in v:
            yield from strings_of(x)


def spec_substitute(s, variables, depth=0):
    """independent re-statement of 'substitute until nothing defined remains' (None = undefined/invalid somewhere)"""
    if depth > 50:
        return None
    out = []
    pos = 0
    for m in VARPAT.finditer(s):
        name = m.group()[2:-2]
        if name not in variables:
            return None
        v = variables[name]
        if isinstance(v, bool) or isinstance(v, (int, float)):
            rep = repr(v)
        elif isinstance(v, str):
            rep = spec_substitute(v, variables, depth + 1)
            if rep is None:
                return None
        else:
            return None
        out.append(s[pos:m.start()])
        out.append(rep)
        pos = m.end()
    out.append(s[pos:])
    return "".join(out)


def oracle_common(ctx, case, out, variables_expected_defined=None, sfx="", view=None):
    """clauses that must hold for every successful resolution"""
    if "ok" not in out:
        return
    tree = out["ok"]
    defined = set((tree.get("variables") or {}).keys())
    for s in strings_of(tree):
        for m in VARPAT.finditer(s):
            name = m.group()[2:-2]
            if name in defined:
                ctx.fail("defined-variable-left-in-place" + sfx, case, {"string": s, "name": name, "view": view})
            elif not (case.get("prim") and name == "replica") and "." not in name:
                ctx.fail("undefined-variable-left-in-place" + sfx, case, {"string": s, "name": name, "view": view})


def check_typed_tree(ctx, case, tree, table, prefix=(), sfx="", view=None):
    for k, ty in table.items():
        if not isinstance(tree, dict) or k not in tree:
            continue
        v = tree[k]
        if isinstance(ty, dict):
            check_typed_tree(ctx, case, v, ty, prefix + (k,), sfx, view)
            continue
        if v is None or isinstance(v, list):
            continue
        if isinstance(v, dict) and "$flt" in v:
            if ty != "float":
                ctx.tag("typed:float-kept-for-" + ty)   # floats are passed through by the code: reported, not gated
            continue
        want = PYTYPE[ty]
        ok = (isinstance(v, bool) if want is bool else
              (isinstance(v, int) and not isinstance(v, bool)) if want is int else isinstance(v, want))
        if isinstance(v, dict) and want is not dict:
            ok = len(v) == 0 and False
        if not ok:
            ctx.fail("typed-option-has-wrong-type" + sfx, case,
                     {"route": list(prefix + (k,)), "declared": ty, "value": v, "view": view})



def judge_answer(ctx, case, out, table, mout=None, view=None):
    """the model-independent oracles on ONE answer of get_component_configuration for the case.  view=None:
    the answer of the un-flattened FlowIRConcrete to the query the case describes (flags / prim);
    view="instance"|"replicate"|"conf": the answer of the observed, strict call on a FLATTENED form of the same
    description (what the runtime executes) - the same layering / substitution / type clauses must hold there"""
    kind = case["kind"]
    flags = case.get("flags") if view is None else None
    prim = bool(case.get("prim")) if view is None else False
    sfx = "" if view is None else "-in-flattened-view"

    def fail(slug, detail):
        if view is not None:
            detail = {"view": view, "answer_or_detail": detail}
        ctx.fail(slug + sfx, case, detail)

    if flags is None or not flags["raw"]:
        oracle_common(ctx, dict(case, prim=prim), out, sfx=sfx, view=view)
    if "ok" in out and (flags is None or not (flags["raw"] or flags["prim"])):
        check_typed_tree(ctx, case, out["ok"], table, sfx=sfx, view=view)
    if kind == "option-mask":
        # the layering order holds for every variant of the query (raw / without the default scopes /
        # primitive / without the built-in defaults): the values are already of the declared type
        exp = case["expect"]
        if "ok" not in out:
            fail("resolution-of-well-formed-layers-fails", out)
        else:
            got = get_route(out["ok"], exp["route"])
            if exp["expected"][0] == "value":
                if got != ("value", to_json(exp["expected"][1])):
                    fail("option-not-from-highest-priority-layer", {"expected": exp["expected"][1], "got": got})
            else:
                dflt = get_route(to_json(_F().FlowIR.default_component_structure()), exp["route"])
                if flags is not None and not flags["inject"]:
                    dflt = ("absent",)
                nulls_visible = any(visible(t, case["platform"]) for t in case["nulls"] if t in case["mask"])
                if dflt[0] == "value":
                    # typed defaults are converted (20 -> 20.0): compare only untouched kinds
                    if got[0] != "value":
                        fail("default-lost", {"got": got})
                elif got[0] == "value" and not (got[1] is None and nulls_visible):
                    fail("option-appears-from-invisible-layer", {"got": got})
    elif flags is not None:
        pass    # the remaining kind-specific expectations are stated for the observed call only
    elif kind == "variable-mask":
        exp = case["expect"]["expected"]
        if exp[0] == "undefined":
            if out.get("error") != "unknown-variable":
                fail("undefined-variable-not-reported", out)
        elif "ok" not in out:
            fail("resolution-of-well-formed-layers-fails", out)
        else:
            v = exp[1]
            if out["ok"]["variables"].get("v") != v:
                fail("variable-not-from-highest-priority-layer",
                     {"expected": v, "got": out["ok"]["variables"].get("v")})
            want = "<%s>" % (v if isinstance(v, str) else repr(v))
            if out["ok"]["command"]["arguments"] != want:
                fail("substituted-value-not-from-highest-priority-layer",
                     {"expected": want, "got": out["ok"]["command"]["arguments"]})
    elif kind == "chain":
        fault = case["fault"]
        if fault == "replica-prim" and not prim:
            fault = "replica"           # the strict call on a view: `replica` is as undefined as any other name
        if fault in ("undefined", "foreign-only", "replica"):
            if out.get("error") != "unknown-variable":
                fail("undefined-variable-not-reported", out)
        elif fault in ("none", "replica-prim"):
            if "ok" not in out:
                fail("acyclic-chain-does-not-resolve", out)
            else:
                # independent expectation: layer the *unresolved* variables of the document, substitute
                exp = expected_chain_string(case)
                got = locate_top(out["ok"], case["where"])
                if exp is not None and got != exp:
                    fail("substitution-result-differs-from-specification", {"expected": exp, "got": got})
        elif fault in ("cycle", "self"):
            ctx.tag("cyclic-definition->" + out.get("error", "ok"))
            if "ok" in out:
                fail("cyclic-definition-resolves", out)
        elif fault in ("incomplete", "invalid"):
            if "ok" in out:
                fail("malformed-reference-accepted", out)
    elif kind == "array":
        top, report, quoted = expected_array(case)
        if case["fault"] != "none":
            if "ok" in out:
                fail("undefined-variable-not-reported",
                     {"text": case["top"], "got": locate_top(out["ok"], case["where"])})
        elif "ok" not in out:
            fail("resolution-of-well-formed-layers-fails", out)
        else:
            got = locate_top(out["ok"], case["where"])
            if top is not None and got != top:
                fail("substitution-result-differs-from-specification",
                     {"text": case["top"], "expected": top, "got": got})
            gotv = (out["ok"].get("variables") or {}).get("report", "<absent>")
            if report is not None and gotv != report:
                fail("substitution-result-differs-from-specification",
                     {"variable": "report", "text": render_segs(case["vsegs"]), "expected": report, "got": gotv})
            if quoted is not None and out["ok"]["command"].get("arguments") != quoted:
                fail("substitution-result-differs-from-specification",
                     {"text": "report: %(report)s.", "expected": quoted,
                      "got": out["ok"]["command"].get("arguments")})
    elif kind in ("siblings", "stages"):
        exp = expected_sibling(case)
        if exp is None:
            if out.get("error") != "unknown-variable":
                fail("undefined-variable-not-reported", out if "ok" not in out else
                     {"arguments": out["ok"]["command"].get("arguments"), "variables": out["ok"].get("variables")})
        elif "ok" not in out:
            fail("resolution-of-well-formed-layers-fails", out)
        else:
            args, variables = exp
            got = out["ok"].get("variables") or {}
            for k in sorted(variables):
                if got.get(k, "<absent>") != to_json(variables[k]):
                    fail("variable-not-from-highest-priority-layer",
                         {"variable": k, "expected": variables[k], "got": got.get(k, "<absent>")})
            if out["ok"]["command"].get("arguments") != args:
                fail("substitution-result-differs-from-specification",
                     {"expected": args, "got": out["ok"]["command"].get("arguments")})
    elif kind == "shadowed":
        got = out["ok"]["command"]["arguments"] if "ok" in out else out
        if got == "innerV-g":
            pass                        # layered, then substituted
        elif view is not None and got == "outerV-g":
            # the known early binding of the fold: a finding of its own, reported once it is registered
            ctx.tag("finding:flattening-binds-shadowed-reference-early")
            if early_binding_registered():
                ctx.fail("flattening-binds-shadowed-reference-early", case, {"view": view, "got": got})
        else:
            fail("substitution-result-differs-from-specification", {"expected": "innerV-g", "got": got})
    elif kind == "structural" and case["what"] == "foreign-override-ref" and view is None:
        if "ok" not in out:
            fail("override-of-another-platform-breaks-resolution", out)


# ----------------------------------------------------------------------------------------
# running cases
# ----------------------------------------------------------------------------------------

def judge_build_failure(ctx, case, exc, tmpdir):
    """the description loads on its own but not with the user's (well-formed) variable files: the user-supplied
    layer is not applied at all"""
    if case.get("user") is None:
        return
    try:
        build(case["doc"], None, tmpdir)
    except Exception:
        return
    ctx.case(case, nontrivial=True, tags=["kind:" + case["kind"], "variable-files-rejected"])
    ctx.fail("well-formed-variable-files-are-rejected", case, {"error": type(exc).__name__, "message": str(exc)[:300]})


def run_cases(ctx, cases, tmpdir, table):
    """cases: list of dicts with doc,user,platform,stage,(name),prim + kind specific fields; a case without
    `flags` is also asked through the flattened views listed in case["views"] (default: instance)"""
    plans = []      # per case: None | dict(out=, views=[(view, answer, flat, err)], req indices)
    reqs = []
    for case in cases:
        doc, user = case["doc"], case["user"]
        comp = (case["stage"], case.get("name", "c%d" % case["stage"]))
        try:
            conc, desc, nstages = build(doc, user, tmpdir)
        except Exception as exc:  # the package does not even load: not a case of this property
            plans.append(None)
            ctx.tag("build-failed:" + type(exc).__name__)
            judge_build_failure(ctx, case, exc, tmpdir)
            continue
        out = impl_resolve(conc, comp, case["platform"], case.get("prim", False), case.get("flags"))
        plan = {"out": out, "views": [], "main": len(reqs), "strict": None, "flatten": {}}
        if case.get("check_user_vars"):
            plan["user_vars"] = impl_user_variables(doc, conc.c04_source[1], case["platform"])
        req = dict(user_req(user), op="resolve", desc=desc, nstages=nstages,
                   platform=case["platform"], stage=comp[0], name=comp[1],
                   prim=bool(case.get("prim", False)), fuel=FUEL)
        if case.get("flags") is not None:
            req["flags"] = case["flags"]
        reqs.append(req)
        if case.get("flags") is None:
            for view in case.get("views") or ["instance"]:
                ask, fc, err = try_view(conc, case["platform"], view)
                if ask is None:
                    plan["views"].append((view, None, None, err))
                else:
                    plan["views"].append((view, ask(comp), getattr(fc, "flattened_document", None), None))
            if case.get("prim"):
                plan["strict"] = len(reqs)
                reqs.append(dict(req, prim=False))
            remember(case, out, plan["views"])
            for v in plan["views"]:
                if v[0] in FLAT_MODES:
                    plan["flatten"][v[0]] = len(reqs)
                    reqs.append(dict(user_req(user), op="flatten", desc=desc, nstages=nstages,
                                     platform=case["platform"], prim=FLAT_MODES[v[0]][0],
                                     inject=FLAT_MODES[v[0]][1], fuel=FUEL))
        plans.append(plan)
    mouts = ctx.model(reqs) if reqs else []
    array_round = []
    for case, plan in zip(cases, plans):
        if plan is None:
            continue
        out = plan["out"]
        mout = mouts[plan["main"]] if mouts is not None else None
        slim = {k: v for k, v in case.items()}
        kind = case["kind"]
        flags = case.get("flags")
        tags = ["kind:" + kind + ("+flags" if flags else ""), "platform:" + case["platform"],
                "impl:" + ("ok" if "ok" in out else out["error"])]
        if flags:
            tags.append(flag_tag(flags))
        nontrivial = True
        if kind in ("option-mask", "variable-mask"):
            nontrivial = len(case["mask"]) >= 2
            tags.append("layers-defining:%d" % len(case["mask"]))
        elif kind == "chain":
            tags.append("fault:" + case["fault"])
        elif kind == "structural":
            tags.append("structural:" + case["what"])
        elif kind == "array":
            tags += ["fault:" + case["fault"], "array-shape:" + case["shape"], "array-where:" + case["where"]]
            if case.get("vshape"):
                tags.append("array-variable-shape:" + case["vshape"])
            if any(g[0] == "v" for g in case["segs"] + (case.get("vsegs") or [])):
                tags.append("array-index-from-variable")
            if any(g[0] == "i" and g[2] >= 10 for g in case["segs"] + (case.get("vsegs") or [])):
                tags.append("array-index>=10")
        for view, ans, _, err in plan["views"]:
            tags.append("view:%s:%s" % (view, "unavailable:" + err["error"] if ans is None else
                                        "ok" if "ok" in ans else ans["error"]))
        for f in user_files(case.get("user")):
            tags.append("user-file:" + ("conf:" + f["conf"]["style"] if f.get("conf") else "yaml"))
            if f.get("conf") and any(int(st) >= 10 for st in (f.get("stages") or {})):
                tags.append("user-file:conf-with-section-of-stage>=10")
                if case["stage"] >= 10 and case["stage"] in f["stages"]:
                    tags.append("asked-stage>=10-has-conf-section")
        ctx.case(slim, nontrivial=nontrivial, tags=tags)
        if "user_vars" in plan:
            got, exp = plan["user_vars"], {"ok": expected_user_variables(user_files(case["user"]))}
            if not canon_eq(got, exp):
                ctx.fail("get_user_variables-differs-from-the-variable-files", slim,
                         {"difference": first_difference(exp.get("ok"), got.get("ok")) if "ok" in got else got,
                          "reported": got})
        # ---- oracles --------------------------------------------------------------------
        judge_answer(ctx, slim, out, table, mout)
        for view, ans, _, err in plan["views"]:
            if ans is not None:
                judge_answer(ctx, slim, ans, table, None, view=view)
        # ---- correspondence -------------------------------------------------------------
        if mout is None:
            continue
        mres = mout["result"]
        if kind == "array" and flags is None and isinstance(mout.get("vars"), dict):
            # the resolver of the model stops at `[`: the texts with array accesses are resolved by Tree.interpA
            # (Model/TreeArray.lean) over the variables the model layered for this component
            array_round.append((slim, mout["vars"], out))
        if kind == "array":
            ctx.tag("model:array-case-resolved-by-interpA")
            continue
        if mres.get("error") == "unsupported":
            ctx.tag("model:unsupported")
            continue
        if "error" in out and out["error"].startswith("other:"):
            ctx.tag("impl:" + out["error"])
        if flags is not None and not flags["incl"]:
            # without the default scopes several references are undefined at once; which one is reported
            # first depends on dictionary order: compare the class of the error only
            mres, out = coarse_error(mres), coarse_error(out)
        ctx.compare("get_component_configuration == Tree.resolve" + ("F (keyword variants)" if flags else ""),
                    slim, mres, out)
        if not plan["views"]:
            continue
        strict = mouts[plan["strict"]]["result"] if plan["strict"] is not None else mout["result"]
        for view, ans, flat, err in plan["views"]:
            if view in plan["flatten"]:
                mflat = mouts[plan["flatten"][view]]["result"]
                if mflat.get("error") == "unsupported":
                    ctx.tag("model:flatten-unsupported")
                else:
                    ctx.compare(FLATTEN_REL, dict(slim, view=view),
                                {"ok": norm_desc_json(mflat["ok"])} if "ok" in mflat else {"error": "flatten-fails"},
                                {"ok": flat} if ans is not None else {"error": "flatten-fails"})
            if ans is None or strict.get("error") == "unsupported":
                continue
            if view_differs_legitimately(slim, strict, ans):
                ctx.tag("view:legitimate-difference")
                continue
            ctx.compare(VIEW_REL, dict(slim, view=view), coarse_error(without_override(strict)),
                        coarse_error(without_override(ans)))

    if array_round:
        reqs2, plan2 = [], []
        for slim, mvars, out in array_round:
            texts = [("top", slim["top"])]
            if slim.get("vsegs"):
                texts.append(("report", render_segs(slim["vsegs"])))
            if slim["fault"] != "none":
                texts = texts[:1]       # the injected fault sits in `top`: the whole resolution fails
            for label, text in texts:
                plan2.append((slim, label, text, out))
                reqs2.append({"op": "interpA", "ctx": mvars, "s": text, "fuel": FUEL})
        mouts2 = ctx.model(reqs2)
        for (slim, label, text, out), mo in zip(plan2, mouts2 or []):
            if mo.get("error") == "unsupported":
                ctx.tag("model:interpA-unsupported")
                continue
            if "ok" in out:
                got = {"ok": locate_top(out["ok"], slim["where"]) if label == "top" else
                       (out["ok"].get("variables") or {}).get("report")}
            else:
                got = out
            ctx.compare("text of get_component_configuration == Tree.interpA over Tree.varsOf",
                        dict(slim, text=label), coarse_error(array_error(mo)), coarse_error(array_error(got)))


def array_error(a):
    """errors of array accesses: the undefined index variable is a ValueError in the code"""
    if isinstance(a, dict) and a.get("error") in ("other:ValueError", "unknown-variable"):
        return {"error": "resolution-error"}
    if isinstance(a, dict) and a.get("error") in ("other:IndexError", "key-error"):
        return {"error": "index-error"}
    return a


def view_differs_legitimately(case, strict, ans):
    """the one family on which the un-flattened and the flattened resolution are known to differ: the override
    block of ANOTHER platform is interpolated by the un-flattened resolution (known finding
    C04-foreign-override-reference, Witness/C04.lean) and dropped by the flattening"""
    if case["kind"] == "shadowed":
        # the fold binds the references of outer-scope variables early (Witness/C04.lean): judged by the oracle
        return True
    if strict.get("error") != "unknown-variable" or "ok" not in ans:
        return False
    return classify_foreign_override_leak("override-of-another-platform-breaks-resolution", case, strict)


RESOLUTION_ERRORS = {"unknown-variable", "invalid-variable", "incomplete-variable", "invalid-type", "recursion"}


def coarse_error(a):
    if isinstance(a, dict) and a.get("error") in RESOLUTION_ERRORS:
        return {"error": "resolution-error"}
    return a


def locate_top(tree, where):
    if where == "arguments":
        return tree["command"]["arguments"]
    if where == "environment":
        return tree["command"]["environment"]
    if where == "queue":
        return tree["resourceManager"]["lsf"]["queue"]
    return tree["workflowAttributes"]["shutdownOn"][1]


def expected_chain_string(case):
    """layer the variables by the documented order (independent of the code and of the model) and substitute"""
    doc, user, platform, stage = case["doc"], case["user"], case["platform"], case["stage"]
    comp = doc["components"][stage]
    order = [doc["variables"]["default"]["global"], doc["variables"]["default"]["stages"].get(stage, {})]
    if platform != "default":
        order += [doc["variables"][platform]["global"], doc["variables"][platform]["stages"].get(stage, {})]
    order += user_layers(user, stage)
    order += [comp.get("variables", {})]
    order += [comp.get("override", {}).get(platform, {}).get("variables", {})]
    variables = {}
    for layer in order:
        variables.update(layer)
    if case.get("prim"):
        variables = dict(variables)
        variables.setdefault("replica", "%(replica)s")
        top = case["top"].replace("%(replica)s", "\0")
        res = spec_substitute(top, {k: v for k, v in variables.items() if k != "replica"})
        return None if res is None else res.replace("\0", "%(replica)s")
    return spec_substitute(case["top"], variables)


# sequences of read-only operations on ONE object ----------------------------------------------------

SEQ_ROUTES = [r for r in OPTION_POOL if r[0] != ("command", "arguments")] + [
    (("resourceManager", "config", "walltime"), lambda t, k: 10.5 + k),
    (("resourceRequest", "numberThreads"), lambda t, k: 40 + k),
    (("resourceRequest", "memory"), lambda t, k: 1000 + k),
    (("custom", "other"), lambda t, k: "o" + t),
    (("extra", "leaf"), lambda t, k: "e" + t),
]
SEQ_PLATFORMS = ["default", "p"]
TOLERANT_KINDS = ["replica-arg", "replica-typed", "replica-var"]


def gen_sequence(rng):
    """a description with several components per stage whose layers define a random subset of some option
    routes (stage-scoped blueprints included, sections the global blueprint lacks included) and of one
    variable, plus a sequence of read-only operations with points at which EVERY component is resolved"""
    doc = base_doc()
    doc["components"].append({"name": "s0", "stage": 0, "command": {}, "variables": {}, "override": {}})
    if rng.random() < 0.6:
        doc["components"].append({"name": "s1", "stage": 1, "command": {}, "variables": {}, "override": {}})
    if rng.random() < 0.4:
        doc["components"].append({"name": "t0", "stage": 0, "command": {}, "variables": {}, "override": {}})
    routes = rng.sample(range(len(SEQ_ROUTES)), rng.randint(3, 6))
    p_global = rng.choice([0.15, 0.35])
    k = 0
    for ri in routes:
        route, gen = SEQ_ROUTES[ri]
        for tag in ("DG", "DS", "PG", "PS", "QG", "QS"):
            for stage in ((0, 1) if tag[1] == "S" else (0,)):
                k += 1
                if rng.random() < (p_global if tag[1] == "G" else 0.5):
                    value = None if rng.random() < 0.08 else gen("%s%d" % (tag, stage), k)
                    set_route(option_target(doc, tag, stage, 0), route, value)
        for ci, comp in enumerate(doc["components"]):
            for tag in ("C", "O", "QO"):
                k += 1
                if rng.random() < (0.45 if tag == "C" else 0.25):
                    value = None if rng.random() < 0.08 else gen("%s-%s" % (tag, comp["name"]), k)
                    set_route(option_target(doc, tag, comp["stage"], ci), route, value)
    # one variable over the layers, referenced by every component
    doc["variables"]["default"]["global"]["v"] = "vDG"
    for tag in ("DS", "PG", "PS", "QG", "QS"):
        for stage in ((0, 1) if tag[1] == "S" else (0,)):
            if rng.random() < 0.4:
                variable_target(doc, None, tag, stage, 0)["v"] = "v%s%d" % (tag, stage)
    for ci, comp in enumerate(doc["components"]):
        comp["command"]["arguments"] = "<%(v)s>"
        for tag in ("C", "O", "QO"):
            if rng.random() < 0.3:
                variable_target(doc, None, tag, comp["stage"], ci)["v"] = "v%s-%s" % (tag, comp["name"])
        if rng.random() < 0.5:
            # a variable of its own that reaches `v` (which some of its siblings re-define privately)
            comp["variables"]["w"] = "w<%(v)s>"
            comp["command"]["arguments"] = "<%(v)s> %(w)s"
    # the user's variable files (one or two; sections for both stages, some without `v`)
    user = None
    if rng.random() < 0.4:
        files = new_user_files()
        for tag in ("U", "V"):
            if rng.random() < 0.35:
                variable_target(doc, files, tag, 0, 0)["v"] = "v" + tag
        for tag in ("US", "VS"):
            for stage in (0, 1):
                r = rng.random()
                if r < 0.35:
                    variable_target(doc, files, tag, stage, 0)["v"] = "v%s%d" % (tag, stage)
                elif r < 0.6:
                    variable_target(doc, files, tag, stage, 0)["unrelated"] = "u"
        maybe_confify(rng, files)
        user = trim_user_files(files)
    # components whose PRIMITIVE and strict resolutions differ: they are not replicated but mention %(replica)s
    # (primitive: tolerated - the reference stays, a failed type conversion is discarded; strict: an error)
    tolerant = {}
    if rng.random() < 0.6:
        for comp in rng.sample(doc["components"], rng.randint(1, 2)):
            how = rng.choice(TOLERANT_KINDS)
            tolerant["%d/%s" % (comp["stage"], comp["name"])] = how
            if how == "replica-arg":
                comp["command"]["arguments"] = "<%(v)s> r%(replica)s"
            elif how == "replica-typed":
                comp.setdefault("resourceRequest", {})["threadsPerCore"] = "%(replica)s"
            else:
                comp["variables"]["rv"] = "x%(replica)s"
    comps = [(c["stage"], c["name"]) for c in doc["components"]]
    ops = []
    if rng.random() < 0.25:
        ops.append({"op": "resolveAll"})
    for _ in range(rng.randint(2, 8)):
        r = rng.random()
        cid = rng.choice(comps)
        if r < 0.5:
            ops.append({"op": "queryF", "stage": cid[0], "name": cid[1], "platform": rng.choice(SEQ_PLATFORMS),
                        "flags": rng.choice(ALL_FLAGS)})
        elif r < 0.86:
            ops.append(gen_read(rng, comps, SEQ_PLATFORMS))
        elif r < 0.94:
            ops.append({"op": "touchComp", "stage": cid[0], "name": cid[1]})
        else:
            ops.append({"op": "touchVars", "platform": rng.choice(SEQ_PLATFORMS), "stage": rng.choice([None, 0, 1])})
        if rng.random() < 0.25:
            ops.append({"op": "resolveAll"})
    if tolerant and rng.random() < 0.75:
        # a primitive look-up of a tolerant component somewhere before the last strict one
        cid = rng.choice(sorted(tolerant)).split("/", 1)
        look = rng.choice([{"op": "read", "what": "validate"},
                           {"op": "queryF", "stage": int(cid[0]), "name": cid[1], "platform": rng.choice(SEQ_PLATFORMS),
                            "flags": dict(STD_FLAGS, prim=True)}])
        ops.insert(rng.randrange(len(ops) + 1), look)
    if ops[-1]["op"] != "resolveAll":
        ops.append({"op": "resolveAll"})
    r = rng.random()
    views = (["instance"] + (["replicate"] if r < 0.2 else []) + (["conf"] if 0.1 < r < 0.35 else []) +
             (["stored"] if r > 0.8 else []))
    if user is not None:
        views += (["conf-files"] if 0.3 < r < 0.6 else []) + (["reparam"] if 0.5 < r < 0.75 else [])
    return {"kind": "sequence", "doc": doc, "user": user, "routes": routes, "ops": ops, "tolerant": tolerant,
            "views": views}


def apply_touch(conc, op):
    """the reference getters, without writing through the reference"""
    try:
        if op["op"] == "touchComp":
            conc.get_component((op["stage"], op["name"]), return_copy=False)
        elif op.get("stage") is None:
            conc.get_platform_global_variables(op["platform"], return_copy=False)
        else:
            conc.get_platform_stage_variables(op["stage"], op["platform"], return_copy=False)
        return {"ok": None}
    except BaseException as exc:
        if isinstance(exc, (KeyboardInterrupt, SystemExit)):
            raise
        return err_kind(exc)


def expected_layered(doc, comp, platform, route):
    """the property, restated on the ORIGINAL document: value of the highest-priority layer that defines the
    route as something other than None (default global < default stage < platform global < platform stage <
    component < component override for the platform); ("none-visible",) when nothing but None is said"""
    stage = comp["stage"]
    order = [doc["blueprint"]["default"]["global"], doc["blueprint"]["default"]["stages"].get(stage, {})]
    if platform != "default":
        order += [doc["blueprint"][platform]["global"], doc["blueprint"][platform]["stages"].get(stage, {})]
    order += [comp, (comp.get("override") or {}).get(platform) or {}]
    exp = ("default",)
    for layer in order:
        got = get_route(layer, route)
        if got[0] == "value":
            if got[1] is not None:
                exp = got
            elif exp == ("default",):
                exp = ("none-visible",)
    return exp


def expected_variable(doc, comp, platform, name, own_only=False, user=None):
    stage = comp["stage"]
    order = []
    if not own_only:
        order = [doc["variables"]["default"]["global"], doc["variables"]["default"]["stages"].get(stage, {})]
        if platform != "default":
            order += [doc["variables"][platform]["global"], doc["variables"][platform]["stages"].get(stage, {})]
        order += user_layers(user, stage)
    order += [comp.get("variables", {}), ((comp.get("override") or {}).get(platform) or {}).get("variables", {})]
    variables = {}
    for layer in order:
        variables.update(layer)
    return variables.get(name)


def spec_check_resolution(case, comp, platform, out, builtin, flags=None):
    """model-independent layering oracle on one answer of get_component_configuration; yields (slug, detail).
    The order of the layers is the same for every keyword variant: without inject_missing_fields the built-in
    defaults are not a layer, without include_default only the component's own variables (and its override's)
    are visible, raw answers are not interpolated."""
    flags = flags or STD_FLAGS
    doc = case["doc"]
    who = {"component": [comp["stage"], comp["name"]], "platform": platform}
    if flags != STD_FLAGS:
        who["flags"] = flags
    v = expected_variable(doc, comp, platform, "v", own_only=not flags["incl"], user=case.get("user"))
    w = expected_variable(doc, comp, platform, "w", own_only=True)      # only ever the component's own
    tol = (case.get("tolerant") or {}).get("%d/%s" % (comp["stage"], comp["name"]))
    if tol and not flags["raw"] and not flags["prim"]:
        # `replica` is defined by no layer: the strict resolution must report it, whatever was asked before
        if out.get("error") != "unknown-variable":
            yield "undefined-variable-not-reported", dict(who, tolerance=tol, answer=(
                out if "ok" not in out else {"command": out["ok"].get("command"),
                                             "resourceRequest": out["ok"].get("resourceRequest"),
                                             "variables": out["ok"].get("variables")}))
        return
    if "ok" not in out:
        if not flags["raw"] and v is None and out.get("error") == "unknown-variable":
            return          # `v` is not defined in the scopes this variant looks at: reported, as it must be
        yield "resolution-of-well-formed-layers-fails", dict(who, answer=out)
        return
    if not flags["raw"] and v is None:
        yield "undefined-variable-not-reported", dict(who, arguments=out["ok"].get("command", {}).get("arguments"))
        return
    for ri in case["routes"]:
        route = list(SEQ_ROUTES[ri][0])
        exp = expected_layered(doc, comp, platform, route)
        got = get_route(out["ok"], route)
        if exp[0] == "value":
            if got != ("value", to_json(exp[1])):
                yield "option-not-from-highest-priority-layer", dict(who, route=route, expected=to_json(exp[1]), got=got)
        else:
            dflt = get_route(builtin, route) if flags["inject"] else ("absent",)
            if dflt[0] == "value":
                if got[0] != "value":
                    yield "default-lost", dict(who, route=route, got=got)
                elif dflt[1] is None or isinstance(dflt[1], str):
                    # untouched kinds of default (typed numeric defaults are converted, e.g. 60 -> 60.0)
                    if got[1] != dflt[1]:
                        yield "option-not-from-highest-priority-layer", dict(who, route=route, expected=dflt[1], got=got)
            elif got[0] == "value" and not (got[1] is None and exp[0] == "none-visible"):
                yield "option-appears-from-invisible-layer", dict(who, route=route, got=got)
    if out["ok"].get("variables", {}).get("v") != v:
        yield "variable-not-from-highest-priority-layer", dict(who, expected=v, got=out["ok"].get("variables", {}).get("v"))
    want = comp["command"]["arguments"]
    if not flags["raw"]:
        if w is not None:
            w = w.replace("%(v)s", str(v))
            want = want.replace("%(w)s", w)
        want = want.replace("%(v)s", str(v))        # a tolerated %(replica)s of a primitive look-up stays
    if out["ok"].get("variables", {}).get("w") != w:
        yield "variable-not-from-highest-priority-layer", dict(who, variable="w", expected=w,
                                                               got=out["ok"].get("variables", {}).get("w"))
    if out["ok"].get("command", {}).get("arguments") != want:
        yield "substituted-value-not-from-highest-priority-layer", dict(
            who, expected=want, got=out["ok"].get("command", {}).get("arguments"))


def run_sequence(case, tmpdir):
    """drives one sequence on ONE FlowIRConcrete; returns (desc, nstages, [(query, answer)], failures).
    query = {"stage","name","platform","flags"} for every get_component_configuration made (queryF ops and
    the resolve-all points); failures = [(slug, detail)] of the model-independent oracles"""
    F = _F()
    doc = case["doc"]
    conc, desc, nstages = build(doc, case.get("user"), tmpdir)
    paths = conc.c04_source[1]
    builtin = to_json(F.FlowIR.inject_default_values_to_component({}))
    before = desc_norm(conc)
    by_id = {(c["stage"], c["name"]): c for c in doc["components"]}
    queries, failures = [], []
    done = []
    for idx, op in enumerate(case["ops"]):
        k = op["op"]
        if k == "resolveAll":
            for cid in sorted(by_id):
                for P in SEQ_PLATFORMS:
                    keep = []
                    out = impl_resolve(conc, cid, P, False, STD_FLAGS, keep)
                    queries.append(({"stage": cid[0], "name": cid[1], "platform": P, "flags": STD_FLAGS}, out))
                    for slug, detail in spec_check_resolution(case, by_id[cid], P, out, builtin):
                        failures.append((slug, dict(detail, after_operations=list(done))))
                    # the same question to a fresh object that was never asked anything else
                    fresh = build(doc, case.get("user"), tmpdir, paths=paths)[0]
                    ref = impl_resolve(fresh, cid, P, False, STD_FLAGS)
                    if not canon_eq(coarse_error(ref), coarse_error(out)):
                        failures.append(("resolution-depends-on-earlier-read-only-operations",
                                         {"component": list(cid), "platform": P, "after_operations": list(done),
                                          "difference": first_difference(ref, out)}))
                    for r in keep:
                        scramble(r)
        elif k == "queryF":
            keep = []
            out = impl_resolve(conc, (op["stage"], op["name"]), op["platform"], op["flags"]["prim"], op["flags"], keep)
            queries.append(({"stage": op["stage"], "name": op["name"], "platform": op["platform"],
                             "flags": op["flags"]}, out))
            for slug, detail in spec_check_resolution(case, by_id[(op["stage"], op["name"])], op["platform"], out,
                                                      builtin, op["flags"]):
                failures.append((slug, dict(detail, after_operations=list(done))))
            for r in keep:
                scramble(r)
        elif k == "read":
            apply_read(conc, op)
        else:
            apply_touch(conc, op)
        if k != "resolveAll":
            done.append(op)
        after = desc_norm(conc)
        if after != before:
            failures.append(("read-only-operation-changed-the-description",
                             {"operation": op, "index": idx, "difference": first_difference(before, after)}))
            before = after
    # what the runtime executes: every component once more through the flattened forms of the description
    vqueries, flats = [], []
    for P in SEQ_PLATFORMS:
        for view in case.get("views") or ["instance"]:
            ask, fc, err = try_view(conc, P, view)
            if view in FLAT_MODES:
                flats.append((P, view, getattr(fc, "flattened_document", None)))
            if ask is None:
                op_raised.append("view-%s:%s" % (view, err["error"]))
                continue
            for cid in sorted(by_id):
                out = ask(cid)
                vqueries.append(({"stage": cid[0], "name": cid[1], "platform": P, "flags": STD_FLAGS, "view": view}, out))
                for slug, detail in spec_check_resolution(case, by_id[cid], P, out, builtin):
                    failures.append((slug + "-in-flattened-view", dict(detail, view=view, after_operations=list(done))))
    return desc, nstages, queries, failures, vqueries, flats


def sequence_fails(case):
    tmpdir = tempfile.mkdtemp(prefix="c04-")
    try:
        return bool(run_sequence(case, tmpdir)[3])
    except Exception:
        return False
    finally:
        shutil.rmtree(tmpdir, ignore_errors=True)


def shrink_sequence(what, case):
    if case.get("kind") != "sequence":
        return None
    from harness.common import shrink_list
    tail = [{"op": "resolveAll"}]
    ops = shrink_list([o for o in case["ops"]], lambda ops: sequence_fails(dict(case, ops=list(ops) + tail)),
                      max_steps=80)
    small = dict(case, ops=list(ops) + tail)
    comps = shrink_list(small["doc"]["components"],
                        lambda cs: sequence_fails(dict(small, doc=dict(small["doc"], components=list(cs)))),
                        max_steps=20)
    small = dict(small, doc=dict(small["doc"], components=list(comps)))
    routes = shrink_list(small["routes"], lambda rs: sequence_fails(dict(small, routes=list(rs))), max_steps=20)
    return dict(small, routes=list(routes))


def run_sequences(ctx, cases, tmpdir, table):
    runs, reqs = [], []
    loaded = []
    for case in cases:
        try:
            desc, nstages, queries, failures, vqueries, flats = run_sequence(case, tmpdir)
        except Exception as exc:
            if case.get("user") is None:
                raise
            ctx.tag("build-failed:" + type(exc).__name__)
            judge_build_failure(ctx, case, exc, tmpdir)
            continue
        loaded.append(case)
        runs.append((queries, failures, vqueries, flats, len(reqs)))
        common = dict(user_req(case.get("user")), desc=desc, nstages=nstages, fuel=FUEL)
        for q, _ in queries + vqueries:
            reqs.append(dict(common, op="resolve", platform=q["platform"], stage=q["stage"], name=q["name"],
                             prim=q["flags"]["prim"], flags=q["flags"]))
        for P, view, _ in flats:
            reqs.append(dict(common, op="flatten", platform=P, prim=FLAT_MODES[view][0], inject=FLAT_MODES[view][1]))
    mouts = ctx.model(reqs) if reqs else []
    for r in op_raised:
        ctx.tag("seq-read-raised:" + r)
    del op_raised[:]
    for case, (queries, failures, vqueries, flats, base) in zip(loaded, runs):
        ro = [o for o in case["ops"] if o["op"] != "resolveAll"]
        tags = ["kind:sequence"] + ["seq-op:" + (o["op"] if o["op"] != "read" else "read:" + o["what"]) for o in ro]
        tags += [flag_tag(o["flags"]) for o in ro if o["op"] == "queryF"]
        tags += ["seq-answer:" + ("ok" if "ok" in a else a["error"]) for _, a in queries]
        tags += ["seq-view:%s:%s" % (q["view"], "ok" if "ok" in a else a["error"]) for q, a in vqueries]
        tags += ["seq-tolerant:" + how for how in (case.get("tolerant") or {}).values()]
        ctx.case(case, nontrivial=len(ro) >= 2, tags=tags)
        for slug, detail in failures:
            ctx.fail(slug, case, detail)
        for q, out in queries + vqueries:
            if q["flags"] == STD_FLAGS:
                sfx = "-in-flattened-view" if "view" in q else ""
                oracle_common(ctx, case, out, sfx=sfx, view=q.get("view"))
                if "ok" in out:
                    check_typed_tree(ctx, case, out["ok"], table, sfx=sfx, view=q.get("view"))
        if mouts is None:
            continue
        first = None
        for k, (q, out) in enumerate(queries):
            mres = mouts[base + k]["result"]
            if mres.get("error") == "unsupported":
                ctx.tag("model:unsupported")
                continue
            if not q["flags"]["incl"]:
                # without the default scopes several references are undefined at once; which one is reported
                # first depends on dictionary order: compare the class of the error only
                mres, out = coarse_error(mres), coarse_error(out)
            if canon_eq(mres, out):
                continue
            first = (k, q, mres, out)
            break
        rel = "sequence of read-only operations on one FlowIRConcrete == Tree.resolveF of the original description"
        if first is None:
            ctx.compare(rel, case, {"agree": True}, {"agree": True})
        else:
            k, q, mres, out = first
            ctx.compare(rel, case, {"agree": True, "index": k, "query": q, "answer": mres},
                        {"agree": False, "index": k, "query": q, "answer": out})
        # the flattened forms: instance() itself, and every resolution through them
        vbase = base + len(queries)
        first = None
        for k, (q, out) in enumerate(vqueries):
            mres = mouts[vbase + k]["result"]
            if mres.get("error") == "unsupported":
                ctx.tag("model:unsupported")
                continue
            a, b = coarse_error(without_override(mres)), coarse_error(without_override(out))
            if not canon_eq(a, b):
                first = (k, q, a, b)
                break
        if first is None:
            ctx.compare(VIEW_REL, case, {"agree": True}, {"agree": True})
        else:
            k, q, a, b = first
            ctx.compare(VIEW_REL, case, {"agree": True, "index": k, "query": q, "answer": a},
                        {"agree": False, "index": k, "query": q, "answer": b})
        fbase = vbase + len(vqueries)
        for k, (P, view, flat) in enumerate(flats):
            mflat = mouts[fbase + k]["result"]
            if mflat.get("error") == "unsupported":
                ctx.tag("model:flatten-unsupported")
                continue
            ctx.compare(FLATTEN_REL, dict(case, platform=P, view=view),
                        {"ok": norm_desc_json(mflat["ok"])} if "ok" in mflat else {"error": "flatten-fails"},
                        {"ok": flat} if flat is not None else {"error": "flatten-fails"})


def canon_eq(a, b):
    return json.dumps(a, sort_keys=True) == json.dumps(b, sort_keys=True)


# the same cases again: later in the process, in another order, in other processes -------------------------

SEEN = []           # (case, {"direct": answer, view: answer | {"unavailable": error}}) of the first time round
SEEN_STRIDE = [0]


def remember(case, out, views):
    """keep the implementation's answers of every 5th plain case (every sibling case) for the later streams"""
    SEEN_STRIDE[0] += 1
    if case["kind"] != "siblings" and SEEN_STRIDE[0] % 5:
        return
    res = {"direct": out}
    for view, ans, _, err in views:
        res[view] = {"unavailable": err} if ans is None else ans
    SEEN.append((case, res))


def impl_answers(case, tmpdir, views):
    """implementation only: the answer of the un-flattened object and of the views of the case"""
    comp = (case["stage"], case.get("name", "c%d" % case["stage"]))
    conc, _, _ = build(case["doc"], case["user"], tmpdir)
    res = {"direct": impl_resolve(conc, comp, case["platform"], case.get("prim", False), case.get("flags"))}
    for view in views:
        ask, _, err = try_view(conc, case["platform"], view)
        res[view] = {"unavailable": err} if ask is None else ask(comp)
    return res


def coarse_answers(res):
    return {k: coarse_error(v) for k, v in res.items()}


def child_main(path):
    """entry of the child processes of later_streams: answers of the cases in the file, as JSON on stdout"""
    _quiet()
    doc = json.load(open(path))
    tmpdir = tempfile.mkdtemp(prefix="c04-child-")
    out = []
    try:
        for case in doc["cases"]:
            case = fix_int_keys(case)
            try:
                out.append(coarse_answers(impl_answers(case, tmpdir, case["child_views"])))
            except BaseException as exc:
                out.append({"crash": type(exc).__name__})
    finally:
        shutil.rmtree(tmpdir, ignore_errors=True)
    sys.stdout.write("\nC04-CHILD-ANSWERS " + json.dumps(out) + "\n")


def later_streams(ctx, tmpdir, n_again, n_child, hash_seeds):
    """(1) a sample of the cases once more, at the end of the run, in another order, after all the unrelated cases
    (same component names in other roles): the implementation must answer what it answered the first time -
    nothing a load leaves behind in the process (module / class level state) may reach a later one;
    (2) a sample (every sibling case first) in child processes started with other PYTHONHASHSEEDs: the order in
    which sets of component identifiers are iterated must not change an answer"""
    import subprocess
    rng = ctx.rng
    sample = list(SEEN)
    del SEEN[:]
    rng.shuffle(sample)
    sibs = [e for e in sample if e[0]["kind"] == "siblings"]
    rest = [e for e in sample if e[0]["kind"] != "siblings"]
    again = sibs[:n_again // 2] + rest[:n_again - min(len(sibs), n_again // 2)]
    rng.shuffle(again)
    second = []
    for case, first in again:
        views = [k for k in first if k != "direct"]
        try:
            res = impl_answers(case, tmpdir, views)
        except Exception as exc:
            res = {k: {"crash": type(exc).__name__} for k in first}
        second.append((case, views, res))
        ctx.tag("again:" + case["kind"])
        if not canon_eq(coarse_answers(first), coarse_answers(res)):
            which = next(k for k in first if not canon_eq(coarse_error(first[k]), coarse_error(res[k])))
            ctx.fail("result-depends-on-earlier-cases", case,
                     {"asked": which, "first_time": first[which], "at_the_end_of_the_run": res[which],
                      "difference": first_difference(first[which], res[which])})
    if not hash_seeds or not second:
        return
    chosen = second[:n_child]
    payload = {"cases": [dict(case, child_views=views) for case, views, _ in chosen]}
    path = os.path.join(tmpdir, "child-cases.json")
    with open(path, "w") as fh:
        json.dump(payload, fh)
    here = os.path.dirname(os.path.dirname(os.path.abspath(__file__)))
    procs = []
    for hs in hash_seeds:
        env = dict(os.environ, PYTHONHASHSEED=str(hs), PYTHONDONTWRITEBYTECODE="1")
        procs.append((hs, subprocess.Popen([sys.executable, "-W", "ignore", "-m", "harness.c04", path], cwd=here, env=env,
                                           stdout=subprocess.PIPE, stderr=subprocess.DEVNULL, text=True)))
    for hs, proc in procs:
        try:
            stdout, _ = proc.communicate(timeout=600)
        except subprocess.TimeoutExpired:
            proc.kill()
            ctx.tag("hash-seed-child:timeout")
            continue
        line = next((l for l in stdout.splitlines() if l.startswith("C04-CHILD-ANSWERS ")), None)
        if line is None:
            ctx.tag("hash-seed-child:no-answer")
            continue
        answers = json.loads(line[len("C04-CHILD-ANSWERS "):])
        ctx.tag("hash-seed-child:ok")
        for (case, views, res), theirs in zip(chosen, answers):
            mine = coarse_answers(res)
            if canon_eq(mine, theirs):
                continue
            which = next((k for k in mine if not canon_eq(mine[k], theirs.get(k))), "direct")
            ctx.fail("result-depends-on-hash-seed", case,
                     {"asked": which, "this_process": mine.get(which), "PYTHONHASHSEED": hs,
                      "other_process": theirs.get(which) if isinstance(theirs, dict) else theirs,
                      "difference": first_difference(mine.get(which), theirs.get(which)) if isinstance(theirs, dict) else None})


# unit-level relations -------------------------------------------------------------------

def gen_tree(rng, depth=0):
    r = rng.random()
    if depth >= 3 or r < 0.35:
        return rng.choice([None, None, 0, 1, 5, True, False, "", "s", "t", [], [1], 1.5])
    d = {}
    for k in rng.sample(["a", "b", "c", "d"], rng.randint(0, 3)):
        d[k] = gen_tree(rng, depth + 1)
    return d


def unit_override(ctx, rng, n):
    F = _F()
    cases, reqs = [], []
    for _ in range(n):
        a = gen_tree(rng) if rng.random() < 0.2 else {k: gen_tree(rng, 1) for k in "abc"}
        b = gen_tree(rng)
        cases.append((a, b))
        reqs.append({"op": "override", "old": to_json(a), "new": to_json(b)})
    mouts = ctx.model(reqs)
    for (a, b), mo in zip(cases, mouts or [None] * len(cases)):
        try:
            out = {"ok": to_json(F.FlowIR.override_object(copy.deepcopy(a), copy.deepcopy(b)))}
        except Exception as exc:
            out = err_kind(exc)
        case = {"kind": "override", "old": to_json(a), "new": to_json(b)}
        ctx.case(case, nontrivial=isinstance(a, dict) and isinstance(b, dict) and bool(set(a) & set(b)),
                 tags=["kind:override", "override:" + ("ok" if "ok" in out else out["error"])])
        if mo is not None:
            ctx.compare("FlowIR.override_object == Tree.override", case, mo, out)


def unit_interp(ctx, rng, n):
    F = _F()
    pieces = ["%(a)s", "%(b)s", "%(c)s", "%(zz)s", "%(replica)s", "%(", ")s", "%", "(", ")", "s", "x", " ", "a", "%(a)",
              "%(%(d)s)s", "-", "_"]
    cases, reqs = [], []
    for _ in range(n):
        ctxv = {}
        for k in rng.sample(["a", "b", "c", "d", "x"], rng.randint(1, 5)):
            ctxv[k] = rng.choice([1, True, "lit", "", "a", "%(a)s", "%(b)s", "p%(c)sq", "a)s", "%(a", "%(", 2.5, "zz", None,
                                  "".join(rng.choice(pieces) for _ in range(rng.randint(0, 3)))])
        s = "".join(rng.choice(pieces) for _ in range(rng.randint(0, 6)))
        prim = rng.random() < 0.3
        cases.append((ctxv, s, prim))
        reqs.append({"op": "interp", "ctx": to_json(ctxv), "s": s, "prim": prim, "fuel": FUEL})
    mouts = ctx.model(reqs)
    for (ctxv, s, prim), mo in zip(cases, mouts or [None] * len(cases)):
        try:
            out = {"ok": F.FlowIR.interpolate(s, copy.deepcopy(ctxv), is_primitive=prim)}
        except BaseException as exc:
            if isinstance(exc, (KeyboardInterrupt, SystemExit)):
                raise
            out = err_kind(exc)
        case = {"kind": "interp", "ctx": to_json(ctxv), "s": s, "prim": prim}
        ctx.case(case, nontrivial=s.count("%(") >= 1,
                 tags=["kind:interp", "interp:" + ("ok" if "ok" in out else out["error"])])
        if "ok" in out:
            for m in VARPAT.finditer(out["ok"]):
                name = m.group()[2:-2]
                if not (prim and name == "replica" and name not in ctxv):
                    ctx.fail("interpolate-leaves-a-reference", case, out)
        if mo is not None:
            if mo.get("error") == "unsupported":
                ctx.tag("model:unsupported")
                continue
            ctx.compare("FlowIR.interpolate == Tree.interp", case, mo, out)

def array_unit_case(rng):
    """FlowIR.interpolate itself on a text with plain and array-indexed references over a flat context"""
    ctxv, sizes = {}, {}
    arrays = rng.sample(["a", "b", "arr", "m-1", "a_b"], rng.randint(1, 3))
    for name in arrays:
        big = rng.random() < 0.2
        words = rng.sample(ARRAY_WORDS, rng.randint(11, 13) if big else rng.randint(1, 4))
        sizes[name] = len(words)
        ctxv[name] = rng.choice([" ", "  ", "\t"]).join(words)
        if rng.random() < 0.25 and len(words) > 1:
            ctxv["base"] = words[0]
            ctxv[name] = "%(base)s " + " ".join(words[1:])
        elif rng.random() < 0.1:
            ctxv[name], sizes[name] = rng.choice([7, True, 2.5]), 1
    indices = rng.sample(["i", "j", "which"], rng.randint(0, 2))
    for name in indices:
        ctxv[name] = rng.choice([int, str, lambda n: "%(n0)s"])(rng.randrange(min(sizes.values())))
        if ctxv[name] == "%(n0)s":
            ctxv["n0"] = rng.randrange(min(sizes.values()))
    shape, segs = gen_segs(rng, arrays, indices, sizes)
    fault = rng.choice(["none"] * 8 + ["out-of-range", "undefined-array", "undefined-index"])
    if fault == "out-of-range":
        segs += [["t", " "], ["i", arrays[0], sizes[arrays[0]] + rng.randrange(3)], ["t", ""]]
    elif fault == "undefined-array":
        segs += [["t", " "], rng.choice([["i", "nowhere", 0], ["r", "nowhere"]]), ["t", ""]]
    elif fault == "undefined-index":
        segs += [["t", " "], ["v", arrays[0], "nowhere"], ["t", ""]]
    return {"kind": "interpA", "ctx": to_json(ctxv), "segs": segs, "s": render_segs(segs), "shape": shape,
            "fault": fault}


def unit_array(ctx, rng, n, given=None):
    F = _F()
    cases = given if given is not None else [array_unit_case(rng) for _ in range(n)]
    mouts = ctx.model([{"op": "interpA", "ctx": c["ctx"], "s": c["s"], "fuel": FUEL} for c in cases])
    for case, mo in zip(cases, mouts or [None] * len(cases)):
        ctxv = from_json(case["ctx"])
        try:
            out = {"ok": F.FlowIR.interpolate(case["s"], copy.deepcopy(ctxv))}
        except BaseException as exc:
            if isinstance(exc, (KeyboardInterrupt, SystemExit)):
                raise
            out = err_kind(exc)
        ctx.case(case, nontrivial=sum(1 for g in case["segs"] if g[0] != "t") >= 2,
                 tags=["kind:interpA", "interpA:" + ("ok" if "ok" in out else out["error"]),
                       "array-shape:" + case["shape"], "fault:" + case["fault"]])
        exp = spec_segs(case["segs"], ctxv)
        if case["fault"] == "none":
            if out != {"ok": exp}:
                ctx.fail("substitution-result-differs-from-specification", case,
                         {"text": case["s"], "expected": exp, "got": out})
        elif case["fault"] in ("undefined-array", "undefined-index") and "ok" in out:
            ctx.fail("undefined-variable-not-reported", case, {"text": case["s"], "got": out})
        if mo is not None:
            if mo.get("error") == "unsupported":
                ctx.tag("model:interpA-unsupported")
                continue
            ctx.compare("FlowIR.interpolate == Tree.interpA", case, coarse_error(array_error(mo)),
                        coarse_error(array_error(out)))


def gen_variable_file(rng, names):
    """one variable file: optional global section, sections for some of the stages 0, 1, 2, 10, 11; scalars of
    every admitted kind; sections may be missing or empty"""
    f = {}
    val = lambda: rng.choice(["s", "", "x y", "%(a)s", 0, 1, -3, 10, 11, True, False, 2.5, "1", "1.0", "True"])
    if rng.random() < 0.8:
        f["global"] = {n: val() for n in names if rng.random() < 0.4}
    if rng.random() < 0.85:
        f["stages"] = {}
        for st in (0, 1, 2, 10, 11, 12):
            if rng.random() < 0.45:
                f["stages"][st] = {n: val() for n in names if rng.random() < 0.4}
    if rng.random() < 0.45:
        # the INI flavour (sections spelled in any letter case; [GLOBAL] only when it says something)
        f.setdefault("global", {})
        f.setdefault("stages", {})
        confify(f, conf_spec(rng))
    return f


CONF_VALUES = ["s", "", "x y", "%(a)s", "0", "10", "-3", "2.5", "True", '"quoted text"', "'single'", "a = b", "a:b",
               "k=v;w", "x ; not a comment", "x # neither", "100%", "[not a section]", "1_0"]
BAD_SECTIONS = ["STAGEX", "STG1", "global", "Global", "STAGE", "STAGE1a", "platform", "STAGE one"]


def gen_conf_sections(rng):
    """the sections of one .conf variable file: optional [GLOBAL], stage sections for a subset of the stages
    0..13 (1, 10, 11, 12 frequent), every section spelled in a style of its own; 12%: one section whose name is
    neither GLOBAL nor stage<index>"""
    names = ["a", "b", "Key", "key", "n10", "with space"]
    options = lambda: {n: rng.choice(CONF_VALUES) for n in names if rng.random() < 0.4}
    secs = []
    if rng.random() < 0.7:
        secs.append(("GLOBAL", options()))
    exotic = rng.random() < 0.15
    styles = sorted(CONF_STYLES) + (sorted(EXOTIC_STYLES) * 2 if exotic else [])
    for st in range(14):
        if rng.random() < (0.6 if st in (1, 10, 11, 12) else 0.2):
            secs.append((section_name(rng.choice(styles), st), options()))
    bad = rng.random() < 0.12
    if bad:
        secs.append((rng.choice(BAD_SECTIONS), options()))
    rng.shuffle(secs)
    return {"kind": "conf-loader", "sections": [[n, o] for n, o in secs], "delim": rng.choice(CONF_DELIMS), "bad": bad,
            "exotic": exotic}


CONF_NAME = re.compile(r"^[sS][tT][aA][gG][eE] ?0*([0-9]+)$")


def unit_conf_loader(ctx, rng, n, tmpdir, given=None):
    """FlowIRExperimentConfiguration.read_user_variables on a .conf file == Tree.confUser, and (model
    independent) every section reaches the scope its name says: [GLOBAL] the global one, [stage<n>] - any letter
    case, any number of digits - the one of stage n and no other"""
    import experiment.model.conf as C
    cases = given if given is not None else [gen_conf_sections(rng) for _ in range(n)]
    mouts = ctx.model([{"op": "confUser", "sections": c["sections"]} for c in cases])
    for case, mo in zip(cases, mouts or [None] * len(cases)):
        path = os.path.join(tmpdir, "loader.conf")
        with open(path, "w") as fh:
            fh.write(render_conf([(nm, o) for nm, o in case["sections"]], case["delim"]))
        errs = []
        try:
            got = C.FlowIRExperimentConfiguration.read_user_variables(path, errs)
            out = {"error": "bad-section"} if errs else {"ok": prune_empty(user_json(got))}
        except BaseException as exc:
            if isinstance(exc, (KeyboardInterrupt, SystemExit)):
                raise
            out = {"error": "bad-section"}
        stages = [int(CONF_NAME.match(nm).group(1)) for nm, _ in case["sections"] if CONF_NAME.match(nm)]
        ctx.case(case, nontrivial=len(stages) >= 2 and max(stages) >= 10,
                 tags=["kind:conf-loader", "conf-loader:" + ("ok" if "ok" in out else out["error"]),
                       "conf-loader:stages>=10:%d" % sum(1 for st in stages if st >= 10)] +
                      (["conf-loader:exotic-spelling"] if case.get("exotic") else []))
        if not case["bad"] and not case.get("exotic"):
            exp = {"global": {}, "stages": {}}
            for nm, o in case["sections"]:
                if nm == "GLOBAL":
                    exp["global"] = dict(o)
                else:
                    exp["stages"][str(int(CONF_NAME.match(nm).group(1)))] = dict(o)
            exp = prune_empty(exp)
            if "ok" not in out:
                ctx.fail("well-formed-variable-files-are-rejected", case, out)
            elif not canon_eq(exp, out["ok"]):
                ctx.fail("conf-section-filed-under-wrong-scope", case,
                         {"difference": first_difference(exp, out["ok"]), "loaded": out["ok"]})
        if mo is not None:
            ctx.compare("read_user_variables(*.conf) == Tree.confUser", case,
                        {"ok": prune_empty(mo["ok"])} if "ok" in mo else {"error": mo.get("error")}, out)


def unit_layer_files(ctx, rng, n, tmpdir, given=None):
    """FlowIRExperimentConfiguration.layer_many_variable_files on 1-4 files == Tree.layerUserFiles, and the
    documented meaning (model independent): in every scope a name has the value of the LAST file that defines it
    there; nothing else appears"""
    import experiment.model.conf as C
    names = ["a", "b", "keep", "shadow", "n10"]
    cases, reqs = [], []
    for k in range(n):
        files = given[k] if given is not None else [gen_variable_file(rng, names) for _ in range(rng.randint(1, 4))]
        cases.append(files)
        reqs.append({"op": "layerUsers", "users": [user_json(f) for f in files]})
    mouts = ctx.model(reqs)
    for files, mo in zip(cases, mouts or [None] * len(cases)):
        case = {"kind": "variable-files", "user": files}
        paths = write_user_files(files, tmpdir)
        try:
            got = C.FlowIRExperimentConfiguration.layer_many_variable_files(paths)
            out = {"ok": prune_empty(user_json(got))}
        except BaseException as exc:
            if isinstance(exc, (KeyboardInterrupt, SystemExit)):
                raise
            out = {"error": type(exc).__name__}
        sections = sum(1 for f in files for st in (f.get("stages") or {}))
        ctx.case(case, nontrivial=len(files) >= 2 and sections >= 2,
                 tags=["kind:variable-files", "files:%d" % len(files), "layer-files:" + ("ok" if "ok" in out else out["error"])] +
                      ["variable-file:" + ("conf" if f.get("conf") else "yaml") for f in files])
        if "ok" not in out:
            ctx.fail("well-formed-variable-files-are-rejected", case, out)
            continue
        exp = expected_user_variables(files)
        if not canon_eq(exp, out["ok"]):
            ctx.fail("variable-of-an-earlier-file-lost-or-not-shadowed", case,
                     {"difference": first_difference(exp, out["ok"]), "layered": out["ok"]})
        if mo is not None:
            ctx.compare("layer_many_variable_files == Tree.layerUserFiles", case,
                        {"ok": prune_empty(mo["ok"])} if "ok" in mo else mo, out)


CORPUS = []


def _flatten_before_resolve():
    """minimal regression input of the sequence stream: a stage-scoped blueprint holding sections that the
    global blueprint lacks, two components in the stage that differ in the options they set, the workflow is
    flattened (what writing an instance description does) before the sibling is resolved"""
    doc = base_doc()
    doc["components"].append({"name": "s0", "stage": 0, "command": {}, "variables": {}, "override": {}})
    idx = {r[0]: i for i, r in enumerate(SEQ_ROUTES)}
    routes = [idx[("resourceManager", "config", "walltime")], idx[("resourceRequest", "numberThreads")],
              idx[("resourceRequest", "memory")], idx[("resourceRequest", "numberProcesses")]]
    doc["blueprint"]["default"]["stages"][0] = {"resourceManager": {"config": {"walltime": 30.5}},
                                                "resourceRequest": {"numberProcesses": 2}}
    doc["components"][0].update(resourceManager={"config": {"walltime": 5.5}},
                                resourceRequest={"numberThreads": 4, "memory": 1024})
    doc["variables"]["default"]["global"]["v"] = "vDG"
    for c in doc["components"]:
        c["command"]["arguments"] = "<%(v)s>"
    ops = [{"op": "read", "what": "instance", "platform": "default", "fill_in_all": False, "prim": True, "inject": False},
           {"op": "resolveAll"}]
    return {"kind": "sequence", "doc": doc, "user": None, "routes": routes, "ops": ops}


def _primitive_before_strict(look):
    """minimal regression input of the primitive-then-strict family: a component that is not replicated mentions
    %(replica)s in its arguments and in an int-typed option; a primitive look-up (validate() / a primitive
    query) comes first, every component is resolved strictly afterwards"""
    doc = base_doc()
    doc["components"].append({"name": "s0", "stage": 0, "command": {}, "variables": {}, "override": {}})
    doc["variables"]["default"]["global"]["v"] = "vDG"
    for c in doc["components"]:
        c["command"]["arguments"] = "<%(v)s>"
    doc["components"][0]["command"]["arguments"] = "<%(v)s> r%(replica)s"
    doc["components"][2]["resourceRequest"] = {"threadsPerCore": "%(replica)s"}
    ops = [look, {"op": "resolveAll"}]
    return {"kind": "sequence", "doc": doc, "user": None, "routes": [], "ops": ops,
            "tolerant": {"0/c0": "replica-arg", "0/s0": "replica-typed"}, "views": ["instance", "conf"]}


SEQ_CORPUS = [_flatten_before_resolve(),
              _primitive_before_strict({"op": "read", "what": "validate"}),
              _primitive_before_strict({"op": "queryF", "stage": 0, "name": "c0", "platform": "default",
                                        "flags": dict(STD_FLAGS, prim=True)}),
              _primitive_before_strict({"op": "queryF", "stage": 0, "name": "s0", "platform": "p",
                                        "flags": dict(STD_FLAGS, prim=True)})]


def flat_corpus():
    """regression inputs of the flattened views: one variable defined by exactly two scopes, for every pair of
    the four variable scopes, on both platforms, asked through every flattened form"""
    out = []
    for pair in itertools.combinations(["DG", "DS", "PG", "PS"], 2):
        for platform in ("default", "p"):
            case = mask_case("variable-mask", 0, list(pair), [], [], platform, 0)
            doc, user, exp = materialise_mask(case)
            case.update(doc=doc, user=user, expect=exp, prim=False, views=list(VIEWS))
            out.append(case)
    return out


def run(ctx):
    _quiet()
    ctx.classifiers = CLASSIFIERS
    ctx.shrinker = shrink_sequence
    from harness import gen_c04
    table = gen_c04.py_table()
    rng = ctx.rng
    quick = ctx.tier == "quick"
    ctx.rule = ("cases = (a) option-mask: one option route x subset of the 6 definable option layers (+ layers of a "
                "foreign platform, + layers defining None) x platform in {default,p} x stage; (b) variable-mask: the "
                "same for one variable over the 10 variable layers (global/stage sections of two user files included); (c) chain: variables "
                "referring to variables (depth 1-6) spread over random layers with an optional fault (undefined, "
                "defined only on another platform, incomplete, invalid value, cycle, self reference, replica); "
                "(d) typed: 1-4 typed options with values from per-type pools (valid and invalid); (e) structural "
                "probes; (f) unit cases of override_object / interpolate on random trees / strings. non-trivial = "
                ">= 2 layers define the key (masks), the input has >= 1 reference (interp), the trees share a key "
                "(override), >= 2 files with >= 2 stage sections (variable files), always (others); distinct by canonical "
                "JSON of the case. thorough: all 2^6 option masks for both platforms and both stages, all 2^10 variable "
                "masks for both platforms (stage alternating). (g) half of the cases of (a)-(e) asked "
                "again with a random non-default combination of raw / include_default / is_primitive / "
                "inject_missing_fields. (h) sequence: a description with 3-5 components (>= 2 per stage), 3-6 option "
                "routes and one variable defined by random subsets of the global AND stage-scoped blueprints / "
                "variables of three platforms and of every component and override; 2-8 read-only operations on one "
                "object (queries of every keyword variant, instance, replicate, raw, copy, getters, reference getters) "
                "with resolve-everything points in between and at the end; non-trivial = >= 2 read-only operations; "
                "60% of the sequences hold 1-2 components that are not replicated but mention %(replica)s (arguments / "
                "typed option / variable: primitive and strict resolutions differ), validate() is a read-only "
                "operation and 75% of those sequences place a primitive look-up before a strict one. (i) every case "
                "of (a)-(e) without keyword variant and every sequence (after its last operation, both platforms) is "
                "also resolved through the flattened forms FlowIRConcrete(instance(P)) [always], "
                "FlowIRConcrete(replicate(P)) [20%], FlowIRExperimentConfiguration(primitive=False) [18-25%] with the "
                "same oracles; instance(P) itself is compared with Tree.flatten. (e') 20/200 cases in which a "
                "global/stage variable refers to a name an inner scope re-defines (early binding of the fold: "
                "tagged, Witness/C04.lean). (k) user variables come from ONE OR TWO variable files (layers U/US = "
                "global/stage section of the first file, V/VS = of the second; masks over 10 variable layers, chains "
                "and sequences draw them too); files hold sections for the stage that do not mention the variable and "
                "sections of the other stage that do (decoys); cases with user variables are also loaded through "
                "FlowIRExperimentConfiguration(variable_files=[...]) [30%] and through parametrize(variable_files) "
                "after a first load with other files [25%]; unit stream: layer_many_variable_files on 1-4 files with "
                "missing / empty sections and stages 0,1,2,10,11 == Tree.layerUserFiles and == 'last file that defines "
                "the name in the scope'. (l) siblings: 2-4 components of ONE stage (stage in 0,1,2,10,11; + one "
                "component of another stage) over 2-4 shared names defined by random outer layers (<= 1 by none), "
                "decoys in sections of another stage / platform; every component re-defines some names privately "
                "(own variables / override) and reaches the others through variables of its OWN and from its "
                "arguments, arranged so that every pair of siblings shadows a name the other reaches (visit-order "
                "independent); one case per component; expectation = layering + substitution of the ORIGINAL document. "
                "Sequences: half of the components own a variable that reaches `v` (which siblings re-define). (m) "
                "a sample of the cases (every sibling case, every 5th other) is run AGAIN at the end of the run in "
                "another order (answers must be the first ones) and in 2 (thorough: 3) child processes with other "
                "PYTHONHASHSEEDs (answers must be this process's). (n) variable files come in two flavours: YAML and "
                "INI (*.conf: [GLOBAL] / [stage<n>] sections, the word stage in upper / lower / title / mixed case, "
                "with leading zeros or a blank, options delimited by = or :, sections in ascending or descending "
                "order; every value a text): 30-45% of the files of the mask / chain / sibling / sequence streams "
                "and of the layer_many_variable_files stream are written as .conf files. (o) stages: workflows "
                "with 12-14 stages, one component of the same name per stage, three variables defined by the "
                "package globally and per stage, 1-2 variable files (65% .conf) with sections for a random subset of "
                "the stages (1, 10, 11 and the last one frequent), one case per stage judged by layering + "
                "substitution of the ORIGINAL document, directly and through the flattened views / the "
                "configuration object that reads the files itself; get_user_variables() of that object must equal "
                "'last file wins per scope'. (p) conf-loader: read_user_variables on .conf files with sections "
                "for a subset of the stages 0-13 in mixed spellings (12% with one malformed section name) == "
                "Tree.confUser and == 'the section named stage<n> is the scope of stage n'; non-trivial = >= 2 "
                "stage sections one of which is of a stage >= 10. (q) array: 1-2 array variables (2-4 or 11-13 blank separated "
                "words, 30% built from another variable) and 0-2 integer index variables (25% through a chain), each "
                "defined with DIFFERENT values by 1-3 random variable layers (+ decoys on another platform), used from "
                "arguments / queue / a list option and from a variable of the component in 2-5 occurrences per text: "
                "plain %(v)s, %(v)s[n] (n up to 10), %(v)s[%(i)s] in the orders plain-then-indexed (same variable), "
                "indexed-then-plain, only plain, only indexed, mixed; 20% with an undefined array / index variable; "
                "expectation = layering of the ORIGINAL document, every occurrence replaced by its own value; asked "
                "directly, with keyword variants and through the flattened views; the model side is Tree.interpA over "
                "the variables Tree.varsOf layered. (r) interpA: FlowIR.interpolate itself on such texts over flat "
                "contexts (numbers / booleans as arrays, tab separated words, index out of range) == Tree.interpA and == "
                "the occurrence-wise specification; non-trivial = >= 2 references.")
    ctx.assumptions = [
        "outside the array streams generated strings contain no '[' and no dotted variable names; in the array "
        "streams '[' occurs only as the index of a reference (no constant arrays `a b c[1]`, no file arrays), the values "
        "of array variables are array-free, indices are in range except in the unit stream",
        "int()/float() literals are drawn from the documented subset (sign+digits; <=10 integer and <=4 fractional digits)",
        "at most one kind of error is injected per case (the model reports the first error in its own traversal order)",
        "components have command.interpreter = None (interpreter digestion not modelled)",
    ]
    ctx.trusted.append("C04: FlowIRConcrete.__init__/raw() (normalisation of the document) is used to obtain the "
                       "description handed to the model; floats compared by repr")
    ctx.trusted.append("C04: answers of the getters inside sequences are not compared (only their effect on later "
                       "resolutions and on the description is); instance() is compared with Tree.flatten in its "
                       "variables / blueprint / components sections (environments, output, status report, virtual "
                       "environments, application dependencies, interface are not); replicate() and "
                       "FlowIRExperimentConfiguration are judged through the resolutions they answer only")
    ctx.assumptions.append("flattened views are compared for components that are not replicated (no "
                           "workflowAttributes.replicate) and documents without $import components")
    ctx.assumptions.append(".conf variable files have no [DEFAULT] section and no two sections that name the same stage "
                           "in different spellings (the later one replaces the earlier one: modelled, not generated)")
    ctx.assumptions.append("variable files are YAML or INI (*.conf) with scalar values (strings, numbers, booleans; texts in .conf files); across files the "
                           "sections of a stage outrank the global sections (what the code does; the property text "
                           "names user-supplied variables as ONE layer)")
    tmpdir = tempfile.mkdtemp(prefix="c04-")
    try:
        cases = flat_corpus()
        # (a) option masks
        layer_sets = [list(c) for r in range(len(OPT_LAYERS) + 1) for c in itertools.combinations(OPT_LAYERS, r)]
        if quick:
            picked = [(ri, m, pl, st) for ri in range(len(OPTION_POOL)) for m in rng.sample(layer_sets, 10)
                      for pl in ("default", "p") for st in (rng.choice([0, 1]),)]
        else:
            picked = [(ri, m, pl, st) for ri in range(len(OPTION_POOL)) for m in layer_sets
                      for pl in ("default", "p") for st in (0, 1)]
            ctx.exhaustive = True
        for ri, m, pl, st in picked:
            foreign = [t for t in FOREIGN if rng.random() < 0.4]
            nulls = [t for t in m if rng.random() < 0.15]
            case = mask_case("option-mask", ri, m, nulls, foreign, pl, st)
            doc, user, exp = materialise_mask(case)
            case.update(doc=doc, user=user, expect=exp, prim=False)
            cases.append(case)
        # (b) variable masks
        vsets = [list(c) for r in range(len(VAR_ORDER) + 1) for c in itertools.combinations(VAR_ORDER, r)]
        if quick:
            vpicked = [(m, pl, rng.choice([0, 1])) for m in rng.sample(vsets, 120) for pl in ("default", "p")]
        else:
            # every subset of the 10 variable layers on both platforms (the stage alternates)
            vpicked = [(m, pl, (k + j) % 2) for k, m in enumerate(vsets) for j, pl in enumerate(("default", "p"))]
        for m, pl, st in vpicked:
            foreign = [t for t in FOREIGN if rng.random() < 0.4]
            # variable files that hold a section for the stage which does not mention the variable
            fill = [k for k in (0, 1) if rng.random() < 0.5]
            conf = [conf_spec(rng) if rng.random() < 0.3 else None for _ in (0, 1)]   # YAML or INI flavour
            case = mask_case("variable-mask", 0, m, [], foreign, pl, st, fill=fill, conf=conf)
            doc, user, exp = materialise_mask(case)
            case.update(doc=doc, user=user, expect=exp, prim=False)
            cases.append(case)
        # (c) chains
        for _ in range(300 if quick else 4000):
            cases.append(gen_chain(rng))
        # (c') array-indexed references next to plain ones, over layered array / index variables
        for _ in range(120 if quick else 1500):
            cases.append(gen_array(rng))
        # (d) typed
        leaves = list(typed_leaves(table))
        if not quick:
            for li in range(len(leaves)):
                for vi in range(12):
                    cases.append(gen_typed(rng, table, (li, vi)))
        for _ in range(250 if quick else 2500):
            cases.append(gen_typed(rng, table))
        # (e) structural
        for _ in range(60 if quick else 600):
            cases.append(gen_structural(rng))
        # (e') references of outer-scope variables to names an inner scope re-defines
        for _ in range(20 if quick else 200):
            cases.append(gen_shadowed(rng))
        # (e'') siblings of one stage with private variables and variable-to-variable references of their own
        for _ in range(60 if quick else 400):
            cases.extend(gen_siblings(rng))
        # (o) workflows with 12-14 stages, user variables from YAML and .conf files, every stage asked
        for _ in range(6 if quick else 50):
            cases.extend(gen_stages(rng))
        # every case is also asked through the flattened forms of its description (what the runtime executes)
        for case in cases:
            r = rng.random()
            if case.get("views"):
                continue
            case["views"] = (["instance"] + (["replicate"] if r < 0.2 else []) + (["conf"] if 0.12 < r < 0.3 else []) +
                             (["stored"] if r > 0.8 else []))
            if case.get("user") is not None:
                # other entry points: the configuration object reads the variable file(s) itself / is
                # re-parametrised with them after a first load with other files
                case["views"] += (["conf-files"] if 0.25 < r < 0.55 else []) + (["reparam"] if 0.45 < r < 0.7 else [])
            if '"replicate"' in json.dumps(case["doc"]):
                case["views"] = ["instance"]        # a replicated component has other names: not this property
        # (g) the same cases asked with the other keyword variants of get_component_configuration
        nonstd = [f for f in ALL_FLAGS if f != STD_FLAGS]
        for case in list(cases):
            if rng.random() < (0.5 if case["kind"] != "stages" else 0.1):
                twin = copy.deepcopy(case)
                twin["flags"] = rng.choice(nonstd)
                twin["prim"] = twin["flags"]["prim"]
                cases.append(twin)
        import time
        phases, t0 = {}, time.time()
        run_cases(ctx, cases, tmpdir, table)
        phases["cases"], t0 = round(time.time() - t0, 1), time.time()
        # (h) sequences of read-only operations on one object, every component resolved in between
        seqs = [gen_sequence(rng) for _ in range(150 if quick else 1500)]
        run_sequences(ctx, SEQ_CORPUS + seqs, tmpdir, table)
        phases["sequences"], t0 = round(time.time() - t0, 1), time.time()
        # (f) unit relations
        unit_override(ctx, rng, 400 if quick else 6000)
        unit_interp(ctx, rng, 600 if quick else 10000)
        unit_array(ctx, rng, 500 if quick else 8000)
        unit_layer_files(ctx, rng, 150 if quick else 2500, tmpdir)
        unit_conf_loader(ctx, rng, 150 if quick else 2500, tmpdir)
        phases["units"], t0 = round(time.time() - t0, 1), time.time()
        # the same cases later in this process / in processes with other hash seeds
        later_streams(ctx, tmpdir, 160 if quick else 800, 60 if quick else 250,
                      [ctx.seed + 101, ctx.seed + 202] if quick else [ctx.seed + 101, ctx.seed + 202, 4242])
        phases["later"] = round(time.time() - t0, 1)
        ctx.extra["phase_wall_s"] = phases
    finally:
        shutil.rmtree(tmpdir, ignore_errors=True)


def classify_foreign_override_leak(what, case, detail):
    """resolution on platform P fails with unknown-variable and the only text that mentions the variable is inside
    the component's override for a platform other than P"""
    if what != "override-of-another-platform-breaks-resolution":
        return False
    if not isinstance(detail, dict) or detail.get("error") != "unknown-variable" or not detail.get("name"):
        return False
    ref = "%%(%s)s" % detail["name"]
    comp = copy.deepcopy(case["doc"]["components"][case["stage"]])
    foreign = {p: o for p, o in (comp.get("override") or {}).items() if p != case["platform"]}
    if ref not in json.dumps(foreign):
        return False
    comp["override"] = {p: o for p, o in (comp.get("override") or {}).items() if p == case["platform"]}
    rest = json.dumps([comp, case["doc"].get("blueprint")])
    return ref not in rest


def classify_flatten_early_binding(what, case, detail):
    """the flattened view answers with the OUTER value of a name that an inner scope of the component
    re-defines, and the name is referenced from a variable of an outer (global / stage) scope"""
    if what != "flattening-binds-shadowed-reference-early" or case.get("kind") != "shadowed":
        return False
    return isinstance(detail, dict) and detail.get("got") == "outerV-g"


_EARLY = []


def early_binding_registered():
    """is the finding in known_findings.json (maintained by the coordinator)? until then it is only tagged"""
    if not _EARLY:
        from harness.common import load_known
        try:
            _EARLY.append(any(e.get("classifier") == "c04_flatten_early_binding" for e in load_known("C04")))
        except Exception:
            _EARLY.append(False)
    return _EARLY[0]


CLASSIFIERS = {"c04_reference_inside_override_of_another_platform": classify_foreign_override_leak,
               "c04_flatten_early_binding": classify_flatten_early_binding}


def replay(ctx, doc):
    ctx.classifiers = CLASSIFIERS
    _quiet()
    from harness import gen_c04
    table = gen_c04.py_table()
    case = doc.get("input") or doc["no_longer_checks"][-1]["input"]
    tmpdir = tempfile.mkdtemp(prefix="c04-")
    try:
        kind = case.get("kind")
        if kind == "override":
            F = _F()
            a, b = from_json(case["old"]), from_json(case["new"])
            try:
                out = {"ok": to_json(F.FlowIR.override_object(a, b))}
            except Exception as exc:
                out = err_kind(exc)
            mo = ctx.model([{"op": "override", "old": case["old"], "new": case["new"]}])
            ctx.case(case, nontrivial=True, tags=["kind:override"])
            if mo is not None:
                ctx.compare("FlowIR.override_object == Tree.override", case, mo[0], out)
        elif kind == "interp":
            F = _F()
            try:
                out = {"ok": F.FlowIR.interpolate(case["s"], from_json(case["ctx"]), is_primitive=case["prim"])}
            except BaseException as exc:
                out = err_kind(exc)
            mo = ctx.model([{"op": "interp", "ctx": case["ctx"], "s": case["s"], "prim": case["prim"], "fuel": FUEL}])
            ctx.case(case, nontrivial=True, tags=["kind:interp"])
            if mo is not None and mo[0].get("error") != "unsupported":
                ctx.compare("FlowIR.interpolate == Tree.interp", case, mo[0], out)
        elif kind == "interpA":
            unit_array(ctx, None, 1, given=[case])
        elif kind == "variable-files":
            files = [from_json(f) for f in case["user"]]
            for f in files:
                if isinstance(f.get("stages"), dict):
                    f["stages"] = {int(k): v for k, v in f["stages"].items()}
            unit_layer_files(ctx, None, 1, tmpdir, given=[files])
        elif kind == "conf-loader":
            unit_conf_loader(ctx, None, 1, tmpdir, given=[case])
        elif kind == "sequence":
            run_sequences(ctx, [fix_int_keys(case)], tmpdir, table)
        else:
            case = fix_int_keys(case)
            run_cases(ctx, [case], tmpdir, table)
    finally:
        shutil.rmtree(tmpdir, ignore_errors=True)


def from_json(v):
    if isinstance(v, dict):
        if list(v.keys()) == ["$flt"]:
            return float(v["$flt"])
        return {k: from_json(x) for k, x in v.items()}
    if isinstance(v, list):
        return [from_json(x) for x in v]
    return v


def fix_int_keys(case):
    """JSON turned the integer stage keys of the document into strings: undo"""
    def fix_stages(d):
        if isinstance(d, dict) and "stages" in d and isinstance(d["stages"], dict):
            d["stages"] = {int(k): v for k, v in d["stages"].items()}
    doc = case["doc"]
    for sect in ("blueprint", "variables"):
        for P in (doc.get(sect) or {}).values():
            fix_stages(P)
    for f in user_files(case.get("user")):
        fix_stages(f)
    return case


if __name__ == "__main__":
    # child process of later_streams (another PYTHONHASHSEED): python -m harness.c04 <cases.json>
    _repo = os.environ.get("ST4SD_REPO", "/repo")
    sys.path.insert(0, _repo)
    sys.path.insert(0, os.path.join(_repo, "python"))
    import warnings
    warnings.filterwarnings("ignore")
    sys.modules.setdefault("harness.c04", sys.modules["__main__"])
    child_main(sys.argv[1])
