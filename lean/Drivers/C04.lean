import Drivers.Proto
import St4sd.Model.TreeJson
import St4sd.Model.TreeFlatten
import St4sd.Model.TreeConf
import St4sd.Model.TreeArray
/-! Model driver for property C04 (layered resolution of a component configuration). -/
open Lean Proto St4sd.Tree

def jsonOfFields (kvs : Fields) : Json := jsonOfVal (.dict kvs)

def jsonOfDesc (d : Desc) : Json :=
  jobj [("platforms", jarr (d.platforms.map jchars)),
        ("blueprint", jobj (d.blueprint.map fun (P, (g, st)) =>
          (String.ofList P, jobj [("global", jsonOfVal g),
                                  ("stages", jobj (st.map fun (i, v) => (toString i, jsonOfVal v)))]))),
        ("variables", jobj (d.variables.map fun (P, pv) =>
          (String.ofList P, jobj [("global", jsonOfFields pv.global),
                                  ("stages", jobj (pv.stages.map fun (i, v) => (toString i, jsonOfFields v)))]))),
        ("components", jarr (d.comps.map fun c =>
          jobj [("stage", jnat c.stage), ("name", jchars c.name), ("body", jsonOfFields c.body)]))]

/-- the description with the user's variables patched in: `"users": [file, …]` (several variable files, layered
first to last by `layerUserFiles`) or `"user": file | null` (one file) -/
def patched (j : Json) : Except String Desc := do
  let d ← descOfJson (← j.getObjVal? "desc")
  match j.getObjVal? "users" with
  | .ok (Json.arr fs) => do
    let files ← fs.toList.mapM userOfJson
    pure (patchUser d (layerUserFiles files) (← getNat j "nstages"))
  | _ =>
    match j.getObjVal? "user" with
    | .ok Json.null => pure d
    | .ok u => do pure (patchUser d (← userOfJson u) (← getNat j "nstages"))
    | .error _ => pure d

def handle (j : Json) : Except String Json := do
  let op ← getStr j "op"
  match op with
  | "resolve" =>
    let d ← patched j
    let P ← getChars j "platform"
    let i ← getNat j "stage"
    let n ← getChars j "name"
    let prim ← getBool j "prim"
    let fuel ← getNat j "fuel"
    let vars := match findComp d.comps i n with
      | some c => jsonOfVal (.dict (varsOf d P c))
      | none => Json.null
    let layered := match findComp d.comps i n with
      | some c => jsonOfResult (layerAll (.dict []) (layers d P c))
      | none => Json.null
    let result := match j.getObjVal? "flags" with
      | .ok fj => match flagsOfJson fj with
        | .ok f => resolveF d P i n f fuel
        | .error _ => .error .unsupported
      | .error _ => resolve d P i n prim fuel
    return jobj [("result", jsonOfResult result), ("vars", vars), ("layered", layered)]
  | "flatten" =>
    -- instance(P, ignore_errors=True, fill_in_all=False, is_primitive=prim, inject_missing_fields=inject)
    let d ← patched j
    let P ← getChars j "platform"
    let prim ← getBool j "prim"
    let inject ← getBool j "inject"
    let fuel ← getNat j "fuel"
    return match flatten fuel d P prim inject with
      | .ok fd => jobj [("result", jobj [("ok", jsonOfDesc fd)]), ("skeleton", jsonOfDesc (flattenRaw d P))]
      | .error e => jobj [("result", jsonOfResult (.error e)), ("skeleton", jsonOfDesc (flattenRaw d P))]
  | "layerUsers" =>
    -- FlowIRExperimentConfiguration.layer_many_variable_files
    let files ← (← getArr j "users").mapM userOfJson
    let u := layerUserFiles files
    return jobj [("ok", jobj [("global", jsonOfFields u.global),
                              ("stages", jobj (u.stages.map fun (i, v) => (toString i, jsonOfFields v)))])]
  | "confUser" =>
    -- read_user_variables("….conf"): "sections" = [[name, {option: text}], …] as configparser hands them out
    let secs ← (← getArr j "sections").mapM (fun e => do
      match e with
      | Json.arr a =>
        if h : a.size = 2 then do
          let n ← a[0].getStr?
          pure (n.toList, ← fieldsOfJson a[1])
        else throw "section: [name, options] expected"
      | _ => throw "section: [name, options] expected")
    let idx := jarr (secs.map fun e => match stageSectionIndex e.1 with
      | some i => jnat i
      | none => Json.null)
    return match confUser secs with
      | some u => jobj [("ok", jobj [("global", jsonOfFields u.global),
                                     ("stages", jobj (u.stages.map fun (i, v) => (toString i, jsonOfFields v)))]),
                        ("indices", idx)]
      | none => jobj [("error", "bad-section"), ("indices", idx)]
  | "interp" =>
    let ctx ← fieldsOfJson (← j.getObjVal? "ctx")
    let s ← getChars j "s"
    let prim ← getBool j "prim"
    let fuel ← getNat j "fuel"
    return match interp fuel ctx prim [] s with
      | .ok r => jobj [("ok", jchars r)]
      | .error e => jsonOfResult (.error e)
  | "interpA" =>
    -- FlowIR.interpolate on a text whose references may carry array indices (Model/TreeArray.lean)
    let ctx ← fieldsOfJson (← j.getObjVal? "ctx")
    let s ← getChars j "s"
    let fuel ← getNat j "fuel"
    return match interpA fuel ctx s with
      | .ok r => jobj [("ok", jchars r)]
      | .error e => jsonOfResult (.error e)
  | "override" =>
    let a ← valOfJson (← j.getObjVal? "old")
    let b ← valOfJson (← j.getObjVal? "new")
    return if clash a b then jsonOfResult (.error .typeClash) else jsonOfResult (.ok (override a b))
  | "convert" =>
    let v ← valOfJson (← j.getObjVal? "comp")
    let prim ← getBool j "prim"
    return jsonOfResult (convert prim St4sd.Gen.C04.typeTable v)
  | _ => throw s!"unknown op {op}"

def main : IO Unit := serve handle
