import Drivers.Proto
/-! Model driver for property C05 (stub: no model operations registered yet). -/
open Lean Proto

def handle (j : Json) : Except String Json := do
  let op ← getStr j "op"
  throw s!"unknown op {op}"

def main : IO Unit := serve handle
