import Drivers.Proto
import St4sd.Model.Loop
import St4sd.Model.LoopMulti
import St4sd.Model.LoopDisk
/-! Model driver for property C05 (DoWhile unrolling).

Request `{"op":"runm","num":bool,"docs":[doc…],"out":[comp…],"ops":[["adv",i] | ["read"] …],"sparse":bool?}` →
`{"steps":[snapshot_0 … snapshot_n],"disk":[…]}`: snapshot_0 describes the model workflow as loaded, snapshot_j the workflow
after the first `j` operations (`Loop.runOps`); with `sparse` only snapshot_0 and snapshot_n.  `freshEdges` of a
snapshot are the edges of ONE graph construction over its components (`Loop.edgesOfM`: what a reload of the stored
instance builds), `edges` those accumulated by the iterations.

An operation `["files",[{"stage":s,"name":n,"states":[st_0 … st_k]} …]]` is a read (`Op.read`); `st_j` is what is on disk
for instance `j` of placeholder `(s,n)`: a string = the file is there with that content, `null` = the working
directory is there without the file, `false` = no working directory.  For every such operation `disk` holds
`{"at":j,"placeholders":[answers]}` — the resolution of `:loopoutput`, `:output` and the staging of `:loopref` against
that state in the workflow after `j` operations (`Model/LoopDisk.lean`).

Request `{"op":"run","num":bool,"k":n,"doc":{…},"out":[comp…]}` (one document, `Loop.run`) →
`{"steps":[snapshot_0 … snapshot_k]}`. -/
open Lean Proto St4sd.Loop

def getOptNat (j : Json) (k : String) : Except String (Option Nat) :=
  match j.getObjVal? k with
  | .ok Json.null => pure none
  | .ok v => do return some (← v.getNat?)
  | .error _ => pure none

def parseRef (j : Json) : Except String Ref := do
  return { direct := (← getBool j "direct"), stage := (← getOptNat j "stage"), producer := (← getChars j "producer"),
           file := (← getChars j "file"), method := (← getChars j "method") }

def parseComp (j : Json) : Except String Comp := do
  let args ← match j.getObjVal? "args" with
    | .ok (Json.arr a) => a.toList.mapM parseRef
    | _ => pure []
  return { stage := (← getNat j "stage"), name := (← getChars j "name"), refs := (← (← getArr j "refs").mapM parseRef),
           args := args }

def parseBinding (j : Json) : Except String (List Char × Ref) := do
  return ((← getChars j "key"), (← parseRef (← j.getObjVal? "ref")))

def parseDoc (j : Json) : Except String Doc := do
  return { comps := (← (← getArr j "comps").mapM parseComp),
           bindings := (← (← getArr j "bindings").mapM parseBinding),
           loopBindings := (← (← getArr j "loopBindings").mapM parseBinding),
           condStage := (← getNat j "condStage"), condName := (← getChars j "condName"),
           condFile := (← getChars j "condFile"), importStage := (← getNat j "importStage") }

def jid (x : CId) : Json := jstr s!"stage{x.1}.{String.ofList x.2}"

def jref (r : Ref) : Json :=
  jobj [("direct", jbool r.direct), ("stage", jopt jnat r.stage), ("producer", jchars r.producer),
        ("file", jchars r.file), ("method", jchars r.method)]

def snapshot (num : Bool) (d : Doc) (w : Wf) : Json :=
  let cs := w.comps
  jobj [
    ("comps", jarr (cs.map fun c => jobj [("id", jid c.id), ("refs", jarr (c.refs.map jref)), ("args", jarr (c.args.map jref))])),
    ("edges", jarr (w.edges.map fun e => jarr [jid e.1, jid e.2])),
    ("placeholders", jarr ((placeholders num d cs).map fun p =>
        jobj [("id", jid p.id), ("represents", jarr (p.represents.map jid)), ("latest", jopt jid p.latest),
              ("ref", jopt jid (resolveProducer num d cs p.id)),
              ("maplatest", jopt jid (mapPlaceholderLatest num cs p.id)),
              ("loopref", jarr ((loopRefOrder num d cs p.id).map jid))])),
    ("iter", jnat (curIter d cs)),
    ("cond", jopt jid (latestCond d cs)),
    ("condFile", jchars d.condFile)]

/-- snapshot of a workflow with several DoWhile documents -/
def snapshotM (num : Bool) (ds : List Doc) (w : Wf) : Json :=
  let cs := w.comps
  jobj [
    ("comps", jarr (cs.map fun c => jobj [("id", jid c.id), ("refs", jarr (c.refs.map jref)), ("args", jarr (c.args.map jref))])),
    ("edges", jarr (w.edges.map fun e => jarr [jid e.1, jid e.2])),
    ("freshEdges", jarr ((edgesOfM ds cs).map fun e => jarr [jid e.1, jid e.2])),
    ("placeholders", jarr ((placeholdersM num ds cs).map fun q =>
        let p := q.2
        jobj [("id", jid p.id), ("represents", jarr (p.represents.map jid)), ("latest", jopt jid p.latest),
              ("ref", jopt jid (resolveProducerM num ds cs p.id)),
              ("maplatest", jopt jid (mapPlaceholderLatest num cs p.id)),
              ("loopref", jarr ((loopRefOrderM num ds cs p.id).map jid)),
              ("preds", jarr ((ctlPredecessors ds cs p.id).map jid))])),
    ("docs", jarr (ds.map fun d =>
        jobj [("iter", jnat (curIter d cs)), ("cond", jopt jid (latestCond d cs)), ("condFile", jchars d.condFile)])),
    ("ctlConditions", jarr ((ctlConditions ds cs).map (jopt jid)))]

def runAll (d : Doc) (out : List Comp) : Nat → List Wf
  | 0 => [init d out]
  | k + 1 =>
    match runAll d out k with
    | [] => []
    | w :: ws => step d w :: w :: ws

def parseOp (j : Json) : Except String Op := do
  match j with
  | Json.arr a =>
    match a.toList with
    | [Json.str "adv", i] => return Op.advance (← i.getNat?)
    | Json.str "read" :: _ => return Op.read
    | Json.str "files" :: _ => return Op.read
    | _ => throw "bad op"
  | _ => throw "bad op"

/-- the workflows after every prefix of the operations (`Loop.runOps` of the prefixes), newest first -/
def runOpsAll (ds : List Doc) (w : Wf) : List Op → List Wf → List Wf
  | [], acc => w :: acc
  | o :: ops, acc => runOpsAll ds (applyOp ds o w) ops (w :: acc)

/-- one placeholder of a `files` operation: id and the state of the disk per iteration number -/
def parseFiles (j : Json) : Except String (CId × List FileState) := do
  let sts ← (← getArr j "states").mapM fun s =>
    match s with
    | Json.str v => pure (FileState.value v.toList)
    | Json.null => pure FileState.noFile
    | Json.bool false => pure FileState.noDir
    | _ => throw "bad file state"
  return (((← getNat j "stage"), (← getChars j "name")), sts)

def diskOf (p : CId) (sts : List FileState) : Disk := fun x =>
  if x.1 == p.1 && isLooped x.2 && baseName x.2 == p.2 then (sts[iterNum x.2]?).getD .noDir else .noDir

def jexc {ε α : Type} (fe : ε → Json) (fa : α → Json) : Except ε α → Json
  | .ok a => jobj [("ok", fa a)]
  | .error e => jobj [("err", fe e)]

def diskAnswers (num : Bool) (ds : List Doc) (cs : List Comp) (p : CId) (sts : List FileState) : Json :=
  let disk := diskOf p sts
  jobj [
    ("id", jid p),
    ("order", jarr ((loopRefOrderM num ds cs p).map jid)),
    ("latest", jopt jid (resolveProducerM num ds cs p)),
    ("loopoutput", jexc (fun nf => jarr (nf.map jid)) (fun vs => jarr (vs.map jchars)) (loopOutputM num ds cs p disk)),
    ("output", jexc (fun e : Option CId => jarr (e.toList.map jid)) jchars (resolveOutputM num ds cs p disk)),
    ("stageLooprefDir", jexc (fun nf => jarr (nf.map jid)) (fun r => jarr (r.map jid))
        (stageLoopRefM num ds cs p fun x => (disk x).hasDir)),
    ("stageLooprefFile", jexc (fun nf => jarr (nf.map jid)) (fun r => jarr (r.map jid))
        (stageLoopRefM num ds cs p fun x => (disk x).content?.isSome)),
    ("argLoopoutput", match argLoopOutputM num ds cs p disk with
        | .full vs => jobj [("full", jarr (vs.map jchars))]
        | .blank => jstr "blank"
        | .inconsistent => jstr "inconsistent"),
    ("argOutput", jchars (argOutputM num ds cs p disk))]

/-- the `files` operations among the raw operations with the number of operations applied after them -/
def filesOps : List Json → Nat → List (Nat × Json)
  | [], _ => []
  | Json.arr a :: ops, n =>
    match a.toList with
    | Json.str "files" :: spec :: _ => (n + 1, spec) :: filesOps ops (n + 1)
    | _ => filesOps ops (n + 1)
  | _ :: ops, n => filesOps ops (n + 1)

def handle (j : Json) : Except String Json := do
  let op ← getStr j "op"
  match op with
  | "runm" =>
    let num ← getBool j "num"
    let ds ← (← getArr j "docs").mapM parseDoc
    let out ← (← getArr j "out").mapM parseComp
    let ops ← (← getArr j "ops").mapM parseOp
    let sparse := match j.getObjVal? "sparse" with
      | .ok (Json.bool b) => b
      | _ => false
    let all := (runOpsAll ds (initM ds out) ops []).reverse
    -- `sparse`: only the workflow as loaded and the workflow after all operations
    let shown := if sparse then (match all, all.getLast? with
      | w0 :: _ :: _, some wn => [w0, wn]
      | _, _ => all) else all
    let disk ← (filesOps (← getArr j "ops") 0).mapM fun (n, spec) => do
      let w := (all[n]?).getD (initM ds out)
      let phs ← match spec with
        | Json.arr a => a.toList.mapM parseFiles
        | _ => throw "bad files operation"
      return jobj [("at", jnat n), ("placeholders", jarr (phs.map fun q => diskAnswers num ds w.comps q.1 q.2))]
    return jobj [("steps", jarr (shown.map (snapshotM num ds))), ("disk", jarr disk)]
  | "run" =>
    let num ← getBool j "num"
    let k ← getNat j "k"
    let d ← parseDoc (← j.getObjVal? "doc")
    let out ← (← getArr j "out").mapM parseComp
    return jobj [("steps", jarr ((runAll d out k).reverse.map (snapshot num d)))]
  | "lexlt" =>
    return jobj [("lt", jbool (St4sd.Str.lexLt (← getChars j "a") (← getChars j "b")))]
  | "digits" =>
    let n ← getNat j "n"
    return jobj [("s", jchars (St4sd.Str.natToDigits n)), ("back", jopt jnat (St4sd.Str.digitsToNat? (St4sd.Str.natToDigits n)))]
  | _ => throw s!"unknown op {op}"

def main : IO Unit := serve handle
