import Drivers.Proto
import St4sd.Model.Ctrl
import St4sd.Model.CtrlSplit
import St4sd.Model.CtrlLoop
/-! Model driver for properties C01 and C02 (shared model `St4sd.Ctrl`; C01 entry point: the operations may also be
the three parts ["finA",c] | ["finB",c] | ["finC",c] of a finished-notification handler, `St4sd.Ctrl.sstep`; the
snapshots then carry "inflight": [[c, 1 = waits for the lock | 2 = waits for comp_done.add]] when not empty) or
["complete", k]: the stage-completion hook of stage k fired.  A component entry of a snapshot is
[state, in comp_done, staged in, #launches, finishCalled, live repeating engine that has been told that its producers
finished]).

request : {"comps":[{stage,preds,isRepeat,isAgg,isRepl,shutdownOn,restartOn,maxRestarts,script}],
           "order":[..], "lastStage":k, "cont":[stages with continue-on-error],
           "ops":[["sched"]|["exit",c]|["fin",c]|["pm",c]|["kill"]|["tick",c]|["next"]]}
answer  : {"snaps":[state after every op], "stageDone", "quiescent", "canAdvance", "verdict", "reports",
           "log", "spec", "own"} -/
open Lean Proto St4sd.Ctrl

def reasonOf : String → Except String Reason
  | "Success" => pure .success | "KnownIssue" => pure .knownIssue | "SystemIssue" => pure .systemIssue
  | "SubmissionFailed" => pure .submissionFailed | "UnknownIssue" => pure .unknownIssue
  | "Killed" => pure .killed | "Cancelled" => pure .cancelled | "ResourceExhausted" => pure .resourceExhausted
  | s => throw s!"unknown exit reason {s}"

def fin3Name : Fin3 → String
  | .finished => "finished" | .failed => "failed" | .shutdown => "shutdown"

def stateName (cs : CompS) : String :=
  match cstate cs with
  | .final f => fin3Name f
  | .postmortem => "postmortem"
  | .running => "running"

def parseComp (j : Json) : Except String CompDef := do
  let so ← (← getStrList j "shutdownOn").mapM reasonOf
  let ro ← (← getStrList j "restartOn").mapM reasonOf
  let sc ← (← getStrList j "script").mapM reasonOf
  return { stage := ← getNat j "stage", preds := ← getNatList j "preds", isRepeat := ← getBool j "isRepeat",
           isAgg := ← getBool j "isAgg", isRepl := ← getBool j "isRepl", shutdownOn := so, restartOn := ro,
           maxRestarts := ← getNat j "maxRestarts", script := sc }

def parseOp (j : Json) : Except String SOp := do
  let a ← j.getArr?
  let k ← (a[0]!).getStr?
  let arg : Except String Nat := do (← (a[1]? |>.elim (throw "missing operand") pure)).getNat?
  match k with
  | "sched" => pure (.base .sched)
  | "kill" => pure (.base .kill)
  | "exit" => return .base (.exit (← arg))
  | "fin" => return .base (.fin (← arg))
  | "pm" => return .base (.pm (← arg))
  | "tick" => return .base (.tick (← arg))
  | "next" => pure (.base .next)
  | "finA" => return .finPre (← arg)
  | "finB" => return .finCrit (← arg)
  | "finC" => return .finPost (← arg)
  | "complete" => return .complete (← arg)
  | _ => throw s!"unknown op {k}"

def notifJson : Notif → Json
  | .fin c => jarr [jstr "fin", jnat c]
  | .pm c => jarr [jstr "pm", jnat c]

def notifKey : Notif → Nat
  | .fin c => 2 * c
  | .pm c => 2 * c + 1

/-- insertion sort on the key: `fin` sorts before `pm`, then by component (= Python's sorted()) -/
def sortNotifs (l : List Notif) : List Notif :=
  let key (n : Notif) : Nat × Nat := match n with | .fin c => (0, c) | .pm c => (1, c)
  let le (a b : Notif) : Bool := (key a).1 < (key b).1 || ((key a).1 == (key b).1 && (key a).2 ≤ (key b).2)
  l.foldl (fun acc x => (acc.takeWhile (fun y => le y x)) ++ [x] ++ (acc.dropWhile (fun y => le y x))) []

def phaseNo : Phase → Nat
  | .waitLock => 1
  | .waitRecord => 2

/-- insertion sort by (component, phase) (= Python's sorted() on [c, phase] lists) -/
def sortFlights (l : List (Nat × Nat)) : List (Nat × Nat) :=
  let le (a b : Nat × Nat) : Bool := a.1 < b.1 || (a.1 == b.1 && a.2 ≤ b.2)
  l.foldl (fun acc x => (acc.takeWhile (fun y => le y x)) ++ [x] ++ (acc.dropWhile (fun y => le y x))) []

def snap (wf : Wf) (ss : SSt) : Json :=
  let s := ss.base
  jobj ([("comps", jarr ((comps wf).map fun c =>
            let cs := s.comp c
            jarr [jstr (stateName cs), jbool (s.done c), jbool cs.staged, jnat cs.launches, jbool cs.finishCalled,
                  jbool (cs.ran && cs.exit.isNone && (wf.cdef c).isRepeat && notified s c)])),
        ("stop", jbool s.stop),
        ("stage", jnat s.cur),
        ("pending", jarr ((sortNotifs s.pending).map notifJson))] ++
       (if ss.inflight.isEmpty then [] else
         [("inflight", jarr ((sortFlights (ss.inflight.map fun e => (e.1, phaseNo e.2))).map
            fun e => jarr [jnat e.1, jnat e.2]))]))

/-! Second entry point (request with a key "loop"): the consumer of a DoWhile loop, `St4sd.CtrlLoop`.
request : {"loop":{"n":N,"cond":c,"refs":[..]}, "script":[bool], "ops":[[op, ...] per step of the real run]},
          op = ["exit",k,n] | ["crit",k,n,ok(0|1)] | ["post",k,n] | ["sched"]
answer  : {"snaps":[{"cur","launched","ph":[[phase of (k,n) for n < N] for k ≤ cur]} after every group]} -/
def parseLoopOp (j : Json) : Except String St4sd.CtrlLoop.Op := do
  let a ← j.getArr?
  let k ← (a[0]!).getStr?
  let nat (i : Nat) : Except String Nat := do (← (a[i]? |>.elim (throw "missing operand") pure)).getNat?
  match k with
  | "sched" => pure .sched
  | "exit" => return .exit (← nat 1) (← nat 2)
  | "crit" => return .crit (← nat 1) (← nat 2) ((← nat 3) != 0)
  | "post" => return .post (← nat 1) (← nat 2)
  | _ => throw s!"unknown loop op {k}"

def loopSnap (L : St4sd.CtrlLoop.Loop) (s : St4sd.CtrlLoop.LS) : Json :=
  jobj [("cur", jnat s.cur), ("launched", jbool s.launched.isSome),
        ("ph", jarr ((List.range (s.cur + 1)).map fun k => jarr ((List.range L.n).map fun n => jnat (s.ph k n))))]

def handleLoop (j : Json) : Except String Json := do
  let lj ← j.getObjVal? "loop"
  let L : St4sd.CtrlLoop.Loop := { n := ← getNat lj "n", cond := ← getNat lj "cond", refs := ← getNatList lj "refs" }
  let script ← (← getArr j "script").mapM (fun b => b.getBool?)
  let groups ← (← getArr j "ops").mapM (fun g => do (← g.getArr?).toList.mapM parseLoopOp)
  let (_, snapsRev) := groups.foldl (fun (acc : St4sd.CtrlLoop.LS × List Json) g =>
      let s' := g.foldl (St4sd.CtrlLoop.step L) acc.1
      (s', loopSnap L s' :: acc.2)) (St4sd.CtrlLoop.init script, [])
  return jobj [("snaps", jarr snapsRev.reverse)]

def handleStatic (j : Json) : Except String Json := do
  let cds ← (← getArr j "comps").mapM parseComp
  let order ← getNatList j "order"
  let lastStage ← getNat j "lastStage"
  let ops ← (← getArr j "ops").mapM parseOp
  let cont ← getNatList j "cont"
  let wf : Wf := { n := cds.length, cdef := fun i => cds.getD i {}, order := order, lastStage := lastStage,
                   contOnErr := fun k => cont.contains k }
  let (afin, snapsRev) := ops.foldl (fun (acc : (SSt × Reports) × List Json) op =>
      let a' := sstepR wf acc.1 op
      (a', snap wf a'.1 :: acc.2)) ((sinit, []), [])
  let sfin := afin.1.base
  let verdictName (v : Verdict) : String :=
    match v with
    | .ok => "ok" | .jobFailure => "UnexpectedJobFailureError"
    | .noFinishedLeaf => "FinalStageNoFinishedLeafComponents"
  let viewJson (pv : Nat × View) : Json :=
    jarr [jnat pv.1, jopt (fun f => jstr (fin3Name f)) pv.2.state, jbool pv.2.staged]
  return jobj [("snaps", jarr snapsRev.reverse),
               ("stageDone", jbool (stageDone wf sfin)),
               ("quiescent", jbool (quiescent wf sfin)),
               ("quiescentR", jbool (quiescentR wf sfin)),
               ("canAdvance", jbool (canAdvance wf sfin)),
               ("verdict", jstr (verdictName (verdict wf sfin))),
               ("reports", jarr (afin.2.map fun e => jarr [jnat e.1, jstr (verdictName e.2)])),
               ("log", jarr (sfin.log.map fun e => jarr [jnat e.1, jarr (e.2.map viewJson)])),
               ("spec", jarr ((comps wf).map fun c => jstr (fin3Name (spec wf c)))),
               ("own", jarr ((comps wf).map fun c => jstr (fin3Name (own wf c))))]

def handle (j : Json) : Except String Json :=
  match j.getObjVal? "loop" with
  | .ok _ => handleLoop j
  | .error _ => handleStatic j

def main : IO Unit := serve handle
