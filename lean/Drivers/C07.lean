import Drivers.Proto
import St4sd.Model.Instance
import St4sd.Model.InstanceDir
/-!
Model driver for property C07.

Encoding: a template is a list of integers: `c ≥ 0` is the character with code `c`, `-(v+1)` is a reference to
variable `v`.  A dict is a list of `[key, template]`; a layer `{"glob": dict, "stages": [[s, dict], …]}`;
a component `{"stage","name","isDoc","opts","vars","ovr":[{"plat","opts","vars"}]}`;
a description `{"vars": [[plat, layer]], "bps": [[plat, layer]], "comps": [...]}`.
-/
open Lean Proto St4sd.Instance

def decSeg (i : Int) : Seg := if i < 0 then .ref (-(i + 1)).toNat else .ch i.toNat
def encSeg : Seg → Json
  | .ch c => jnat c
  | .ref v => jint (-(Int.ofNat v) - 1)

def decTmpl (j : Json) : Except String Tmpl := do
  let a ← j.getArr?
  let l ← a.toList.mapM (·.getInt?)
  return l.map decSeg
def encTmpl (t : Tmpl) : Json := jarr (t.map encSeg)

def decDict (j : Json) : Except String Dict := do
  let a ← j.getArr?
  a.toList.mapM fun e => do
    let p ← e.getArr?
    if p.size != 2 then throw "dict entry"
    return ((← p[0]!.getNat?), (← decTmpl p[1]!))
def encDict (d : Dict) : Json := jarr (d.map fun e => jarr [jnat e.1, encTmpl e.2])

def decLayer (j : Json) : Except String Layer := do
  let g ← decDict (← j.getObjVal? "glob")
  let st ← (← getArr j "stages").mapM fun e => do
    let p ← e.getArr?
    if p.size != 2 then throw "stage entry"
    return ((← p[0]!.getNat?), (← decDict p[1]!))
  return ⟨g, st⟩
def encLayer (l : Layer) : Json :=
  jobj [("glob", encDict l.glob), ("stages", jarr (l.stages.map fun e => jarr [jnat e.1, encDict e.2]))]

def decLayers (j : Json) (k : String) : Except String (List (Nat × Layer)) := do
  (← getArr j k).mapM fun e => do
    let p ← e.getArr?
    if p.size != 2 then throw "layer entry"
    return ((← p[0]!.getNat?), (← decLayer p[1]!))
def encLayers (ls : List (Nat × Layer)) : Json := jarr (ls.map fun e => jarr [jnat e.1, encLayer e.2])

def decComp (j : Json) : Except String Comp := do
  let ovr ← (← getArr j "ovr").mapM fun o => do
    return (⟨(← getNat o "plat"), (← decDict (← o.getObjVal? "opts")), (← decDict (← o.getObjVal? "vars"))⟩ : Ovr)
  return { stage := (← getNat j "stage"), name := (← getNat j "name"), isDoc := (← getBool j "isDoc"),
           opts := (← decDict (← j.getObjVal? "opts")), vars := (← decDict (← j.getObjVal? "vars")), ovr := ovr }
def encComp (c : Comp) : Json :=
  jobj [("stage", jnat c.stage), ("name", jnat c.name), ("isDoc", jbool c.isDoc), ("opts", encDict c.opts),
        ("vars", encDict c.vars),
        ("ovr", jarr (c.ovr.map fun o => jobj [("plat", jnat o.plat), ("opts", encDict o.opts), ("vars", encDict o.vars)]))]

def decDoc (j : Json) : Except String Doc := do
  return { vars := (← decLayers j "vars"), bps := (← decLayers j "bps"), comps := (← (← getArr j "comps").mapM decComp) }
def encDoc (d : Doc) : Json :=
  jobj [("vars", encLayers d.vars), ("bps", encLayers d.bps), ("comps", jarr (d.comps.map encComp))]

def decPatch (j : Json) : Except String Patch := do
  return { stage := (← getNat j "stage"), name := (← getNat j "name"), isVar := (← getBool j "isVar"),
           key := (← getNat j "key"), value := (← decTmpl (← j.getObjVal? "value")) }

def encResolved (r : Resolved) : Json :=
  jobj [("stage", jnat r.stage), ("name", jnat r.name), ("opts", encDict r.opts), ("vars", encDict r.vars)]

def handle (j : Json) : Except String Json := do
  let op ← getStr j "op"
  match op with
  | "cycle" =>
    -- one experiment: store, reload, store again; configurations before and after
    let N ← getNat j "N"
    let P ← getNat j "P"
    let doc ← decDoc (← j.getObjVal? "doc")
    let patches ← (← getArr j "patches").mapM decPatch
    let E : Exp := { doc := doc, plat := P, patches := patches }
    let E' := reload N E
    return jobj [
      ("resolves", jbool (resolves N doc P)),
      ("stored", encDoc (store N E)),
      ("stored_again", encDoc (store N E')),
      ("before", jarr ((runningConfig N E).map encResolved)),
      ("after", jarr ((runningConfig N E').map encResolved))]
  | "history" =>
    -- store, then one load+store cycle per entry of `reloads` (the platform each load names; 0 = none named)
    let N ← getNat j "N"
    let P ← getNat j "P"
    let doc ← decDoc (← j.getObjVal? "doc")
    let reloads ← (← getArr j "reloads").mapM (·.getNat?)
    let E : Exp := { doc := doc, plat := P, patches := [] }
    let mut cur : Doc := store N E
    let mut plats := storedPlatforms P
    let mut out : Array Json := #[]
    for Q in reloads do
      if !loadable plats Q then
        out := out.push (jobj [("loadable", jbool false)])
        break
      let Ei : Exp := { doc := cur, plat := Q, patches := [] }
      cur := store N Ei
      plats := storedPlatforms Q
      out := out.push (jobj [("loadable", jbool true), ("stored", encDoc cur),
        ("after", jarr ((runningConfig N Ei).map encResolved))])
    return jobj [
      ("resolves", jbool (resolves N doc P)),
      ("resolvesFully", jbool (resolvesFully N doc P)),
      ("stored", encDoc (store N E)),
      ("dropOvr", encDoc (dropOvr (store N E))),
      ("before", jarr ((runningConfig N E).map encResolved)),
      ("cycles", Json.arr out)]
  | "session" =>
    -- the experiment that created the instance, then a history of steps: {"iterate": [comps]} |
    -- {"load": Q, "update": bool} | {"store": true}; after every step: the description on disk and, for loads,
    -- whether the load is accepted and the configuration of the loaded object
    let N ← getNat j "N"
    let P ← getNat j "P"
    let doc ← decDoc (← j.getObjVal? "doc")
    let E : Exp := { doc := doc, plat := P, patches := [] }
    let stepsJ ← getArr j "steps"
    let mut S : Session := Session.create N E
    -- the never-reloaded control: the creating experiment instantiates every iteration itself
    let mut C : Exp := E
    let mut loaded := false
    let mut ok := true
    let mut allResolve := resolves N doc P
    let mut out : Array Json := #[]
    for sj in stepsJ do
      if !ok then break
      match sj.getObjVal? "iterate" with
      | .ok cj =>
        let cs ← (← cj.getArr?).toList.mapM decComp
        let hyp := newCompsOk N C.doc P cs
        let same := cs.all fun c => c.isDoc ||
          sameComp (flatComp N (addIteration S.exp cs).doc S.exp.plat c) (flatComp N (addIteration C cs).doc P c)
        C := addIteration C cs
        S := step N S (.iterate cs)
        allResolve := allResolve && resolves N S.exp.doc S.exp.plat
        out := out.push (jobj [("kind", Json.str "iterate"), ("stored", encDoc S.disk),
          ("byLoaded", jbool loaded), ("newCompsOk", jbool hyp), ("sameAsControl", jbool same),
          ("ids", jarr ((compIds S.exp.doc).map fun (s, n, d) => jarr [jnat s, jnat n, jbool d]))])
      | .error _ =>
        match sj.getObjVal? "load" with
        | .ok qj =>
          let Q ← qj.getNat?
          let upd ← getBool sj "update"
          if !loadable S.plats Q then
            ok := false
            out := out.push (jobj [("kind", Json.str "load"), ("loadable", jbool false)])
          else
            S := step N S (.load Q upd)
            loaded := true
            out := out.push (jobj [("kind", Json.str "load"), ("loadable", jbool true), ("stored", encDoc S.disk),
              ("writable", jbool S.writable),
              ("after", jarr ((runningConfig N S.exp).map encResolved))])
        | .error _ =>
          S := step N S .store
          out := out.push (jobj [("kind", Json.str "store"), ("stored", encDoc S.disk)])
    return jobj [
      ("resolves", jbool (resolves N doc P)),
      ("resolvesFully", jbool (resolvesFully N doc P)),
      ("allResolve", jbool allResolve),
      ("stored", encDoc (store N E)),
      ("dropOvr", encDoc (dropOvr (store N E))),
      ("before", jarr ((runningConfig N E).map encResolved)),
      ("steps", Json.arr out)]
  | "dir" =>
    -- instance directory: manifest deployment, implied folders, reading of references
    let decKind (s : String) : Except String St4sd.InstanceDir.Kind :=
      match s with
      | "dir" => pure .dir | "file" => pure .file | "linkdir" => pure .linkDir
      | "linkfile" => pure .linkFile | "linkbroken" => pure .linkBroken
      | _ => throw s!"kind {s}"
    let encKind (k : St4sd.InstanceDir.Kind) : String :=
      match k with
      | .dir => "dir" | .file => "file" | .linkDir => "linkdir" | .linkFile => "linkfile" | .linkBroken => "linkbroken"
    let decListing (k : String) : Except String St4sd.InstanceDir.Listing := do
      (← getArr j k).mapM fun e => do
        let p ← e.getArr?
        if p.size != 2 then throw "listing entry"
        return ((← p[0]!.getNat?), (← decKind (← p[1]!.getStr?)))
    let manifest ← (← getArr j "manifest").mapM fun e => do
      let m ← getStr e "method"
      return ({ top := (← getNat e "top"), nested := (← getBool e "nested"),
                method := if m == "link" then .link else .copy } : St4sd.InstanceDir.Entry)
    let lCreate ← decListing "listing_create"
    let lReload ← decListing "listing_reload"
    let extra ← (← getArr j "extra").mapM (·.getNat?)
    let refs ← (← getArr j "refs").mapM fun e => do
      let st : Option Nat := match e.getObjVal? "stage" with
        | .ok v => (match v.getNat? with | .ok n => some n | .error _ => none)
        | .error _ => none
      return ({ stage := st, producer := (← getNat e "producer"), hasSlash := (← getBool e "hasSlash") }
        : St4sd.InstanceDir.Ref)
    let fc := St4sd.InstanceDir.foldersAtCreation manifest lCreate extra
    let fr := St4sd.InstanceDir.foldersAtReload lReload extra
    let dep := St4sd.InstanceDir.deploy [] manifest
    return jobj [
      ("deployed", match dep with
        | some l => jarr (l.map fun e => jarr [jnat e.1, Json.str (encKind e.2)])
        | none => Json.null),
      ("implied_create", jarr ((St4sd.InstanceDir.implied lCreate).map jnat)),
      ("implied_reload", jarr ((St4sd.InstanceDir.implied lReload).map jnat)),
      ("folders_create", jarr (fc.map jnat)),
      ("folders_create_own", jarr ((St4sd.InstanceDir.foldersAtCreation manifest lCreate []).map jnat)),
      ("folders_reload", jarr (fr.map jnat)),
      ("direct_create", jarr (refs.map fun r => jbool (St4sd.InstanceDir.isDirect fc r))),
      ("direct_reload", jarr (refs.map fun r => jbool (St4sd.InstanceDir.isDirect fr r)))]
  | _ => throw s!"unknown op {op}"

def main : IO Unit := serve handle
