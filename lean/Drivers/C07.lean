import Drivers.Proto
import St4sd.Model.Instance
/-!
Model driver for property C07.

Encoding: a template is a list of integers: `c ≥ 0` is the character with code `c`, `-(v+1)` is a reference to
variable `v`.  A dict is a list of `[key, template]`; a layer `{"glob": dict, "stages": [[s, dict], …]}`;
a component `{"stage","name","isDoc","opts","vars","ovr":[{"plat","opts","vars"}]}`;
a description `{"vars": [[plat, layer]], "bps": [[plat, layer]], "comps": [...]}`.
-/
open Lean Proto St4sd.Instance

def decSeg (i : Int) : Seg := if i < 0 then .ref (-(i + 1)).toNat else .ch i.toNat
def encSeg : Seg → Json
  | .ch c => jnat c
  | .ref v => jint (-(Int.ofNat v) - 1)

def decTmpl (j : Json) : Except String Tmpl := do
  let a ← j.getArr?
  let l ← a.toList.mapM (·.getInt?)
  return l.map decSeg
def encTmpl (t : Tmpl) : Json := jarr (t.map encSeg)

def decDict (j : Json) : Except String Dict := do
  let a ← j.getArr?
  a.toList.mapM fun e => do
    let p ← e.getArr?
    if p.size != 2 then throw "dict entry"
    return ((← p[0]!.getNat?), (← decTmpl p[1]!))
def encDict (d : Dict) : Json := jarr (d.map fun e => jarr [jnat e.1, encTmpl e.2])

def decLayer (j : Json) : Except String Layer := do
  let g ← decDict (← j.getObjVal? "glob")
  let st ← (← getArr j "stages").mapM fun e => do
    let p ← e.getArr?
    if p.size != 2 then throw "stage entry"
    return ((← p[0]!.getNat?), (← decDict p[1]!))
  return ⟨g, st⟩
def encLayer (l : Layer) : Json :=
  jobj [("glob", encDict l.glob), ("stages", jarr (l.stages.map fun e => jarr [jnat e.1, encDict e.2]))]

def decLayers (j : Json) (k : String) : Except String (List (Nat × Layer)) := do
  (← getArr j k).mapM fun e => do
    let p ← e.getArr?
    if p.size != 2 then throw "layer entry"
    return ((← p[0]!.getNat?), (← decLayer p[1]!))
def encLayers (ls : List (Nat × Layer)) : Json := jarr (ls.map fun e => jarr [jnat e.1, encLayer e.2])

def decComp (j : Json) : Except String Comp := do
  let ovr ← (← getArr j "ovr").mapM fun o => do
    return (⟨(← getNat o "plat"), (← decDict (← o.getObjVal? "opts")), (← decDict (← o.getObjVal? "vars"))⟩ : Ovr)
  return { stage := (← getNat j "stage"), name := (← getNat j "name"), isDoc := (← getBool j "isDoc"),
           opts := (← decDict (← j.getObjVal? "opts")), vars := (← decDict (← j.getObjVal? "vars")), ovr := ovr }
def encComp (c : Comp) : Json :=
  jobj [("stage", jnat c.stage), ("name", jnat c.name), ("isDoc", jbool c.isDoc), ("opts", encDict c.opts),
        ("vars", encDict c.vars),
        ("ovr", jarr (c.ovr.map fun o => jobj [("plat", jnat o.plat), ("opts", encDict o.opts), ("vars", encDict o.vars)]))]

def decDoc (j : Json) : Except String Doc := do
  return { vars := (← decLayers j "vars"), bps := (← decLayers j "bps"), comps := (← (← getArr j "comps").mapM decComp) }
def encDoc (d : Doc) : Json :=
  jobj [("vars", encLayers d.vars), ("bps", encLayers d.bps), ("comps", jarr (d.comps.map encComp))]

def decPatch (j : Json) : Except String Patch := do
  return { stage := (← getNat j "stage"), name := (← getNat j "name"), isVar := (← getBool j "isVar"),
           key := (← getNat j "key"), value := (← decTmpl (← j.getObjVal? "value")) }

def encResolved (r : Resolved) : Json :=
  jobj [("stage", jnat r.stage), ("name", jnat r.name), ("opts", encDict r.opts), ("vars", encDict r.vars)]

def handle (j : Json) : Except String Json := do
  let op ← getStr j "op"
  match op with
  | "cycle" =>
    -- one experiment: store, reload, store again; configurations before and after
    let N ← getNat j "N"
    let P ← getNat j "P"
    let doc ← decDoc (← j.getObjVal? "doc")
    let patches ← (← getArr j "patches").mapM decPatch
    let E : Exp := { doc := doc, plat := P, patches := patches }
    let E' := reload N E
    return jobj [
      ("resolves", jbool (resolves N doc P)),
      ("stored", encDoc (store N E)),
      ("stored_again", encDoc (store N E')),
      ("before", jarr ((runningConfig N E).map encResolved)),
      ("after", jarr ((runningConfig N E').map encResolved))]
  | _ => throw s!"unknown op {op}"

def main : IO Unit := serve handle
