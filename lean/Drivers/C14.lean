import Drivers.Proto
import St4sd.Model.FsAtomic
import St4sd.Model.StatusFile
import St4sd.Model.FsConc
import St4sd.Model.C14Listing
/-! Model driver for property C14.  Every text travels as a JSON array of code points (no
dependence on JSON string escaping of control / non-BMP characters). -/
open Lean Proto St4sd.FsAtomic St4sd.StatusFile

def cps (l : List Nat) : List Char := l.map Char.ofNat
def jcps (s : List Char) : Json := jarr (s.map fun c => jnat c.toNat)

def getCps (j : Json) (k : String) : Except String (List Char) := do
  return cps (← getNatList j k)

def asCps (j : Json) : Except String (List Char) := do
  return cps (← (← j.getArr?).toList.mapM (·.getNat?))

def getPairs (j : Json) (k : String) : Except String Data := do
  (← getArr j k).mapM fun p => do
    match (← p.getArr?).toList with
    | [a, b] => return (← asCps a, ← asCps b)
    | _ => throw "pair expected"

def jpairs (d : Data) : Json := jarr (d.map fun p => jarr [jcps p.1, jcps p.2])

def parseOp (j : Json) : Except String Op := do
  let kind ← getStr j "k"
  match kind with
  | "create" => return .create (← getCps j "p")
  | "append" => return .append (← getCps j "p") (← getCps j "b")
  | "close" => return .close (← getCps j "p")
  | "rename" => return .rename (← getCps j "a") (← getCps j "b")
  | "remove" => return .remove (← getCps j "p")
  | _ => throw s!"unknown fs op {kind}"

def parseEv (j : Json) : Except String St4sd.FsConc.Ev := do
  let kind ← getStr j "k"
  match kind with
  | "create" => return .openW (← getNat j "w") (← getCps j "p")
  | "append" => return .write (← getNat j "w") (← getCps j "b")
  | "close" => return .close (← getNat j "w")
  | "rename" => return .rename (← getCps j "a") (← getCps j "b")
  | "remove" => return .remove (← getCps j "p")
  | _ => throw s!"unknown event {kind}"

def jev : St4sd.FsConc.Ev → Json
  | .openW w p => jobj [("k", jstr "create"), ("w", jnat w), ("p", jcps p)]
  | .write w b => jobj [("k", jstr "append"), ("w", jnat w), ("b", jcps b)]
  | .close w => jobj [("k", jstr "close"), ("w", jnat w)]
  | .rename a b => jobj [("k", jstr "rename"), ("a", jcps a), ("b", jcps b)]
  | .remove p => jobj [("k", jstr "remove"), ("p", jcps p)]


open St4sd.TypedStore in
/-- typed value: {"t":"n"} | {"t":"b","v":bool} | {"t":"i","v":int} | {"t":"f","m":int,"e":nat} | {"t":"x","k":nat}
| {"t":"s","v":[code points]} | {"t":"l","v":[values]} | {"t":"m","v":[k0,v0,k1,v1,…]} -/
partial def parseY (j : Json) : Except String YVal := do
  let toL (l : List Json) : Except String YList := do
    let vs ← l.mapM parseY
    return vs.foldr YList.cons YList.nil
  match (← getStr j "t") with
  | "n" => return .null
  | "b" => return .bool (← getBool j "v")
  | "i" => return .int (← getInt j "v")
  | "f" => return .float (← getInt j "m") (← getNat j "e")
  | "x" => return .fspec (← getNat j "k")
  | "s" => return .str (← getNatList j "v")
  | "l" => return .seq (← toL (← getArr j "v"))
  | "m" => return .map (← toL (← getArr j "v"))
  | t => throw s!"unknown value tag {t}"

open St4sd.TypedStore in
mutual
partial def jY : YVal → Json
  | .null => jobj [("t", jstr "n")]
  | .bool b => jobj [("t", jstr "b"), ("v", jbool b)]
  | .int i => jobj [("t", jstr "i"), ("v", jint i)]
  | .float m e => jobj [("t", jstr "f"), ("m", jint m), ("e", jnat e)]
  | .fspec k => jobj [("t", jstr "x"), ("k", jnat k)]
  | .str s => jobj [("t", jstr "s"), ("v", jarr (s.map jnat))]
  | .seq l => jobj [("t", jstr "l"), ("v", jarr (jYL l))]
  | .map l => jobj [("t", jstr "m"), ("v", jarr (jYL l))]
partial def jYL : YList → List Json
  | .nil => []
  | .cons v t => jY v :: jYL t
end

def initFs (files : List (Path × Content)) : Fs := fun q =>
  match files.find? (fun f => f.1 == q) with
  | some f => some f.2
  | none => none

def handle (j : Json) : Except String Json := do
  let op ← getStr j "op"
  match op with
  | "trace" =>
    let t ← getCps j "target"
    let files ← getPairs j "files"
    let ops ← (← getArr j "ops").mapM parseOp
    let fs := initFs files
    -- one pass: scanStates = crashStates (crashStates_eq_scan), firstUnsafeIn on it = firstUnsafe (firstUnsafe_eq_in)
    let states := scanStates ops fs t
    let fin := states.getLast?.join
    return jobj [("atomic", jbool (isAtomicProtocol ops t)),
                 ("states", jarr (states.map (jopt jcps))),
                 ("old", jopt jcps (fs t)),
                 ("final", jopt jcps fin),
                 ("first_unsafe", jopt jnat (firstUnsafeIn states (fs t) fin))]
  | "ctrace" =>
    -- interleaved trace of several writers (inode-level model)
    let t ← getCps j "target"
    let files ← getPairs j "files"
    let evs ← (← getArr j "evs").mapM parseEv
    let versions ← (← getArr j "versions").mapM asCps
    let s0 := St4sd.FsConc.mkSt files
    return jobj [("safe", jbool (St4sd.FsConc.concSafe t evs)),
                 ("states", jarr ((St4sd.FsConc.crashStates evs s0 t).map (jopt jcps))),
                 ("installed", jarr ((St4sd.FsConc.installedBy t evs).map jcps)),
                 ("first_mixed", jopt jnat (St4sd.FsConc.firstMixed evs s0 t versions))]
  | "sched" =>
    -- the trace that `n` protocol-following updates produce under a schedule
    let t ← getCps j "target"
    let us ← (← getArr j "updates").mapM fun u => do
      let tmp ← getCps u "tmp"
      let chunks ← (← getArr u "chunks").mapM asCps
      return (⟨tmp, chunks⟩ : St4sd.FsConc.Upd)
    let sched ← getNatList j "sched"
    let evs := St4sd.FsConc.interleave t us (fun _ => 0) sched
    return jobj [("evs", jarr (evs.map jev)), ("safe", jbool (St4sd.FsConc.concSafe t evs))]
  | "ystore" =>
    -- history of typed documents written to one YAML / JSON state file: what every reader sees after each update
    -- (the code's unconditional write), and what a writer that skips `==`-equal rewrites would leave
    let init ← match j.getObjVal? "init" with
      | .ok Json.null => pure none
      | .ok v => pure (some (← parseY v))
      | .error _ => pure none
    let docs ← (← getArr j "docs").mapM parseY
    let reads := St4sd.TypedStore.readBacks St4sd.TypedStore.writeAlways init docs
    let skips := St4sd.TypedStore.readBacks (St4sd.TypedStore.writeSkip St4sd.TypedStore.pyEq) init docs
    let sskips := St4sd.TypedStore.readBacks (St4sd.TypedStore.writeSkip St4sd.TypedStore.YVal.beq) init docs
    let same := (reads.zip skips).map fun p => match p.1, p.2 with
      | some a, some b => St4sd.TypedStore.YVal.beq a b
      | none, none => true
      | _, _ => false
    let ssame := (reads.zip sskips).all fun p => match p.1, p.2 with
      | some a, some b => St4sd.TypedStore.YVal.beq a b
      | none, none => true
      | _, _ => false
    return jobj [("reads", jarr (reads.map (jopt jY))), ("pyeq_skip_reads", jarr (skips.map (jopt jY))),
                 ("pyeq_skip_same", jarr (same.map jbool)), ("structural_skip_same", jbool ssame)]
  | "listing" =>
    -- the lines `key=value` of one key-output of output.txt as the dosini reader (inline comment prefixes `inl`) returns them
    let inl ← getCps j "inl"
    let fields ← getPairs j "fields"
    let outs := St4sd.Listing.readEntry inl (St4sd.Listing.writeEntry fields)
    return jobj [("read", jarr (outs.map fun o => jopt (fun (p : Pair) => jarr [jcps p.1, jcps p.2]) o)),
                 ("marked", jarr (fields.map fun p => jbool (St4sd.Listing.hasInlineMark ['#', ';'] p.2)))]
  | "escape" => return jobj [("out", jcps (escape (← getCps j "s")))]
  | "unescape" => return jobj [("out", jopt jcps (unescape (← getCps j "s")))]
  | "encode" => return jobj [("text", jcps (encode (← getPairs j "pairs")))]
  | "decode" => return jobj [("pairs", jopt jpairs (decode (← getCps j "text")))]
  | "history" =>
    let w ← getStr j "writer"
    let init ← getPairs j "init"
    let rounds ← (← getArr j "rounds").mapM fun r => do
      (← r.getArr?).toList.mapM fun p => do
        match (← p.getArr?).toList with
        | [a, b] => return (← asCps a, ← asCps b)
        | _ => throw "pair expected"
    let res := runHistory (if w == "old" then writeOld else writeNew) init rounds
    return jobj [("text", jopt jcps res.1), ("data", jpairs res.2),
                 ("decoded", jopt jpairs (res.1.bind decode))]
  | _ => throw s!"unknown op {op}"

def main : IO Unit := serve handle
