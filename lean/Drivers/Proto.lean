import Lean.Data.Json
/-!
Line protocol shared by every per-property driver executable.

One JSON value per input line, one JSON value per output line.  The driver never
keeps state between lines unless the handler threads it explicitly (`serveSt`).
No Mathlib import anywhere below a driver, so that `lean_exe` links.
-/
open Lean

namespace Proto

def jstr (s : String) : Json := Json.str s
def jnat (n : Nat) : Json := Json.num (JsonNumber.fromNat n)
def jint (n : Int) : Json := Json.num (JsonNumber.fromInt n)
def jbool (b : Bool) : Json := Json.bool b
def jarr (l : List Json) : Json := Json.arr l.toArray
def jobj (l : List (String × Json)) : Json := Json.mkObj l
def jchars (s : List Char) : Json := Json.str (String.ofList s)
def jopt (f : α → Json) : Option α → Json
  | none => Json.null
  | some a => f a

def getStr (j : Json) (k : String) : Except String String := do
  let v ← j.getObjVal? k
  v.getStr?
def getChars (j : Json) (k : String) : Except String (List Char) := do
  return (← getStr j k).toList
def getNat (j : Json) (k : String) : Except String Nat := do
  let v ← j.getObjVal? k
  v.getNat?
def getInt (j : Json) (k : String) : Except String Int := do
  let v ← j.getObjVal? k
  v.getInt?
def getBool (j : Json) (k : String) : Except String Bool := do
  let v ← j.getObjVal? k
  v.getBool?
def getArr (j : Json) (k : String) : Except String (List Json) := do
  let v ← j.getObjVal? k
  return (← v.getArr?).toList
def getStrList (j : Json) (k : String) : Except String (List String) := do
  (← getArr j k).mapM (·.getStr?)
def getCharsList (j : Json) (k : String) : Except String (List (List Char)) := do
  return (← getStrList j k).map String.toList
def getNatList (j : Json) (k : String) : Except String (List Nat) := do
  (← getArr j k).mapM (·.getNat?)
def getIntList (j : Json) (k : String) : Except String (List Int) := do
  (← getArr j k).mapM (·.getInt?)
def getOptStr (j : Json) (k : String) : Except String (Option String) :=
  match j.getObjVal? k with
  | .ok Json.null => pure none
  | .ok v => do return some (← v.getStr?)
  | .error _ => pure none

/-- Stateless server: `handle` maps a request to an answer, errors become
`{"driver_error": msg}` (the harness treats that as an infrastructure failure,
never as a model answer). -/
partial def serve (handle : Json → Except String Json) : IO Unit := do
  let stdin ← IO.getStdin
  let stdout ← IO.getStdout
  let rec loop : IO Unit := do
    let line ← stdin.getLine
    if line.isEmpty then return ()
    let l := line.trimAscii.toString
    if l.isEmpty then loop else
    let out := match Json.parse l >>= handle with
      | .ok j => j
      | .error e => jobj [("driver_error", jstr e)]
    stdout.putStrLn out.compress
    loop
  loop
  stdout.flush

/-- Stateful server (state threaded through the lines of one session). -/
partial def serveSt {σ : Type} (init : σ) (handle : σ → Json → Except String (σ × Json)) : IO Unit := do
  let stdin ← IO.getStdin
  let stdout ← IO.getStdout
  let rec loop (s : σ) : IO Unit := do
    let line ← stdin.getLine
    if line.isEmpty then return ()
    let l := line.trimAscii.toString
    if l.isEmpty then loop s else
    match Json.parse l >>= handle s with
    | .ok (s', j) => stdout.putStrLn j.compress; loop s'
    | .error e => stdout.putStrLn (jobj [("driver_error", jstr e)]).compress; loop s
  loop init
  stdout.flush

end Proto
