import Drivers.Proto
import St4sd.Model.Ref
import St4sd.Gen.C09
/-! Model driver for property C09 (data references). -/
open Lean Proto St4sd.Ref St4sd.Str

def sfC : List S := St4sd.Gen.C09.specialFoldersC
def methodsC : List S := St4sd.Gen.C09.dataReferenceMethodsC

def getOptNat (j : Json) (k : String) : Except String (Option Nat) :=
  match j.getObjVal? k with
  | .ok Json.null => pure none
  | .ok v => do return some (← v.getNat?)
  | .error _ => pure none

def getOptCharsList (j : Json) (k : String) : Except String (Option (List S)) :=
  match j.getObjVal? k with
  | .ok Json.null => pure none
  | .ok v => do return some ((← (← v.getArr?).toList.mapM (·.getStr?)).map String.toList)
  | .error _ => pure none

def getOptChars (j : Json) (k : String) : Except String (Option S) := do
  return (← getOptStr j k).map String.toList

def getKnown (j : Json) (k : String) : Except String (Option (List (Nat × List S))) :=
  match j.getObjVal? k with
  | .ok Json.null => pure none
  | .ok v => do
    let es ← v.getArr?
    let l ← es.toList.mapM fun e => do
      let s ← getNat e "s"
      let n ← getCharsList e "n"
      pure (s, n)
    return some l
  | .error _ => pure none

def jerr : Json := jobj [("err", jbool true)]
def jonat (o : Option Nat) : Json := jopt jnat o
def jochars (o : Option S) : Json := jopt jchars o

def handle (j : Json) : Except String Json := do
  let op ← getStr j "op"
  match op with
  | "pdr" =>
    let v ← getChars j "v"
    match parseDataReference sfC v with
    | none => return jerr
    | some (r, f, m) => return jarr [jchars r, jochars f, jchars m]
  | "ppr" =>
    let r ← getChars j "r"
    let i ← getOptNat j "i"
    let p := parseProducerReference r i
    return jarr [jonat p.1, jchars p.2.1, jbool p.2.2]
  | "full" =>
    let v ← getChars j "v"
    let i ← getOptNat j "i"
    let deps ← getCharsList j "deps"
    let extra ← getCharsList j "extra"
    match parseFull sfC v i deps extra with
    | none => return jerr
    | some (si, job, f, m) => return jarr [jonat si, jchars job, jochars f, jchars m]
  | "isc" =>
    let v ← getChars j "v"
    let tlf ← getCharsList j "tlf"
    match isDataRefToComponent sfC v tlf with
    | none => return jerr
    | some b => return jbool b
  | "compile" =>
    let p ← getChars j "p"
    let f ← getOptChars j "f"
    let m ← getChars j "m"
    let s ← getOptNat j "s"
    let r ← getOptNat j "r"
    return jchars (compileReference p f m s r)
  | "expand" =>
    let v ← getChars j "v"
    let ctx ← getNat j "ctx"
    let known ← getKnown j "known"
    let tlf ← getOptCharsList j "tlf"
    let force ← getBool j "force"
    match expandPotential sfC v ctx known tlf force with
    | none => return jerr
    | some r => return jchars r
  | "expand1" =>
    let v ← getChars j "v"
    let ctx ← getNat j "ctx"
    let known ← getKnown j "known"
    let deps ← getCharsList j "deps"
    let tlf ← getCharsList j "tlf"
    match expandOne sfC v ctx known deps tlf with
    | none => return jerr
    | some r => return jchars r
  | "dref" =>
    let v ← getChars j "v"
    let i ← getOptNat j "i"
    match dataRef sfC methodsC v i with
    | none => return jerr
    | some d => return jobj [("stage", jonat d.stage), ("name", jchars d.name), ("has", jbool d.hasIndex),
        ("file", jochars d.file), ("method", jchars d.method), ("id", jchars d.identifier),
        ("abs", jchars d.absolute), ("rel", jchars d.relative), ("uid", jchars (uidEscape d.identifier))]
  | "tlf" =>
    let keys ← getCharsList j "keys"
    return jarr ((topLevelFolders keys).map jchars)
  | "tlfold" =>
    let keys ← getCharsList j "keys"
    return jarr ((topLevelFoldersOld keys).map jchars)
  | "appdep" =>
    let v ← getChars j "v"
    return jchars (appDepName v)
  | "isvar" =>
    let v ← getChars j "v"
    return jbool (isVarRef v)
  | "validate" =>
    let v ← getChars j "v"
    let stage ← getNat j "stage"
    let known ← getKnown j "known"
    let tlf ← getCharsList j "tlf"
    match validateMissing sfC v stage (known.getD []) tlf with
    | none => return jerr
    | some none => return Json.null
    | some (some (i, job)) => return jchars (stagePrefix i ++ job)
  | _ => throw s!"unknown op {op}"

def main : IO Unit := serve handle
