import Drivers.Proto
import St4sd.Model.Ref
import St4sd.Model.RefSession
import St4sd.Model.RefDir
import St4sd.Gen.C09
/-! Model driver for property C09 (data references).

Session based: the lines of one batch are the calls of one interpreter session.  The state threaded
through the lines is the class-level tables (`FlowIR.SpecialFolders`, `FlowIR.data_reference_methods`,
`graph.DataReference.methods`, initialised from the constants regenerated from /repo) plus the number
of calls made; every call is answered by `St4sd.Ref.step`, and `{"op":"tables"}` reports the tables
the *next* call would see (the harness compares them with the live class attributes). -/
open Lean Proto St4sd.Ref St4sd.Str

def sfC : List S := St4sd.Gen.C09.specialFoldersC
def methodsC : List S := St4sd.Gen.C09.dataReferenceMethodsC

def getOptNat (j : Json) (k : String) : Except String (Option Nat) :=
  match j.getObjVal? k with
  | .ok Json.null => pure none
  | .ok v => do return some (← v.getNat?)
  | .error _ => pure none

def getOptCharsList (j : Json) (k : String) : Except String (Option (List S)) :=
  match j.getObjVal? k with
  | .ok Json.null => pure none
  | .ok v => do return some ((← (← v.getArr?).toList.mapM (·.getStr?)).map String.toList)
  | .error _ => pure none

def getOptChars (j : Json) (k : String) : Except String (Option S) := do
  return (← getOptStr j k).map String.toList

def getKnown (j : Json) (k : String) : Except String (Option (List (Nat × List S))) :=
  match j.getObjVal? k with
  | .ok Json.null => pure none
  | .ok v => do
    let es ← v.getArr?
    let l ← es.toList.mapM fun e => do
      let s ← getNat e "s"
      let n ← getCharsList e "n"
      pure (s, n)
    return some l
  | .error _ => pure none

def jerr : Json := jobj [("err", jbool true)]
def jonat (o : Option Nat) : Json := jopt jnat o
def jochars (o : Option S) : Json := jopt jchars o

def getKnownL (j : Json) (k : String) : Except String Known := do
  return (← getKnown j k).getD []

/-- request → call -/
def parseCall (j : Json) : Except String Call := do
  let op ← getStr j "op"
  match op with
  | "pdr" => return .pdr (← getChars j "v")
  | "ppr" => return .ppr (← getChars j "r") (← getOptNat j "i")
  | "full" => return .full (← getChars j "v") (← getOptNat j "i") (← getOptCharsList j "deps") (← getOptCharsList j "extra")
  | "isc" => return .isc (← getChars j "v") (← getOptCharsList j "tlf")
  | "compile" =>
    return .compile (← getChars j "p") (← getOptChars j "f") (← getChars j "m") (← getOptNat j "s") (← getOptNat j "r")
  | "expand" =>
    return .expand (← getChars j "v") (← getNat j "ctx") (← getKnown j "known") (← getOptCharsList j "tlf") (← getBool j "force")
  | "expand1" =>
    return .expandAll [← getChars j "v"] (← getNat j "ctx") (← getKnown j "known") (← getOptCharsList j "deps")
      (← getOptCharsList j "tlf")
  | "expandall" =>
    return .expandAll (← getCharsList j "refs") (← getNat j "ctx") (← getKnown j "known") (← getOptCharsList j "deps")
      (← getOptCharsList j "tlf")
  | "dref" => return .dref (← getChars j "v") (← getOptNat j "i")
  | "dri" => return .dri (← getChars j "v") (← getNat j "stage") (← getOptCharsList j "deps")
  | "vrefs" => return .vrefs (← getChars j "v") (← getKnownL j "known") (← getOptNat j "implied") (← getOptCharsList j "tlf")
  | "validate" => return .validate (← getChars j "v") (← getNat j "stage") (← getKnownL j "known") (← getCharsList j "tlf")
  | "tlf" => return .tlf (← getCharsList j "keys")
  | "tlfold" => return .tlfOld (← getCharsList j "keys")
  | "appdep" => return .appdep (← getChars j "v")
  | "isvar" => return .isvar (← getChars j "v")
  | _ => throw s!"unknown op {op}"

/-- answer → JSON; `first` = the request was `expand1` (the harness looks at element 0) -/
def answerJson (first : Bool) : Answer → Json
  | .err => jerr
  | .pdr r f m => jarr [jchars r, jochars f, jchars m]
  | .ppr si job has => jarr [jonat si, jchars job, jbool has]
  | .full si job f m => jarr [jonat si, jchars job, jochars f, jchars m]
  | .bool b => jbool b
  | .str s => jchars s
  | .strs l => if first then (match l with | x :: _ => jchars x | [] => Json.null) else jarr (l.map jchars)
  | .dref d => jobj [("stage", jonat d.stage), ("name", jchars d.name), ("has", jbool d.hasIndex),
      ("file", jochars d.file), ("method", jchars d.method), ("id", jchars d.identifier),
      ("abs", jchars d.absolute), ("rel", jchars d.relative), ("uid", jchars (uidEscape d.identifier))]
  | .dri pid m => jobj [("pid", jochars pid), ("method", jchars m)]
  | .missing o => jochars o

def parseKind (k : String) : Except String Kind :=
  match k with
  | "dir" => pure .dir
  | "file" => pure .file
  | "linkdir" => pure .linkDir
  | "linkfile" => pure .linkFile
  | "broken" => pure .broken
  | "other" => pure .other
  | _ => throw s!"unknown kind {k}"

/-- `"listing"`: null (the path is not a directory) or `[[name, kind], ...]` in `os.listdir` order -/
def getListing (j : Json) : Except String (Option (List Entry)) :=
  match j.getObjVal? "listing" with
  | .ok Json.null => pure none
  | .ok v => do
    let es ← v.getArr?
    let l ← es.toList.mapM fun e => do
      let a ← e.getArr?
      match a.toList with
      | [n, k] => do return ({ name := (← n.getStr?).toList, kind := (← parseKind (← k.getStr?)) } : Entry)
      | _ => throw "listing entry must be [name, kind]"
    return some l
  | .error _ => pure none

/-- the directory ops are pure functions of the request (no class-level table is read):
`fromdir` = keys of `Manifest.fromDirectory`, `pkgtlf` = `top_level_folders` of the package loaded with the
explicit manifest keys, `instlist` = names and directory flags of the instance listing, `deploy` = the
entry a manifest key creates -/
def dirOp (op : String) (j : Json) : Except String (Option Json) := do
  match op with
  | "fromdir" =>
    let l ← getListing j
    return some (jarr ((impliedKeys l (← getBool j "dirs") (← getBool j "files")).map jchars))
  | "pkgtlf" =>
    let l ← getListing j
    return some (jarr ((packageFolders l (← getCharsList j "explicit")).map jchars))
  | "insttlf" =>
    let l ← getListing j
    return some (jarr ((packageFolders ((l.map instanceListing)) []).map jchars))
  | "deploy" =>
    let e := deployEntry (← getChars j "key") (if (← getStr j "method") == "link" then .link else .copy)
    return some (jarr [jchars e.name, jbool e.kind.isDir])
  | _ => return none

structure Sess where
  tables : Tables
  calls : Nat

def initSess : Sess := { tables := { special := sfC, methods := methodsC, drMethods := methodsC }, calls := 0 }

def tablesJson (s : Sess) : Json :=
  jobj [("special", jarr (s.tables.special.map jchars)), ("methods", jarr (s.tables.methods.map jchars)),
    ("dr_methods", jarr (s.tables.drMethods.map jchars)), ("calls", jnat s.calls)]

def handle (s : Sess) (j : Json) : Except String (Sess × Json) := do
  let op ← getStr j "op"
  if op == "tables" then return (s, tablesJson s)
  if let some a ← dirOp op j then return ({ s with calls := s.calls + 1 }, a)
  let c ← parseCall j
  let r := step s.tables c
  return ({ tables := r.1, calls := s.calls + 1 }, answerJson (op == "expand1") r.2)

def main : IO Unit := serveSt initSess handle
