import Drivers.Proto
import St4sd.Model.Hash
import St4sd.Model.HashFs
import St4sd.Model.HashCache
import St4sd.Model.HashExe
/-!
Model driver for property C16.

`md5` is supplied by the harness as a finite table (pre-image ↦ digest computed with hashlib); a pre-image
that is not in the table hashes to `"?" ++ preimage` (the harness iterates: it adds the digests of the
serialisations the model returns until every one of them is in the table).

ops:
* `world`: `{md5:[[pre,dig]…], bps:[[stage,name,exe]…], comps:[…], old:bool}` →
  `{strong:[{ser,hash}|null…], fuzzy:[…]}` through the DAG recursion `Hash.hashesD`/`Hash.sersD` (`Hash.hashes` on
  the distinct references of every component: `info_files` is keyed by the absolute reference);
* `history`: `{md5, bps, comps:[… refs with loc:{kind:direct|produced, p, path}], fs:[[path, node]…],
  ops:[{op:write|touch|remove|rename|reload,…}], paths:[…]}` → `{obs:[{strong, fuzzy, views}…]}`: one observation
  before the first and after every operation (`Hash.states` / `Hash.hashesFs`), `views` = `Hash.view` of `paths`;
* `session`: `{md5, bps, comps, fs, events:[{op:write|touch|remove|rename|reload,…} | {op:compute, fuzzy, j} |
  {op:reset, j} | {op:get, fuzzy, j}]}` → `{events:[{ser|null, hash} | null …], disciplined, wellOrdered}`: the answer of every
  event of the session that starts with empty caches (`Hash.answers`, `Hash.sersS` on `Hash.Session.new`), whether
  the session keeps the discipline of `C16.session_hashes_are_current` (`Hash.disciplinedB`) and whether the
  numbering of the components is topological (`Hash.wellOrderedB`);
* both take an optional `live:[[stage,name,exe]…]` (the live configuration, `Hash.Conf`; the hashes are `Hash.hashesC` /
  `Hash.hashesCFs`: the executable is read from `bps`); `history` understands the operation
  `{op:validate, base, probes:[{which:str|null, real:[[p,rp]…], ok:[…]}…]}` (`Hash.cstep`) and answers the executables
  of the live configuration (`live`) in every observation;
* `ser`: `{image:str|null, args, exe, files:[…]}` → `{ser}` (`Hash.serialize`);
* `tokens`: `{s}` → `{tokens}`; `subword`: `{pat, rep, s}` → `{out}`.
-/
open Lean Proto St4sd.Hash

def getOptChars (j : Json) (k : String) : Except String (Option (List Char)) := do
  return (← getOptStr j k).map String.toList

def parseTarget (j : Json) : Except String Target := do
  let kind ← getStr j "kind"
  match kind with
  | "file" => return .file (← getOptChars j "content")
  | "dir" => return .dir
  | "prodFile" => return .prodFile (← getNat j "p") (← getOptChars j "content")
  | "prodDir" => return .prodDir (← getNat j "p")
  | _ => throw s!"unknown target kind {kind}"

def parseRef (j : Json) : Except String Ref := do
  return { abs := ← getChars j "abs", rel := ← getChars j "rel", method := ← getChars j "method",
           fileRef := ← getChars j "fileRef", target := ← parseTarget j }

def parseBackend (j : Json) : Except String Backend := do
  let kind ← getStr j "kind"
  match kind with
  | "local" => return .loc
  | "kubernetes" => return .kubernetes (← getChars j "image")
  | "lsf" => return .lsf (← getOptChars j "image")
  | "docker" => return .docker (← getChars j "image")
  | _ => return .other

def parseComp (j : Json) : Except String Comp := do
  let replica : Option Nat ← match j.getObjVal? "replica" with
    | .ok Json.null => pure none
    | .ok v => do pure (some (← v.getNat?))
    | .error _ => pure none
  let refs ← (← getArr j "refs").mapM parseRef
  let backend ← parseBackend (← j.getObjVal? "backend")
  return { name := ← getChars j "name", stage := ← getNat j "stage", location := ← getChars j "location",
           mtime := ← getNat j "mtime", replica := replica, exe := ← getChars j "exe",
           args := ← getChars j "args", refs := refs, backend := backend }

def parseBp (j : Json) : Except String ((Nat × List Char) × List Char) := do
  let a ← j.getArr?
  match a.toList with
  | [s, n, e] => return ((← s.getNat?, (← n.getStr?).toList), (← e.getStr?).toList)
  | _ => throw "blueprint entry must be [stage, name, exe]"

def parsePair (j : Json) : Except String (List Char × List Char) := do
  let a ← j.getArr?
  match a.toList with
  | [p, d] => return ((← p.getStr?).toList, (← d.getStr?).toList)
  | _ => throw "md5 entry must be [preimage, digest]"

def tableMd5 (tab : List (List Char × List Char)) (x : List Char) : List Char :=
  match tab.find? (fun e => e.1 == x) with
  | some e => e.2
  | none => '?' :: x

def outOne (ser hash : Option (List Char)) : Json :=
  match ser, hash with
  | some s, some h => jobj [("ser", jchars s), ("hash", jchars h)]
  | _, _ => Json.null

def parseLoc (j : Json) : Except String Loc := do
  let kind ← getStr j "kind"
  match kind with
  | "direct" => return .direct (← getChars j "path")
  | "produced" => return .produced (← getNat j "p") (← getChars j "path")
  | _ => throw s!"unknown loc kind {kind}"

def parseSRef (j : Json) : Except String SRef := do
  return { abs := ← getChars j "abs", rel := ← getChars j "rel", method := ← getChars j "method",
           fileRef := ← getChars j "fileRef", loc := ← parseLoc (← j.getObjVal? "loc") }

def parseSComp (j : Json) : Except String SComp := do
  let replica : Option Nat ← match j.getObjVal? "replica" with
    | .ok Json.null => pure none
    | .ok v => do pure (some (← v.getNat?))
    | .error _ => pure none
  let refs ← (← getArr j "refs").mapM parseSRef
  let backend ← parseBackend (← j.getObjVal? "backend")
  return { name := ← getChars j "name", stage := ← getNat j "stage", location := ← getChars j "location",
           mtime := ← getNat j "mtime", replica := replica, exe := ← getChars j "exe",
           args := ← getChars j "args", refs := refs, backend := backend }

def parseNode (j : Json) : Except String Node := do
  let kind ← getStr j "kind"
  match kind with
  | "file" => return .file (← getChars j "content") (← getNat j "mtime") (← getNat j "ino")
  | "dir" => return .dir
  | _ => throw s!"unknown node kind {kind}"

def parseFsEntry (j : Json) : Except String (List Char × Node) := do
  let a ← j.getArr?
  match a.toList with
  | [p, n] => return ((← p.getStr?).toList, ← parseNode n)
  | _ => throw "fs entry must be [path, node]"

def parseOp (j : Json) : Except String Op := do
  let op ← getStr j "op"
  match op with
  | "write" => return .write (← getChars j "path") (← getChars j "content") (← getNat j "mtime") (← getNat j "ino")
  | "touch" => return .touch (← getChars j "path") (← getNat j "mtime")
  | "remove" => return .remove (← getChars j "path")
  | "rename" => return .rename (← getChars j "a") (← getChars j "b")
  | "reload" => return .reload
  | _ => throw s!"unknown fs op {op}"

def parseStrPair (j : Json) : Except String (List Char × List Char) := do
  let a ← j.getArr?
  match a.toList with
  | [p, d] => return ((← p.getStr?).toList, (← d.getStr?).toList)
  | _ => throw "pair expected"

def parseProbe (j : Json) : Except String Probe := do
  return { which := ← getOptChars j "which", real := ← (← getArr j "real").mapM parseStrPair,
           ok := ← getCharsList j "ok" }

def parseCOp (j : Json) : Except String COp := do
  let op ← getStr j "op"
  match op with
  | "validate" => return .validate (← getChars j "base") (← (← getArr j "probes").mapM parseProbe)
  | _ => return .fs (← parseOp j)

def parseLive (j : Json) : Except String Live :=
  match j.getObjVal? "live" with
  | .ok (Json.arr a) => a.toList.mapM parseBp
  | _ => pure []

def jview : Option (Option (List Char)) → Json
  | none => Json.null
  | some none => jstr "dir"
  | some (some c) => jobj [("content", jchars c)]

def parseSOp (j : Json) : Except String SOp := do
  let op ← getStr j "op"
  match op with
  | "compute" => return .compute (← getBool j "fuzzy") (← getNat j "j")
  | "get" => return .get (← getBool j "fuzzy") (← getNat j "j")
  | "reset" => return .reset (← getNat j "j")
  | _ => return .fs (← parseOp j)

def handle (j : Json) : Except String Json := do
  let op ← getStr j "op"
  match op with
  | "history" =>
    let tab ← (← getArr j "md5").mapM parsePair
    let bps ← (← getArr j "bps").mapM parseBp
    let comps ← (← getArr j "comps").mapM parseSComp
    let fs ← (← getArr j "fs").mapM parseFsEntry
    let ops ← (← getArr j "ops").mapM parseCOp
    let live ← parseLive j
    let paths ← getCharsList j "paths"
    let md5 := tableMd5 tab
    let side (s : CState) (fuzzy : Bool) : Json :=
      jarr (((sersCFs md5 fuzzy bps s comps).zip (hashesCFs md5 fuzzy bps s comps)).map fun (x, h) => outOne x h)
    return jobj [("obs", jarr ((cstates ⟨fs, live, live⟩ ops).map fun s =>
      jobj [("strong", side s false), ("fuzzy", side s true),
            ("views", jarr (paths.map fun p => jview (view s.fs p))),
            ("live", jarr (s.live.map fun e => jchars e.2))]))]
  | "session" =>
    let tab ← (← getArr j "md5").mapM parsePair
    let bps ← (← getArr j "bps").mapM parseBp
    let comps ← (← getArr j "comps").mapM parseSComp
    let fs ← (← getArr j "fs").mapM parseFsEntry
    let evs ← (← getArr j "events").mapM parseSOp
    let md5 := tableMd5 tab
    let s0 := Session.new fs comps.length
    let out := ((sersS md5 bps comps s0 evs).zip (answers md5 bps comps s0 evs)).map fun (x, h) =>
      match h with
      | some h => jobj [("ser", match x with | some x => jchars x | none => Json.null), ("hash", jchars h)]
      | none => Json.null
    return jobj [("events", jarr out), ("disciplined", Json.bool (disciplinedB md5 bps comps s0 evs)),
                 ("wellOrdered", Json.bool (wellOrderedB comps))]
  | "world" =>
    let tab ← (← getArr j "md5").mapM parsePair
    let bps ← (← getArr j "bps").mapM parseBp
    let comps ← (← getArr j "comps").mapM parseComp
    let old := (getBool j "old").toOption.getD false
    let conf : Conf := ⟨bps, ← parseLive j⟩
    let md5 := tableMd5 tab
    let side (fuzzy : Bool) : Json :=
      if old then
        jarr ((hashesOld md5 fuzzy bps comps).map fun h => match h with
          | some h => jobj [("hash", jchars h)]
          | none => Json.null)
      else
        jarr (((sersC md5 fuzzy conf comps).zip (hashesC md5 fuzzy conf comps)).map fun (s, h) => outOne s h)
    return jobj [("strong", side false), ("fuzzy", side true)]
  | "ser" =>
    let image ← getOptChars j "image"
    let files ← getCharsList j "files"
    return jobj [("ser", jchars (serialize ⟨image, ← getChars j "args", ← getChars j "exe", files⟩))]
  | "tokens" =>
    return jobj [("tokens", jarr ((tokens (← getChars j "s")).map jchars))]
  | "subword" =>
    return jobj [("out", jchars (subWord (← getChars j "pat") (← getChars j "rep") (← getChars j "s")))]
  | _ => throw s!"unknown op {op}"

def main : IO Unit := serve handle
