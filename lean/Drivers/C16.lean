import Drivers.Proto
import St4sd.Model.Hash
/-!
Model driver for property C16.

`md5` is supplied by the harness as a finite table (pre-image ↦ digest computed with hashlib); a pre-image
that is not in the table hashes to `"?" ++ preimage` (the harness iterates: it adds the digests of the
serialisations the model returns until every one of them is in the table).

ops:
* `world`: `{md5:[[pre,dig]…], bps:[[stage,name,exe]…], comps:[…], old:bool}` →
  `{strong:[{ser,hash}|null…], fuzzy:[…]}` through the DAG recursion `Hash.hashes`/`Hash.sers`;
* `ser`: `{image:str|null, args, exe, files:[…]}` → `{ser}` (`Hash.serialize`);
* `tokens`: `{s}` → `{tokens}`; `subword`: `{pat, rep, s}` → `{out}`.
-/
open Lean Proto St4sd.Hash

def getOptChars (j : Json) (k : String) : Except String (Option (List Char)) := do
  return (← getOptStr j k).map String.toList

def parseTarget (j : Json) : Except String Target := do
  let kind ← getStr j "kind"
  match kind with
  | "file" => return .file (← getOptChars j "content")
  | "dir" => return .dir
  | "prodFile" => return .prodFile (← getNat j "p") (← getOptChars j "content")
  | "prodDir" => return .prodDir (← getNat j "p")
  | _ => throw s!"unknown target kind {kind}"

def parseRef (j : Json) : Except String Ref := do
  return { abs := ← getChars j "abs", rel := ← getChars j "rel", method := ← getChars j "method",
           fileRef := ← getChars j "fileRef", target := ← parseTarget j }

def parseBackend (j : Json) : Except String Backend := do
  let kind ← getStr j "kind"
  match kind with
  | "local" => return .loc
  | "kubernetes" => return .kubernetes (← getChars j "image")
  | "lsf" => return .lsf (← getOptChars j "image")
  | "docker" => return .docker (← getChars j "image")
  | _ => return .other

def parseComp (j : Json) : Except String Comp := do
  let replica : Option Nat ← match j.getObjVal? "replica" with
    | .ok Json.null => pure none
    | .ok v => do pure (some (← v.getNat?))
    | .error _ => pure none
  let refs ← (← getArr j "refs").mapM parseRef
  let backend ← parseBackend (← j.getObjVal? "backend")
  return { name := ← getChars j "name", stage := ← getNat j "stage", location := ← getChars j "location",
           mtime := ← getNat j "mtime", replica := replica, exe := ← getChars j "exe",
           args := ← getChars j "args", refs := refs, backend := backend }

def parseBp (j : Json) : Except String ((Nat × List Char) × List Char) := do
  let a ← j.getArr?
  match a.toList with
  | [s, n, e] => return ((← s.getNat?, (← n.getStr?).toList), (← e.getStr?).toList)
  | _ => throw "blueprint entry must be [stage, name, exe]"

def parsePair (j : Json) : Except String (List Char × List Char) := do
  let a ← j.getArr?
  match a.toList with
  | [p, d] => return ((← p.getStr?).toList, (← d.getStr?).toList)
  | _ => throw "md5 entry must be [preimage, digest]"

def tableMd5 (tab : List (List Char × List Char)) (x : List Char) : List Char :=
  match tab.find? (fun e => e.1 == x) with
  | some e => e.2
  | none => '?' :: x

def outOne (ser hash : Option (List Char)) : Json :=
  match ser, hash with
  | some s, some h => jobj [("ser", jchars s), ("hash", jchars h)]
  | _, _ => Json.null

def handle (j : Json) : Except String Json := do
  let op ← getStr j "op"
  match op with
  | "world" =>
    let tab ← (← getArr j "md5").mapM parsePair
    let bps ← (← getArr j "bps").mapM parseBp
    let comps ← (← getArr j "comps").mapM parseComp
    let old := (getBool j "old").toOption.getD false
    let md5 := tableMd5 tab
    let side (fuzzy : Bool) : Json :=
      if old then
        jarr ((hashesOld md5 fuzzy bps comps).map fun h => match h with
          | some h => jobj [("hash", jchars h)]
          | none => Json.null)
      else
        jarr (((sers md5 fuzzy bps comps).zip (hashes md5 fuzzy bps comps)).map fun (s, h) => outOne s h)
    return jobj [("strong", side false), ("fuzzy", side true)]
  | "ser" =>
    let image ← getOptChars j "image"
    let files ← getCharsList j "files"
    return jobj [("ser", jchars (serialize ⟨image, ← getChars j "args", ← getChars j "exe", files⟩))]
  | "tokens" =>
    return jobj [("tokens", jarr ((tokens (← getChars j "s")).map jchars))]
  | "subword" =>
    return jobj [("out", jchars (subWord (← getChars j "pat") (← getChars j "rep") (← getChars j "s")))]
  | _ => throw s!"unknown op {op}"

def main : IO Unit := serve handle
