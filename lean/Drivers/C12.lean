import Drivers.Proto
import St4sd.Model.Restart
/-! Model driver for property C12.

Request: `{"op":"exec","old":bool,"fin":bool,"cfg":{maxRestarts:int|null,hookFileNamed,hookOn:[names],simulator,
repeating,hookModule:"fallback"|"scripted"|"broken"},"inps":[{reason,hook,control,runFails,stable,
launch:"task"|"submitError"|"otherError"|"none"}]}`
Answer: `{"events":[{code,restarts,resub,runs,shutdown}], "asked":[bool]}` (one per input, chronological;
`asked` = the hook module's `Restart` is called at that step). -/
open Lean Proto St4sd.Restart

def parseReason (s : String) : Except String Reason :=
  match Reason.all.find? (fun r => r.name == s) with
  | some r => pure r
  | none => throw s!"unknown exit reason {s}"

def parseCtx (s : String) : Except String RCtx :=
  match RCtx.all.find? (fun r => r.name == s) with
  | some r => pure r
  | none => throw s!"unknown restart context {s}"

def parseHook (s : String) : Except String HookAns :=
  match s with
  | "yes" => pure .yes
  | "no" => pure .no
  | "raises" => pure .raises
  | "ioError" => pure .ioError
  | "junk" => pure .junk
  | _ => if s.startsWith "ctx:" then do return .ctx (← parseCtx (s.drop 4).toString) else throw s!"unknown hook answer {s}"

def parseModule (s : String) : Except String HookModule :=
  match s with
  | "fallback" => pure .fallback
  | "scripted" => pure .scripted
  | "broken" => pure .broken
  | _ => throw s!"unknown hook module kind {s}"

def parseLaunch (s : String) : Except String Launch :=
  match s with
  | "task" => pure .task
  | "submitError" => pure .submitError
  | "otherError" => pure .otherError
  | "none" => pure .none
  | _ => throw s!"unknown launch kind {s}"

def parseCfg (j : Json) : Except String Cfg := do
  let mr ← match j.getObjVal? "maxRestarts" with
    | .ok Json.null => pure none
    | .ok v => do pure (some (← v.getInt?))
    | .error _ => pure none
  let on ← (← getStrList j "hookOn").mapM parseReason
  return { maxRestarts := mr, hookFileNamed := ← getBool j "hookFileNamed", hookOn := on,
           simulator := ← getBool j "simulator", repeating := ← getBool j "repeating",
           hookModule := ← parseModule (← getStr j "hookModule") }

def parseInp (j : Json) : Except String Inp := do
  let reason ← parseReason (← getStr j "reason")
  let hook ← parseHook (← getStr j "hook")
  let control ← getBool j "control"
  let runFails ← getBool j "runFails"
  let stable ← getBool j "stable"
  let launch ← parseLaunch (← getStr j "launch")
  let i : Inp := ⟨reason, hook, control, runFails, stable, launch⟩
  if !i.wf then throw "launch kind and exit reason are inconsistent"
  return i

def evJson (e : Ev) : Json :=
  jobj [("code", jstr e.code.name), ("restarts", jnat e.st.restarts), ("resub", jnat e.st.resub),
        ("runs", jnat e.st.runs), ("shutdown", jbool e.st.shutdown)]

/-- for every input: is the scripted hook asked at that step (state before the step = state of the previous event) -/
def askedLog (fin : Bool) (old : Bool) (cfg : Cfg) : St → List Inp → List Bool
  | _, [] => []
  | s, i :: is =>
    let s' := if old then (stepOld fin cfg s i).1 else (step fin cfg s i).1
    stepAsksHook cfg s i :: askedLog fin old cfg s' is

def handle (j : Json) : Except String Json := do
  let op ← getStr j "op"
  match op with
  | "exec" =>
    let old ← getBool j "old"
    let fin ← getBool j "fin"
    let cfg ← parseCfg (← j.getObjVal? "cfg")
    let inps ← (← getArr j "inps").mapM parseInp
    let evs := if old then execOld fin cfg St.init inps else exec fin cfg St.init inps
    return jobj [("events", jarr (evs.map evJson)), ("asked", jarr ((askedLog fin old cfg St.init inps).map jbool)),
                 ("effMax", jint (effMax cfg)),
                 ("schemaValid", jbool (schemaValid cfg))]
  | _ => throw s!"unknown op {op}"

def main : IO Unit := serve handle
