import Drivers.Proto
import St4sd.Model.Restart
import St4sd.Model.RestartKill
/-! Model driver for property C12.

Request: `{"op":"exec","old":bool,"fin":bool,"cfg":{maxRestarts:int|null,hookFileNamed,hookOn:[names],simulator,
repeating,hookModule:"fallback"|"scripted"|"broken"},"inps":[{reason,hook,control,runFails,stable,
launch:"task"|"submitError"|"otherError"|"none"}]}`
Answer: `{"events":[{code,restarts,resub,runs,shutdown}], "asked":[bool]}` (one per input, chronological;
`asked` = the hook module's `Restart` is called at that step).
`cfg` may instead carry the policy as WRITTEN in the document: `{"written":{maxRestarts:int|null,hookFile:str|null,
hookOn:[names]|null},simulator,repeating,hookModule}`: the model's loader (`Restart.load`) gives the policy seen,
returned as `"seen"`.
Request `{"op":"mexec","fin":bool,"comps":[cfg + "file":name],"files":{name:hook answer},"inps":[{comp:n, ...inp}]}`
(several components of one experiment, every hook file has one fixed answer):
Answer `{"events":[{comp,code,restarts,resub,runs,shutdown}],"asked":[bool],"seen":[...]}`.
Request `{"op":"kexec","fin":bool,"firstRun":bool,"cfg":cfg,"inps":[{...inp, "kill":bool}]}` (plain Engine; `kill` = kill()
is delivered to the engine instead of the launch): Answer `{"events":[{reported,killable,code,restarts,resub,runs,shutdown}]}`
(`St4sd.RestartKill.kexec`; `reported` = the exit reason the engine reports when the controller decides). -/
open Lean Proto St4sd.Restart

def parseReason (s : String) : Except String Reason :=
  match Reason.all.find? (fun r => r.name == s) with
  | some r => pure r
  | none => throw s!"unknown exit reason {s}"

def parseCtx (s : String) : Except String RCtx :=
  match RCtx.all.find? (fun r => r.name == s) with
  | some r => pure r
  | none => throw s!"unknown restart context {s}"

def parseHook (s : String) : Except String HookAns :=
  match s with
  | "yes" => pure .yes
  | "no" => pure .no
  | "raises" => pure .raises
  | "ioError" => pure .ioError
  | "junk" => pure .junk
  | _ => if s.startsWith "ctx:" then do return .ctx (← parseCtx (s.drop 4).toString) else throw s!"unknown hook answer {s}"

def parseModule (s : String) : Except String HookModule :=
  match s with
  | "fallback" => pure .fallback
  | "scripted" => pure .scripted
  | "broken" => pure .broken
  | _ => throw s!"unknown hook module kind {s}"

def parseLaunch (s : String) : Except String Launch :=
  match s with
  | "task" => pure .task
  | "submitError" => pure .submitError
  | "otherError" => pure .otherError
  | "none" => pure .none
  | _ => throw s!"unknown launch kind {s}"

def parseWritten (j : Json) : Except String Written := do
  let mr ← match j.getObjVal? "maxRestarts" with
    | .ok Json.null => pure none
    | .ok v => do pure (some (← v.getInt?))
    | .error _ => pure none
  let hf ← match j.getObjVal? "hookFile" with
    | .ok Json.null => pure none
    | .ok v => do pure (some (← v.getStr?))
    | .error _ => pure none
  let on ← match j.getObjVal? "hookOn" with
    | .ok Json.null => pure none
    | .ok _ => do pure (some (← (← getStrList j "hookOn").mapM parseReason))
    | .error _ => pure none
  return ⟨mr, hf, on⟩

def seenJson (p : Seen) : Json :=
  jobj [("maxRestarts", jopt jint p.maxRestarts), ("hookFile", jopt jstr p.hookFile),
        ("hookOn", jarr (p.hookOn.map (fun r => jstr r.name)))]

/-- configuration + the policy seen when the request carries the written policy -/
def parseCfgW (j : Json) : Except String (Cfg × Option Seen) := do
  match j.getObjVal? "written" with
  | .ok w =>
    let p := load (← parseWritten w)
    return (p.cfg (← getBool j "simulator") (← getBool j "repeating") (← parseModule (← getStr j "hookModule")), some p)
  | .error _ =>
  let mr ← match j.getObjVal? "maxRestarts" with
    | .ok Json.null => pure none
    | .ok v => do pure (some (← v.getInt?))
    | .error _ => pure none
  let on ← (← getStrList j "hookOn").mapM parseReason
  return ({ maxRestarts := mr, hookFileNamed := ← getBool j "hookFileNamed", hookOn := on,
            simulator := ← getBool j "simulator", repeating := ← getBool j "repeating",
            hookModule := ← parseModule (← getStr j "hookModule") }, none)

def parseInp (j : Json) : Except String Inp := do
  let reason ← parseReason (← getStr j "reason")
  let hook ← match j.getObjVal? "hook" with
    | .ok (Json.str h) => parseHook h
    | _ => pure HookAns.junk
  let control ← getBool j "control"
  let runFails ← getBool j "runFails"
  let stable ← getBool j "stable"
  let launch ← parseLaunch (← getStr j "launch")
  let i : Inp := ⟨reason, hook, control, runFails, stable, launch⟩
  if !i.wf then throw "launch kind and exit reason are inconsistent"
  return i

def evJson (e : Ev) : Json :=
  jobj [("code", jstr e.code.name), ("restarts", jnat e.st.restarts), ("resub", jnat e.st.resub),
        ("runs", jnat e.st.runs), ("shutdown", jbool e.st.shutdown)]

/-- for every input: is the scripted hook asked at that step (state before the step = state of the previous event) -/
def askedLog (fin : Bool) (old : Bool) (cfg : Cfg) : St → List Inp → List Bool
  | _, [] => []
  | s, i :: is =>
    let s' := if old then (stepOld fin cfg s i).1 else (step fin cfg s i).1
    stepAsksHook cfg s i :: askedLog fin old cfg s' is

/-- several components: is the component's hook file asked at that exit -/
def maskedLog (fin : Bool) (files : String → HookAns) (cf : Nat → MCfg) : (Nat → St) → List MInp → List Bool
  | _, [] => []
  | ss, m :: ms =>
    stepAsksHook (cf m.comp).cfg (ss m.comp) m.inp :: maskedLog fin files cf (mstep fin files cf ss m).1 ms

def handle (j : Json) : Except String Json := do
  let op ← getStr j "op"
  match op with
  | "exec" =>
    let old ← getBool j "old"
    let fin ← getBool j "fin"
    let (cfg, seen) ← parseCfgW (← j.getObjVal? "cfg")
    let inps ← (← getArr j "inps").mapM parseInp
    let evs := if old then execOld fin cfg St.init inps else exec fin cfg St.init inps
    return jobj [("events", jarr (evs.map evJson)), ("asked", jarr ((askedLog fin old cfg St.init inps).map jbool)),
                 ("effMax", jint (effMax cfg)),
                 ("schemaValid", jbool (schemaValid cfg)), ("seen", jopt seenJson seen)]
  | "kexec" =>
    let fin ← getBool j "fin"
    let firstRun ← getBool j "firstRun"
    let (cfg, _) ← parseCfgW (← j.getObjVal? "cfg")
    let ks ← (← getArr j "inps").mapM (fun m => do
      let i ← parseInp m
      let kill ← getBool m "kill"
      pure (⟨if kill then .kill else .exits i.launch i.reason, i⟩ : St4sd.RestartKill.KInp))
    let e0 := if firstRun then St4sd.RestartKill.run St4sd.RestartKill.Eng.init else St4sd.RestartKill.Eng.init
    let evs := St4sd.RestartKill.kexec false fin cfg (St.init, e0) ks
    return jobj [("events", jarr (evs.map (fun e => jobj [("reported", jstr e.reported.name), ("killable", jbool e.killable),
                    ("code", jstr e.code.name), ("restarts", jnat e.st.restarts), ("resub", jnat e.st.resub),
                    ("runs", jnat e.st.runs), ("shutdown", jbool e.st.shutdown)])))]
  | "mexec" =>
    let fin ← getBool j "fin"
    let comps ← (← getArr j "comps").mapM (fun c => do
      let (cfg, seen) ← parseCfgW c
      pure ((⟨cfg, ← getStr c "file"⟩ : MCfg), seen))
    let filesJ ← j.getObjVal? "files"
    let fileList ← match filesJ with
      | Json.obj kvs => kvs.toList.mapM (fun (k, v) => do pure (k, ← parseHook (← v.getStr?)))
      | _ => throw "files must be an object"
    let files : String → HookAns := fun f => ((fileList.find? (fun kv => kv.1 == f)).map (·.2)).getD .junk
    let dflt : MCfg := ⟨⟨none, false, [], false, false, .fallback⟩, ""⟩
    let cf : Nat → MCfg := fun k => ((comps.map (·.1))[k]?).getD dflt
    let ms ← (← getArr j "inps").mapM (fun m => do
      let k ← getNat m "comp"
      if k ≥ comps.length then throw "component index out of range"
      pure (⟨k, ← parseInp m⟩ : MInp))
    let evs := mexec fin files cf (fun _ => St.init) ms
    return jobj [("events", jarr (evs.map (fun e => jobj [("comp", jnat e.1), ("code", jstr e.2.code.name),
                    ("restarts", jnat e.2.st.restarts), ("resub", jnat e.2.st.resub), ("runs", jnat e.2.st.runs),
                    ("shutdown", jbool e.2.st.shutdown)]))),
                 ("asked", jarr ((maskedLog fin files cf (fun _ => St.init) ms).map jbool)),
                 ("seen", jarr (comps.map (fun c => jopt seenJson c.2)))]
  | _ => throw s!"unknown op {op}"

def main : IO Unit := serve handle
