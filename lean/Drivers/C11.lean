import Drivers.Proto
import St4sd.Model.Validate
import St4sd.Gen.C11
/-! Model driver for property C11.

Request `{"op":"validate","doc":{"comps":[{"stage":n,"name":s,"refs":[[stage,name]…],"argRefs":[…],
"opts":<json>,"vars":[[name,[used…]]…],"uses":[…],"replicate":n|null,"aggregate":bool}…],
"globals":[[name,[used…]]…]}}`
→ `{"accepted":bool,"errors":[kinds…],"nodes":[…],"edges":[[producer,consumer]…]}` (nodes and edges of the
expanded document); `{"op":"schema-paths"}` → the option paths of the generated schema. -/
open Lean Proto St4sd.ValSchema St4sd.Validate

partial def toVal : Json → Val
  | .null => .null
  | .bool b => .bool b
  | .num n => if n.exponent == 0 then .int n.mantissa else .float
  | .str s => .str s.toList
  | .arr a => .list (a.toList.map toVal)
  | .obj kvs => .dict (kvs.toList.map (fun (k, v) => (k.toList, toVal v)))

def getId (j : Json) : Except String Id := do
  let a ← j.getArr?
  match a.toList with
  | [s, n] => return ((← s.getNat?), (← n.getStr?).toList)
  | _ => throw "identifier must be [stage, name]"

def getDefs (j : Json) (k : String) : Except String (List (S × List S)) := do
  (← getArr j k).mapM (fun e => do
    let a ← e.getArr?
    match a.toList with
    | [n, us] => return ((← n.getStr?).toList, (← (← us.getArr?).toList.mapM (·.getStr?)).map String.toList)
    | _ => throw "definition must be [name, [used]]")

def getComp (j : Json) : Except String Comp := do
  return { stage := ← getNat j "stage", name := ← getChars j "name",
           refs := ← (← getArr j "refs").mapM getId, argRefs := ← (← getArr j "argRefs").mapM getId,
           opts := toVal (← j.getObjVal? "opts"), vars := ← getDefs j "vars", uses := ← getCharsList j "uses",
           replicate := (match j.getObjVal? "replicate" with
                         | .ok v => (match v.getNat? with | .ok n => some n | _ => none)
                         | _ => none),
           aggregate := (match j.getObjVal? "aggregate" with
                         | .ok (.bool b) => b
                         | _ => false) }

def idStr (i : Id) : String := s!"stage{i.1}.{String.ofList i.2}"

def errKind : Err → String
  | .duplicate _ => "duplicate"
  | .option _ (.keyUnknown _) => "key-unknown"
  | .option _ (.keyMissing _) => "key-missing"
  | .option _ .valueInvalid => "value-invalid"
  | .option _ .convertFailed => "convert-failed"
  | .unknownReference _ _ => "unknown-reference"
  | .undeclaredReferenceInArguments _ _ => "undeclared-reference-in-arguments"
  | .undefinedVariable _ _ => "undefined-variable"
  | .cycle => "cycle"
  | .inconsistentReplicate _ => "inconsistent-replicate"
  | .duplicateAfterReplication _ => "duplicate-after-replication"

def handle (j : Json) : Except String Json := do
  let op ← getStr j "op"
  match op with
  | "validate" =>
    let dj ← j.getObjVal? "doc"
    let d : Doc := { comps := ← (← getArr dj "comps").mapM getComp, globals := ← getDefs dj "globals" }
    let errs := validate St4sd.Gen.C11.convTable St4sd.Gen.C11.componentSchema d
    let kinds := (errs.map errKind).eraseDups
    let ed := expandDoc d
    return jobj [("accepted", jbool errs.isEmpty), ("errors", jarr (kinds.map jstr)),
                 ("nodes", jarr ((ids ed).map (fun i => jstr (idStr i)))),
                 ("edges", jarr ((edges ed).map (fun e => jarr [jstr (idStr e.1), jstr (idStr e.2)])))]
  | "schema-paths" =>
    return jobj [("paths", jarr (St4sd.Gen.C11.optionPaths.map (fun p => jarr (p.map jchars))))]
  | _ => throw s!"unknown op {op}"

def main : IO Unit := serve handle
