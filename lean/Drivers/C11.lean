import Drivers.Proto
import St4sd.Model.Validate
import St4sd.Model.ValidateLoop
import St4sd.Gen.C11
/-! Model driver for property C11.

Request `{"op":"validate","doc":{"comps":[{"stage":n,"name":s,"refs":[[stage,name]…],"argRefs":[…],
"opts":<json>,"vars":[[name,[used…]]…],"uses":[…],"replicate":n|null,"aggregate":bool}…],
"globals":[[name,[used…]]…],
"stageVars":[[stage,[[name,[used…]]…]]…],"platGlobals":[…],"platStageVars":[…],
"userFiles":[{"globals":[…],"stages":[[stage,[…]]…]}…],
"loops":[{"stage":n,"name":s,"inputs":[key…],"bindings":[[key,[stage,name]]…],"loopBindings":[[key,[stage,name]]…],
"cond":[stage,name],"comps":[{"stage":n,"name":s,"refs":[[stage,name]…],"opts":<json>,"vars":[…],"uses":[…]}…]}…]}}`
(the last five optional; identifiers inside a loop are relative to its document)
→ `{"accepted":bool,"errors":[kinds…],"acceptedFixed":bool,"errorsFixed":[…] (the repaired binding check, `validatePFixed`),"nodes":[…],"edges":[[producer,consumer]…]}` (nodes and edges of the
expanded document: main components + iteration 0 of every loop), `"next":[{"nodes":[…],"resolves":bool,"bindingsKnown":bool}…]` (the
components iteration 1 of each loop adds and whether their references resolve); `{"op":"schema-paths"}` → the option paths of the generated schema. -/
open Lean Proto St4sd.ValSchema St4sd.Validate

partial def toVal : Json → Val
  | .null => .null
  | .bool b => .bool b
  | .num n =>
      if n.exponent == 0 then .int n.mantissa
      else .float (Int.tdiv n.mantissa ((10 : Int) ^ n.exponent)) (Int.tmod n.mantissa ((10 : Int) ^ n.exponent) != 0)
  | .str s => .str s.toList
  | .arr a => .list (a.toList.map toVal)
  | .obj kvs =>
      -- a Python float is sent as `{"$float": [int(value), value != int(value)]}` by the harness (the JSON spelling
      -- of a float such as `1e+22` or `3.0` does not say that it is one)
      match kvs.toList with
      | [("$float", .arr #[.num w, .bool f])] => .float w.mantissa f
      | l => .dict (l.map (fun (k, v) => (k.toList, toVal v)))

def getId (j : Json) : Except String Id := do
  let a ← j.getArr?
  match a.toList with
  | [s, n] => return ((← s.getNat?), (← n.getStr?).toList)
  | _ => throw "identifier must be [stage, name]"

def getDef (e : Json) : Except String (S × List S) := do
  let a ← e.getArr?
  match a.toList with
  | [n, us] => return ((← n.getStr?).toList, (← (← us.getArr?).toList.mapM (·.getStr?)).map String.toList)
  | _ => throw "definition must be [name, [used]]"

def getDefs (j : Json) (k : String) : Except String (List (S × List S)) := do
  (← getArr j k).mapM getDef

/-- an optional array field (absent or null = empty) -/
def optArr (j : Json) (k : String) : Except String (List Json) :=
  match j.getObjVal? k with
  | .ok .null => return []
  | .ok v => do return (← v.getArr?).toList
  | .error _ => return []

def getOptDefs (j : Json) (k : String) : Except String (List (S × List S)) := do
  (← optArr j k).mapM getDef

/-- `[[stage, [[name, [used…]]…]]…]` -/
def getSections (j : Json) (k : String) : Except String (List (Nat × List (S × List S))) := do
  (← optArr j k).mapM (fun e => do
    let a ← e.getArr?
    match a.toList with
    | [s, ds] => return ((← s.getNat?), (← (← ds.getArr?).toList.mapM getDef))
    | _ => throw "section must be [stage, [definitions]]")

def getUserFile (j : Json) : Except String UserVars := do
  return { globals := ← getOptDefs j "globals", stages := ← getSections j "stages" }

def getComp (j : Json) : Except String Comp := do
  return { stage := ← getNat j "stage", name := ← getChars j "name",
           refs := ← (← getArr j "refs").mapM getId, argRefs := ← (← getArr j "argRefs").mapM getId,
           opts := toVal (← j.getObjVal? "opts"), vars := ← getDefs j "vars", uses := ← getCharsList j "uses",
           replicate := (match j.getObjVal? "replicate" with
                         | .ok v => (match v.getNat? with | .ok n => some n | _ => none)
                         | _ => none),
           aggregate := (match j.getObjVal? "aggregate" with
                         | .ok (.bool b) => b
                         | _ => false) }

def getDoc (dj : Json) : Except String Doc := do
  return { comps := ← (← getArr dj "comps").mapM getComp, globals := ← getDefs dj "globals",
           stageVars := ← getSections dj "stageVars", platGlobals := ← getOptDefs dj "platGlobals",
           platStageVars := ← getSections dj "platStageVars",
           userFiles := ← (← optArr dj "userFiles").mapM getUserFile }

def getBinds (j : Json) (k : String) : Except String (List (S × Id)) := do
  (← optArr j k).mapM (fun e => do
    let a ← e.getArr?
    match a.toList with
    | [n, i] => return ((← n.getStr?).toList, (← getId i))
    | _ => throw "binding must be [key, [stage, name]]")

def getTComp (j : Json) : Except String TComp := do
  return { stage := ← getNat j "stage", name := ← getChars j "name", refs := ← (← getArr j "refs").mapM getId,
           opts := toVal (← j.getObjVal? "opts"), vars := ← getDefs j "vars", uses := ← getCharsList j "uses" }

def getLoop (j : Json) : Except String St4sd.Validate.Loop := do
  return { stage := ← getNat j "stage", name := ← getChars j "name", inputs := ← getCharsList j "inputs",
           bindings := ← getBinds j "bindings", loopBindings := ← getBinds j "loopBindings",
           cond := ← getId (← j.getObjVal? "cond"), comps := ← (← getArr j "comps").mapM getTComp }

def idStr (i : Id) : String := s!"stage{i.1}.{String.ofList i.2}"

def errKind : Err → String
  | .duplicate _ => "duplicate"
  | .option _ (.keyUnknown _) => "key-unknown"
  | .option _ (.keyMissing _) => "key-missing"
  | .option _ .valueInvalid => "value-invalid"
  | .option _ .convertFailed => "convert-failed"
  | .unknownReference _ _ => "unknown-reference"
  | .undeclaredReferenceInArguments _ _ => "undeclared-reference-in-arguments"
  | .undefinedVariable _ _ => "undefined-variable"
  | .cycle => "cycle"
  | .inconsistentReplicate _ => "inconsistent-replicate"
  | .duplicateAfterReplication _ => "duplicate-after-replication"

def loopErrKind : LoopErr → String
  | .missingBinding _ => "loop-missing-binding"
  | .unknownBindingKey _ => "loop-unknown-binding-key"
  | .bindingUnknown _ _ => "loop-binding-unknown-component"
  | .loopBindingUnknown _ _ => "loop-loopbinding-unknown-component"
  | .conditionUnknown _ => "loop-condition-unknown-component"
  | .duplicateLooped _ => "loop-duplicate-looped-component"

def pErrKind : PErr → String
  | .loop _ e => loopErrKind e
  | .doc e => errKind e

def handle (j : Json) : Except String Json := do
  let op ← getStr j "op"
  match op with
  | "validate" =>
    let dj ← j.getObjVal? "doc"
    let p : Package := { main := ← getDoc dj, loops := ← (← optArr dj "loops").mapM getLoop }
    let errs := validateP St4sd.Gen.C11.convTable St4sd.Gen.C11.componentSchema p
    let kinds := (errs.map pErrKind).eraseDups
    let ed := expandDoc (flatten p)
    -- iteration 1 of every loop: the new components and whether each of their references is a component of
    -- the document with that iteration added (or a placeholder)
    let next := p.loops.map (fun l =>
      jobj [("nodes", jarr ((inst l 1).map (fun c => jstr (idStr c.id)))),
            ("resolves", jbool ((inst l 1).all (fun c => c.refs.all (refResolves (unrolled p l 1))))),
            -- the binding check of `instantiate_dowhile` at run time (components of the graph only)
            ("bindingsKnown", jbool (nextBindingErrors p l 0).isEmpty)])
    let errsFixed := validatePFixed St4sd.Gen.C11.convTable St4sd.Gen.C11.componentSchema p
    return jobj [("accepted", jbool errs.isEmpty), ("errors", jarr (kinds.map jstr)),
                 ("acceptedFixed", jbool errsFixed.isEmpty),
                 ("errorsFixed", jarr ((errsFixed.map pErrKind).eraseDups.map jstr)),
                 ("nodes", jarr ((ids ed).map (fun i => jstr (idStr i)))),
                 ("edges", jarr ((edges ed).map (fun e => jarr [jstr (idStr e.1), jstr (idStr e.2)]))),
                 ("next", jarr next)]
  | "schema-paths" =>
    return jobj [("paths", jarr (St4sd.Gen.C11.optionPaths.map (fun p => jarr (p.map jchars))))]
  | _ => throw s!"unknown op {op}"

def main : IO Unit := serve handle
