import Drivers.Proto
import St4sd.Model.TreeJson
import St4sd.Model.CacheViews
/-! Model driver for property C08 (configuration interface with cache): one history per line. -/
open Lean Proto St4sd.Tree

def labelText (l : Label) : String :=
  "component:" ++ String.ofList (labelTail l)

def entryOfString : String → Except String Entry
  | "spec" => pure .spec
  | "specSibling" => pure .specSibling
  | "node" => pure .node
  | "graph" => pure .graph
  | "conf" => pure .conf
  | "concrete" => pure .concrete
  | "job" => pure .job
  | e => throw s!"unknown entry {e}"

/-- `{"op":"via","entry":E,"u":<op>}` | `{"op":"view","entry":E,"view":null | [k1,…],"stage":i,"name":n,<flags>}` -/
def gopOfJson (j : Json) : Except String GOp := do
  let op ← getStr j "op"
  let e ← entryOfString (← getStr j "entry")
  match op with
  | "via" => pure (.via e (← opOfJson (← j.getObjVal? "u")))
  | "view" =>
    let v ← match optField j "view" with
      | .null => pure View.configuration
      | .arr ks => do pure (View.path (← ks.toList.mapM (fun k => do pure (← k.getStr?).toList)))
      | _ => throw "view"
    pure (.view e v (← getN j "stage") (← getS j "name") (← flagsOfJson j))
  | _ => throw s!"unknown graph op {op}"

def handle (j : Json) : Except String Json := do
  let op ← getStr j "op"
  match op with
  | "run" =>
    let d ← descOfJson (← j.getObjVal? "desc")
    let fuel ← getNat j "fuel"
    let ops ← (← getArr j "ops").mapM opOfJson
    let (s, answers) := run fuel (init d) ops
    return jobj [("answers", jarr (answers.map jsonOfResult)),
                 ("cache", jarr (s.cache.map (fun e => jstr (labelText e.1))))]
  | "grun" =>
    let d ← descOfJson (← j.getObjVal? "desc")
    let fuel ← getNat j "fuel"
    let P ← getChars j "platform"
    let gops ← (← getArr j "ops").mapM gopOfJson
    let (_, answers) := grun fuel P (init d) gops
    return jobj [("answers", jarr (answers.map jsonOfResult))]
  | "invalidates" =>
    let i ← getNat j "stage"
    let n ← getChars j "name"
    let l : Label := ⟨← getChars j "lplatform", ← getNat j "lstage", ← getChars j "lname"⟩
    return jobj [("fixed", jbool (invalidates i n l)), ("old", jbool (invalidatesOld i n l))]
  | _ => throw s!"unknown op {op}"

def main : IO Unit := serve handle
