import Drivers.Proto
import St4sd.Model.TreeJson
/-! Model driver for property C08 (configuration interface with cache): one history per line. -/
open Lean Proto St4sd.Tree

def labelText (l : Label) : String :=
  "component:" ++ String.ofList (labelTail l)

def handle (j : Json) : Except String Json := do
  let op ← getStr j "op"
  match op with
  | "run" =>
    let d ← descOfJson (← j.getObjVal? "desc")
    let fuel ← getNat j "fuel"
    let ops ← (← getArr j "ops").mapM opOfJson
    let (s, answers) := run fuel (init d) ops
    return jobj [("answers", jarr (answers.map jsonOfResult)),
                 ("cache", jarr (s.cache.map (fun e => jstr (labelText e.1))))]
  | "invalidates" =>
    let i ← getNat j "stage"
    let n ← getChars j "name"
    let l : Label := ⟨← getChars j "lplatform", ← getNat j "lstage", ← getChars j "lname"⟩
    return jobj [("fixed", jbool (invalidates i n l)), ("old", jbool (invalidatesOld i n l))]
  | _ => throw s!"unknown op {op}"

def main : IO Unit := serve handle
