import Drivers.Proto
import St4sd.Model.Repeat
/-! Model driver for property C13 (repeating-engine poll protocol). -/
open Lean Proto St4sd.Repeat

def getBoolD (j : Json) (k : String) (d : Bool) : Bool :=
  match j.getObjVal? k with
  | .ok (Json.bool b) => b
  | _ => d

def parseCfg (j : Json) : Except String Cfg := do
  let c ← j.getObjVal? "cfg"
  return { retries := ← getNat c "retries", dieAfter := getBoolD c "dieAfter" false,
           noProd := getBoolD c "noProd" false, alwaysNew := getBoolD c "alwaysNew" false,
           preOutput := getBoolD c "preOutput" false, guardNone := getBoolD c "guardNone" true,
           killOnSuicidePoll := getBoolD c "killOnSuicidePoll" true }

def parseEv (s : String) : Except String Ev :=
  match s with
  | "fin" => pure .fin | "out" => pure .out | "kill" => pure .kill | "die" => pure .die | "adv" => pure .adv
  | _ => throw s!"unknown event {s}"

def parseOutcome (s : String) : Except String Outcome :=
  match s with
  | "ok" => pure .ok | "fail" => pure .fail | "raise" => pure .raised
  | _ => throw s!"unknown outcome {s}"

def getEvs (j : Json) (k : String) : Except String (List Ev) :=
  match j.getObjVal? k with
  | .ok (Json.arr a) => a.toList.mapM (fun x => do parseEv (← x.getStr?))
  | _ => pure []

def parseIter (j : Json) : Except String Iter := do
  let o ← match j.getObjVal? "outcome" with
    | .ok (Json.str s) => parseOutcome s
    | _ => pure Outcome.ok
  return { gap := ← getEvs j "gap", s0 := ← getEvs j "s0", s1 := ← getEvs j "s1", s2 := ← getEvs j "s2",
           s3 := ← getEvs j "s3", s4 := ← getEvs j "s4", out := o }

def evName : Ev → String
  | .fin => "fin" | .out => "out" | .kill => "kill" | .die => "die" | .adv => "adv"
def outName : Outcome → String
  | .ok => "ok" | .fail => "fail" | .raised => "raise"
def opName : Op → String
  | .env e => "e:" ++ evName e
  | .eng o => "g:" ++ outName o
def parseOp (s : String) : Except String Op :=
  if s.startsWith "e:" then do return .env (← parseEv (s.drop 2).toString)
  else if s.startsWith "g:" then do return .eng (← parseOutcome (s.drop 2).toString)
  else throw s!"bad op {s}"

def causeName : Option Cause → Json
  | none => Json.null
  | some .success => jstr "success" | some .retries => jstr "retries"
  | some .external => jstr "external" | some .killDelay => jstr "killDelay"

def snap (s : St) : Json :=
  jobj [("launches", jnat s.execLog.length), ("retries", jnat s.retries), ("cancel", jbool s.cancel),
        ("alive", jbool (alive s)), ("kc", jbool s.kc), ("suicide", jbool s.suicide),
        ("consume", jbool s.consume), ("fin", jbool s.prodDone)]

def summary (s : St) : List (String × Json) :=
  [("final", snap s), ("stopped", jbool (s.pc = .stopped)),
   ("execs", jarr (s.execLog.reverse.map fun e =>
      jobj [("afterFinal", jbool (!s.hasOutput || decide (s.lastOutput < e.launch))), ("pdws", jbool e.pdws)])),
   ("cause", causeName s.cause), ("pollsFin", jnat s.pollsFin), ("books", jnat s.books)]

def handle (j : Json) : Except String Json := do
  let op ← getStr j "op"
  match op with
  | "script" =>
    let cfg ← parseCfg j
    let its ← (← getArr j "iters").mapM parseIter
    let (ss, ops) := runScript cfg (init cfg) its
    let fin := ss.getLast?.getD (init cfg)
    return jobj ([("snaps", jarr (ss.map snap)), ("flat", jarr (ops.map (jstr ∘ opName)))] ++ summary fin)
  | "flat" =>
    let cfg ← parseCfg j
    let ops ← (← getStrList j "ops").mapM parseOp
    return jobj (summary (exec cfg ops))
  | _ => throw s!"unknown op {op}"

def main : IO Unit := serve handle
