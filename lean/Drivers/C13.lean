import Drivers.Proto
import St4sd.Model.Repeat
import St4sd.Model.RepeatSub
import St4sd.Model.RepeatDir
/-! Model driver for property C13 (repeating-engine poll protocol). -/
open Lean Proto St4sd.Repeat St4sd.RepeatSub

def getBoolD (j : Json) (k : String) (d : Bool) : Bool :=
  match j.getObjVal? k with
  | .ok (Json.bool b) => b
  | _ => d

def parseProd (j : Json) : Except String Prod := do
  return { id := ← getNat j "id", same := getBoolD j "same" true, rep := getBoolD j "rep" true }

def parseCfg (j : Json) : Except String Cfg := do
  let c ← j.getObjVal? "cfg"
  return { retries := ← getNat c "retries", dieAfter := getBoolD c "dieAfter" false,
           prods := ← (← getArr c "prods").mapM parseProd, pre := ← getNatList c "pre",
           guardNone := getBoolD c "guardNone" true,
           killOnSuicidePoll := getBoolD c "killOnSuicidePoll" true,
           killAfterLaunch := getBoolD c "killAfterLaunch" true }

def parseEv (s : String) : Except String Ev :=
  if s.startsWith "out:" then
    match (s.drop 4).toString.toNat? with
    | some n => pure (.out n)
    | none => throw s!"bad event {s}"
  else match s with
  | "fin" => pure .fin | "kill" => pure .kill | "die" => pure .die | "adv" => pure .adv
  | _ => throw s!"unknown event {s}"

def parseOutcome (s : String) : Except String Outcome :=
  match s with
  | "ok" => pure .ok | "fail" => pure .fail | "raise" => pure .raised | "hang" => pure .hang
  | _ => throw s!"unknown outcome {s}"

def getEvs (j : Json) (k : String) : Except String (List Ev) :=
  match j.getObjVal? k with
  | .ok (Json.arr a) => a.toList.mapM (fun x => do parseEv (← x.getStr?))
  | _ => pure []

def parseIter (j : Json) : Except String Iter := do
  let o ← match j.getObjVal? "outcome" with
    | .ok (Json.str s) => parseOutcome s
    | _ => pure Outcome.ok
  return { gap := ← getEvs j "gap", s0 := ← getEvs j "s0", s1 := ← getEvs j "s1", s2 := ← getEvs j "s2",
           s3 := ← getEvs j "s3", s4 := ← getEvs j "s4", out := o }

def evName : Ev → String
  | .fin => "fin" | .out c => s!"out:{c}" | .kill => "kill" | .die => "die" | .adv => "adv"
def outName : Outcome → String
  | .ok => "ok" | .fail => "fail" | .raised => "raise" | .hang => "hang"
def opName : Op → String
  | .env e => "e:" ++ evName e
  | .eng o => "g:" ++ outName o
def parseOp (s : String) : Except String Op :=
  if s.startsWith "e:" then do return .env (← parseEv (s.drop 2).toString)
  else if s.startsWith "g:" then do return .eng (← parseOutcome (s.drop 2).toString)
  else throw s!"bad op {s}"

def causeName : Option Cause → Json
  | none => Json.null
  | some .success => jstr "success" | some .retries => jstr "retries"
  | some .external => jstr "external" | some .killDelay => jstr "killDelay"

def snap (s : St) : Json :=
  jobj [("launches", jnat s.execLog.length), ("retries", jnat s.retries), ("cancel", jbool s.cancel),
        ("alive", jbool (alive s)), ("kc", jbool s.kc), ("suicide", jbool s.suicide),
        ("consume", jbool s.consume), ("fin", jbool s.prodDone)]

def summary (s : St) : List (String × Json) :=
  [("final", snap s), ("stopped", jbool (s.pc = .stopped)),
   ("execs", jarr (s.execLog.reverse.map fun e =>
      jobj [("afterFinal", jbool (!s.hasOutput || decide (s.lastOutput < e.launch))), ("pdws", jbool e.pdws),
            ("avail", jbool e.avail), ("started", jbool e.started)])),
   ("cause", causeName s.cause), ("pollsFin", jnat s.pollsFin), ("books", jnat s.books)]

/-! composed scripts: subscription of ComponentState.stageIn + poll protocol -/

def parseCEv (s : String) : Except String CEv :=
  if s == "stagein" then pure (.sub .stageIn)
  else if s.startsWith "pf:" then
    match (s.drop 3).toString.toNat? with
    | some n => pure (.sub (.pfin n))
    | none => throw s!"bad event {s}"
  else if s.startsWith "px:" then
    match (s.drop 3).toString.toNat? with
    | some n => pure (.sub (.pexit n))
    | none => throw s!"bad event {s}"
  else if s.startsWith "out:" then
    match (s.drop 4).toString.toNat? with
    | some n => pure (.x (.out n))
    | none => throw s!"bad event {s}"
  else match s with
    | "kill" => pure (.x .kill) | "die" => pure (.x .die) | "adv" => pure (.x .adv)
    | _ => throw s!"unknown composed event {s}"

def getCEvs (j : Json) (k : String) : Except String (List CEv) :=
  match j.getObjVal? k with
  | .ok (Json.arr a) => a.toList.mapM (fun x => do parseCEv (← x.getStr?))
  | _ => pure []

def parseCIter (j : Json) : Except String CIter := do
  let o ← match j.getObjVal? "outcome" with
    | .ok (Json.str s) => parseOutcome s
    | _ => pure Outcome.ok
  return { gap := ← getCEvs j "gap", s0 := ← getCEvs j "s0", s1 := ← getCEvs j "s1", s2 := ← getCEvs j "s2",
           s3 := ← getCEvs j "s3", s4 := ← getCEvs j "s4", out := o }

def subOpName : SubOp → String
  | .stageIn => "stagein" | .pfin p => s!"pf:{p}" | .pexit p => s!"px:{p}"
def copName : COp → String
  | .ev (.sub o) => "s:" ++ subOpName o
  | .ev (.x e) => "e:" ++ evName e.toEv
  | .eng o => "g:" ++ outName o
def parseCOp (s : String) : Except String COp :=
  if s.startsWith "s:" then do
    match ← parseCEv (s.drop 2).toString with
    | .sub o => return .ev (.sub o)
    | _ => throw s!"bad op {s}"
  else if s.startsWith "e:" then do
    match ← parseCEv (s.drop 2).toString with
    | .x e => return .ev (.x e)
    | _ => throw s!"bad op {s}"
  else if s.startsWith "g:" then do return .eng (← parseOutcome (s.drop 2).toString)
  else throw s!"bad op {s}"

def subJson (s : Sub) : Json :=
  jobj [("notified", jbool s.notified), ("stagedIn", jbool s.stagedIn), ("count", jnat s.count),
        ("waiting", jnat s.waiting.length),
        ("finished", jarr ((s.finished.toArray.qsort (· < ·)).toList.map jnat))]

/-- (event, notified after it) for every subscription operation, in the order of time -/
def notifLog : Sub → List SubOp → List Json
  | _, [] => []
  | s, o :: r =>
    let s' := subStep s o
    jarr [jstr (subOpName o), jbool s'.notified] :: notifLog s' r

/-- the block of subscription operations up to and including the next one that fires -/
def takeBlock : Sub → List SubOp → List COp → Sub × List SubOp × List COp
  | s, [], acc => (s, [], acc)
  | s, o :: q, acc =>
    let acc := acc ++ [COp.ev (.sub o)]
    if fires s o then (subStep s o, q, acc) else takeBlock (subStep s o) q acc

/-- weave the subscription operations of a script back into the flat engine history that its translation
produced (each `fin` stands for the block of subscription operations ending with the one that fires; what
is left over comes last).  Glue: the result is checked by running `cexec` on it. -/
def weave (s : Sub) (q : List SubOp) : List Op → List COp
  | [] => q.map (fun o => COp.ev (.sub o))
  | Op.eng o :: r => COp.eng o :: weave s q r
  | Op.env .fin :: r =>
    let (s', q', ops) := takeBlock s q []
    ops ++ weave s' q' r
  | Op.env (.out c) :: r => COp.ev (.x (.out c)) :: weave s q r
  | Op.env .kill :: r => COp.ev (.x .kill) :: weave s q r
  | Op.env .die :: r => COp.ev (.x .die) :: weave s q r
  | Op.env .adv :: r => COp.ev (.x .adv) :: weave s q r

def subOpsOf (es : List CEv) : List SubOp :=
  es.filterMap fun e => match e with | .sub o => some o | _ => none

/-! working directories: `{"op":"dir","ops":[["stagein",[direct],[comp]] | ["write",f], ...]}` -> after every operation
the sorted output and the sorted inputs -/
open St4sd.RepeatDir in
def dirOps (d : Dir) : List Json → Except String (List Json)
  | [] => pure []
  | j :: r => do
    let a ← j.getArr?
    let kind ← (a[0]?.getD Json.null).getStr?
    let d' ← match kind with
      | "stagein" => do
        let direct ← (← (a[1]?.getD Json.null).getArr?).toList.mapM (fun x => x.getNat?)
        let comp ← (← (a[2]?.getD Json.null).getArr?).toList.mapM (fun x => x.getNat?)
        pure (stageIn direct comp [] d)
      | "write" => do
        let f ← (a[1]?.getD Json.null).getNat?
        pure (dstep d (.write f))
      | _ => throw s!"unknown dir op {kind}"
    let srt := fun (l : List Nat) => (l.toArray.qsort (· < ·)).toList.map jnat
    let rest ← dirOps d' r
    pure (jobj [("output", jarr (srt d'.output)), ("inputs", jarr (srt d'.inputs))] :: rest)

def handle (j : Json) : Except String Json := do
  let op ← getStr j "op"
  match op with
  | "cscript" =>
    let cfg ← parseCfg j
    let refs ← getNatList j "refs"
    let pre ← getCEvs j "pre"
    let its ← (← getArr j "iters").mapM parseCIter
    let its := match its with
      | [] => []
      | it :: r => { it with gap := pre ++ it.gap } :: r
    let s0 := Sub.init refs
    let (sfin, tits) := transIters s0 its
    let (ss, ops) := runScript cfg (init cfg) tits
    let fin := ss.getLast?.getD (init cfg)
    -- subscription operations the script delivered: those of the iterations that were run
    let sops := subOpsOf ((its.take ss.length).flatMap CIter.events)
    let sdone := subRun s0 sops
    let _ := sfin
    return jobj ([("snaps", jarr (ss.map snap)), ("flat", jarr (ops.map (jstr ∘ opName))),
                  ("cflat", jarr ((weave s0 sops ops).map (jstr ∘ copName))),
                  ("sub", subJson sdone), ("notif", jarr (notifLog s0 sops))] ++ summary fin)
  | "cflat" =>
    let cfg ← parseCfg j
    let refs ← getNatList j "refs"
    let ops ← (← getStrList j "ops").mapM parseCOp
    let c := cexec cfg refs ops
    return jobj ([("sub", subJson c.sub)] ++ summary c.eng)
  | "script" =>
    let cfg ← parseCfg j
    let its ← (← getArr j "iters").mapM parseIter
    let (ss, ops) := runScript cfg (init cfg) its
    let fin := ss.getLast?.getD (init cfg)
    return jobj ([("snaps", jarr (ss.map snap)), ("flat", jarr (ops.map (jstr ∘ opName)))] ++ summary fin)
  | "dir" =>
    let ops ← getArr j "ops"
    return jobj [("steps", jarr (← dirOps St4sd.RepeatDir.Dir.fresh ops))]
  | "flat" =>
    let cfg ← parseCfg j
    let ops ← (← getStrList j "ops").mapM parseOp
    return jobj (summary (exec cfg ops))
  | _ => throw s!"unknown op {op}"

def main : IO Unit := serve handle
