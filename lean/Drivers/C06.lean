import Drivers.Proto
import St4sd.Model.Dsl
/-! Model driver for property C06: `{"op":"flatten", …namespace…}` → operational result, denotational
specification, and what the naming / reference-splitting algorithms did before the fixes. -/
open Lean Proto St4sd.Dsl

def optChars (j : Json) (k : String) : Except String (Option (List Char)) := do
  return (← getOptStr j k).map String.toList

def parseTok (j : Json) : Except String Tok := do
  match j.getObjVal? "l" with
  | .ok v => return .lit (← v.getStr?).toList
  | .error _ =>
  match j.getObjVal? "p" with
  | .ok v => return .par (← v.getStr?).toList
  | .error _ =>
  match j.getObjVal? "d" with
  | .ok v => return .dict (← v.getStr?).toList
  | .error _ =>
  match j.getObjVal? "n" with
  | .ok v => return .num (← v.getStr?).toList
  | .error _ =>
  match j.getObjVal? "r" with
  | .ok _ => return .ref (← getCharsList j "r") (← optChars j "m")
  | .error _ => return .suf (← getCharsList j "s") (← optChars j "m")

def parseVal (j : Json) : Except String Val := do
  (← j.getArr?).toList.mapM parseTok

def parseEnv (j : Json) : Except String Env := do
  (← j.getArr?).toList.mapM fun e => do
    let a ← e.getArr?
    match a.toList with
    | [n, v] => return ((← n.getStr?).toList, ← parseVal v)
    | _ => throw "bad env entry"

def parseParam (j : Json) : Except String Param := do
  let d ← match j.getObjVal? "default" with
    | .ok Json.null => pure none
    | .ok v => pure (some (← parseVal v))
    | .error _ => pure none
  return ⟨← getChars j "name", d⟩

def parseTemplate (j : Json) : Except String Template := do
  let name ← getChars j "name"
  let idx ← getNat j "idx"
  let params ← (← getArr j "params").mapM parseParam
  if ← getBool j "wf" then
    let steps ← (← getArr j "steps").mapM fun e => do
      match (← e.getArr?).toList with
      | [a, b] => return ((← a.getStr?).toList, (← b.getStr?).toList)
      | _ => throw "bad step"
    let execute ← (← getArr j "execute").mapM fun e => do
      return Exec.mk (← getChars e "target") (← parseEnv (← e.getObjVal? "args"))
    return ⟨name, idx, params, .workflow steps execute⟩
  else
    let agg ← match j.getObjVal? "aggregate" with
      | .ok (Json.bool b) => pure b
      | _ => pure false
    return ⟨name, idx, params, .component (← parseVal (← j.getObjVal? "args")) (← optChars j "env")
      (← optChars j "replicate") agg⟩

def parseNs (j : Json) : Except String Namespace := do
  let uvars ← match j.getObjVal? "userVars" with
    | .ok Json.null => pure []
    | .ok v => parseEnv v
    | .error _ => pure []
  return ⟨← (← getArr j "templates").mapM parseTemplate, ← getChars j "entry", ← parseEnv (← j.getObjVal? "entryArgs"), uvars⟩

def jloc (l : Loc) : Json := jarr (l.map jchars)

def jerr : ErrLoc → Json
  | .entry => jobj [("k", jstr "entrypoint")]
  | .tmpl wf idx e => jobj [("k", jstr (if wf then "workflows" else "components")), ("i", jnat idx), ("e", jopt jnat e)]

def jotok : OTok → Json
  | .lit s => jobj [("l", jchars s)]
  | .dref st p f m => jobj [("st", jnat st), ("d", jchars p), ("f", jloc f), ("m", jchars m)]

def jtok : Tok → Json
  | .lit s => jobj [("l", jchars s)]
  | .par p => jobj [("p", jchars p)]
  | .ref l m => jobj [("r", jloc l), ("m", jopt jchars m)]
  | .suf l m => jobj [("s", jloc l), ("m", jopt jchars m)]
  | .dict d => jobj [("d", jchars d)]
  | .num t => jobj [("n", jchars t)]

def jenv : EnvVal → Json
  | .unset => jobj [("k", jstr "unset")]
  | .empty => jobj [("k", jstr "none")]
  | .dict d => jobj [("k", jstr "dict"), ("d", jchars d)]

def jcomp (c : Comp) : Json :=
  jobj [("loc", jloc c.loc), ("stage", jnat c.stage), ("name", jchars c.name), ("replica", jbool c.replica), ("args", jarr (c.args.map jotok)),
        ("refs", jarr (c.refs.map jotok)), ("producers", jarr (c.producers.map jloc)), ("env", jenv c.env)]

def oldBehaviour (ns : Namespace) : Json :=
  match ns.find ns.entry with
  | none => Json.null
  | some t =>
    let acc := rootVisit ns t
    let steps := acc.insts.map fun i => i.loc.getLast?.getD []
    let names := assignNamesOld [] steps
    let locs := acc.insts.map (·.loc)
    let refs := acc.insts.flatMap fun i =>
      (fullRefs (merge (substV (fun p => i.params.lookup p) i.arguments)) ++ i.params.flatMap fun a => fullRefs a.2).map (·.1)
    jobj [("names", jarr (names.map jchars)),
          ("names_distinct", jbool (names.eraseDups.length == names.length)),
          ("names_valid", jbool (names.all validName)),
          ("split_differs", jbool (refs.any fun l => (splitOld locs l).map (·.1) != (split locs l).map (·.1)))]

/-- the answers of `can_template_replicate` with the memo dictionaries threaded through the components in the
order of the calls (= visit order), next to the memo-free answers -/
def replicaAnswers (ns : Namespace) : Json :=
  match ns.find ns.entry with
  | none => Json.null
  | some t =>
    let insts := (rootVisit ns t).insts
    jobj [("memo", jarr ((replicasM insts {} insts).map jbool)),
          ("plain", jarr (insts.map fun i => jbool (isReplica insts i))),
          ("locs", jarr (insts.map fun i => jloc i.loc))]

def handle (j : Json) : Except String Json := do
  let op ← getStr j "op"
  match op with
  | "flatten" =>
    let ns ← parseNs j
    let spec := flattenSpec ns
    let res := match flattenOp ns with
      | .ok comps => [("ok", jarr (comps.map jcomp)), ("envnames", jarr ((envNames comps).map (jopt jnat)))]
      | .invalid ph errs => [("invalid", jarr (errs.map jerr)), ("phase", jnat ph)]
      | .outOfFuel => [("out_of_fuel", jbool true)]
    return jobj (res ++ [("spec", jarr (spec.map fun s => jobj [("loc", jloc s.loc), ("args", jarr (s.args.map jtok)),
                                     ("env", jopt (fun v => jarr (v.map jtok)) s.env)])),
                         ("edges", jarr ((specEdgesAll spec).map fun e => jarr [jloc e.1, jloc e.2])),
                         ("old", oldBehaviour ns), ("replicas", replicaAnswers ns)])
  | "parse_name" =>
    let n ← getChars j "name"
    return match parseName n with
      | some (st, nm) => jobj [("stage", jnat st), ("name", jchars nm)]
      | none => jobj [("none", jbool true)]
  | "roman" =>
    let n ← getNat j "n"
    return jobj [("roman", jchars (roman n))]
  | _ => throw s!"unknown op {op}"

def main : IO Unit := serve handle
