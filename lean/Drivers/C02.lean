import Drivers.Proto
import St4sd.Model.Ctrl
import St4sd.Model.CtrlEngine
import St4sd.Model.CtrlSplit
/-! Model driver for properties C01 and C02 (C02 entry point) (shared model `St4sd.Ctrl`).

request : {"comps":[{stage,preds,isRepeat,isAgg,isRepl,shutdownOn,restartOn,maxRestarts,script}],
           "order":[..], "lastStage":k, "cont":[stages with continue-on-error],
           "ops":[["sched"]|["exit",c]|["fin",c]|["pm",c]|["kill"]|["tick",c]|["next"]|["complete",k]]}
           (["complete",k] = the stage-completion hook of stage k fired: `SOp.complete` of Model/CtrlSplit.lean)
           optional "launches":[[per component: "task:Reason" | "submitError" | "otherError" | "taskFault:Reason" (the
           task exits with Reason, then the engine's post-exit pipeline raises), one per execution]]
answer  : {"snaps":[state after every op], "stageDone", "quiescent", "canAdvance", "verdict", "reports",
           "log", "spec", "own", "engineReasons":[[what EngS.reported says the engine reports after each execution]]} -/
open Lean Proto St4sd.Ctrl

def reasonOf : String → Except String Reason
  | "Success" => pure .success | "KnownIssue" => pure .knownIssue | "SystemIssue" => pure .systemIssue
  | "SubmissionFailed" => pure .submissionFailed | "UnknownIssue" => pure .unknownIssue
  | "Killed" => pure .killed | "Cancelled" => pure .cancelled | "ResourceExhausted" => pure .resourceExhausted
  | s => throw s!"unknown exit reason {s}"

def reasonName : Reason → String
  | .success => "Success" | .knownIssue => "KnownIssue" | .systemIssue => "SystemIssue"
  | .submissionFailed => "SubmissionFailed" | .unknownIssue => "UnknownIssue" | .killed => "Killed"
  | .cancelled => "Cancelled" | .resourceExhausted => "ResourceExhausted"

def launchOf (s : String) : Except String Launch :=
  if s == "submitError" then pure .submitError
  else if s == "otherError" then pure .otherError
  else if s.startsWith "task:" then do return .task (← reasonOf (s.drop 5).toString)
  else if s.startsWith "taskFault:" then do return .taskThenFault (← reasonOf (s.drop 10).toString)
  else throw s!"unknown launch {s}"

def fin3Name : Fin3 → String
  | .finished => "finished" | .failed => "failed" | .shutdown => "shutdown"

def stateName (cs : CompS) : String :=
  match cstate cs with
  | .final f => fin3Name f
  | .postmortem => "postmortem"
  | .running => "running"

def parseComp (j : Json) : Except String CompDef := do
  let so ← (← getStrList j "shutdownOn").mapM reasonOf
  let ro ← (← getStrList j "restartOn").mapM reasonOf
  let sc ← (← getStrList j "script").mapM reasonOf
  return { stage := ← getNat j "stage", preds := ← getNatList j "preds", isRepeat := ← getBool j "isRepeat",
           isAgg := ← getBool j "isAgg", isRepl := ← getBool j "isRepl", shutdownOn := so, restartOn := ro,
           maxRestarts := ← getNat j "maxRestarts", script := sc }

def parseOp (j : Json) : Except String SOp := do
  let a ← j.getArr?
  let k ← (a[0]!).getStr?
  let arg : Except String Nat := do (← (a[1]? |>.elim (throw "missing operand") pure)).getNat?
  match k with
  | "sched" => pure (.base .sched)
  | "kill" => pure (.base .kill)
  | "exit" => return .base (.exit (← arg))
  | "fin" => return .base (.fin (← arg))
  | "pm" => return .base (.pm (← arg))
  | "tick" => return .base (.tick (← arg))
  | "next" => pure (.base .next)
  | "complete" => return .complete (← arg)
  | _ => throw s!"unknown op {k}"

def notifJson : Notif → Json
  | .fin c => jarr [jstr "fin", jnat c]
  | .pm c => jarr [jstr "pm", jnat c]

def notifKey : Notif → Nat
  | .fin c => 2 * c
  | .pm c => 2 * c + 1

/-- insertion sort on the key: `fin` sorts before `pm`, then by component (= Python's sorted()) -/
def sortNotifs (l : List Notif) : List Notif :=
  let key (n : Notif) : Nat × Nat := match n with | .fin c => (0, c) | .pm c => (1, c)
  let le (a b : Notif) : Bool := (key a).1 < (key b).1 || ((key a).1 == (key b).1 && (key a).2 ≤ (key b).2)
  l.foldl (fun acc x => (acc.takeWhile (fun y => le y x)) ++ [x] ++ (acc.dropWhile (fun y => le y x))) []

def snap (wf : Wf) (s : St) : Json :=
  jobj [("comps", jarr ((comps wf).map fun c =>
            let cs := s.comp c
            jarr [jstr (stateName cs), jbool (s.done c), jbool cs.staged, jnat cs.launches, jbool cs.finishCalled,
                  jbool (cs.ran && cs.exit.isNone && (wf.cdef c).isRepeat && notified s c)])),
        ("stop", jbool s.stop),
        ("stage", jnat s.cur),
        ("pending", jarr ((sortNotifs s.pending).map notifJson))]

def handle (j : Json) : Except String Json := do
  let cds ← (← getArr j "comps").mapM parseComp
  let order ← getNatList j "order"
  let lastStage ← getNat j "lastStage"
  let ops ← (← getArr j "ops").mapM parseOp
  let cont ← getNatList j "cont"
  let launches : List (List Launch) ← match j.getObjVal? "launches" with
    | .ok (Json.arr a) => a.toList.mapM fun x => do (← (← x.getArr?).toList.mapM (·.getStr?)).mapM launchOf
    | _ => pure []
  let wf : Wf := { n := cds.length, cdef := fun i => cds.getD i {}, order := order, lastStage := lastStage,
                   contOnErr := fun k => cont.contains k }
  let (afin, snapsRev) := ops.foldl (fun (acc : (SSt × Reports) × List Json) op =>
      let a' := sstepR wf acc.1 op
      (a', snap wf a'.1.base :: acc.2)) ((sinit, []), [])
  let sfin := afin.1.base
  let verdictName (v : Verdict) : String :=
    match v with
    | .ok => "ok" | .jobFailure => "UnexpectedJobFailureError"
    | .noFinishedLeaf => "FinalStageNoFinishedLeafComponents"
  let viewJson (pv : Nat × View) : Json :=
    jarr [jnat pv.1, jopt (fun f => jstr (fin3Name f)) pv.2.state, jbool pv.2.staged]
  return jobj [("snaps", jarr snapsRev.reverse),
               ("stageDone", jbool (stageDone wf sfin)),
               ("quiescent", jbool (quiescent wf sfin)),
               ("quiescentR", jbool (quiescentR wf sfin)),
               ("canAdvance", jbool (canAdvance wf sfin)),
               ("verdict", jstr (verdictName (verdict wf sfin))),
               ("reports", jarr (afin.2.map fun e => jarr [jnat e.1, jstr (verdictName e.2)])),
               ("log", jarr (sfin.log.map fun e => jarr [jnat e.1, jarr (e.2.map viewJson)])),
               ("spec", jarr ((comps wf).map fun c => jstr (fin3Name (spec wf c)))),
               ("own", jarr ((comps wf).map fun c => jstr (fin3Name (own wf c)))),
               ("engineReasons", jarr (launches.map fun ls =>
                  jarr ((EngS.reported {} ls).map (jopt (fun r => jstr (reasonName r))))))]

def main : IO Unit := serve handle
