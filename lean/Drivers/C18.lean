import Drivers.Proto
import St4sd.Model.Confine
import St4sd.Model.C18Keys
import St4sd.Model.C18Stagers
/-! Model driver for property C18.

Requests (all paths are strings; the sandbox root is written `/S` by the harness):
* `{"op":"extract","fixed":bool,"dest":"/S/..","fs":[[path,kind,target],..],"members":[[kind,name,target],..]}`
* `{"op":"deploy","fixed":bool,"target":"/S/..","fs":[..],"steps":[{"entries":[[key text,src,method],..],"validate":bool},..]}`
  — a history of deployments into the same target (`deployHistory`, keys as text: `Model/C18Keys.lean`); the answer
  carries `results` (one per deployment) and `result` (the last one)
* `{"op":"stagers","fs":[..],"stagers":[{"dest":..,"members":[..]},{"dest":..,"members":[..]}],"schedule":[0|1,..]}`
  — two extractions interleaved member by member (`runStagers`, `Model/C18Stagers.lean`); the answer carries
  `results` and `logs` (one per stager) and the tree
* `{"op":"copy"|"link","dest":..,"fs":..,"ref":"..","kind":"file"|"dir"}`
Answer: `{"result":"ok"|"rejected"|"os"|"linkMissing","tree":[[path,kind,target],..],"log":[path,..]}` with the tree
restricted to locations reachable by listing (every bound location whose ancestors are directories), sorted.
Extract answers also carry `normpathOk` (= `checkNormpath`: would the textual-normalisation rule for link targets
accept the archive) and `fixedOk` (= `checkFixed`).  With `"fixed":false` the log is the one of `looseExtract`:
unchecked extraction that goes on after a member that could not be extracted — the harness uses it only to
decide whether a case could touch anything outside the sandbox root whatever the code under test accepts.
-/
open Lean Proto St4sd.Confine St4sd.Str

def physOf (s : String) : Path := ((parsePath s.toList).segs.filterMap fun
  | Seg.name n => some n
  | Seg.up => none).reverse

def pathStr (p : Path) : String := "/" ++ String.intercalate "/" (p.reverse.map String.ofList)

def segsStr (a : Bool) (t : List Seg) : String :=
  (if a then "/" else "") ++ String.intercalate "/" (t.map fun
    | Seg.name n => String.ofList n
    | Seg.up => "..")

def parseFs (j : Json) : Except String Fs := do
  let rows ← getArr j "fs"
  rows.mapM fun r => do
    let a ← r.getArr?
    let p ← (a[0]!).getStr?
    let k ← (a[1]!).getStr?
    let t ← (a[2]!).getStr?
    let node := match k with
      | "dir" => Node.dir
      | "file" => Node.file (physOf p)
      | _ => let rp := parsePath t.toList; Node.link rp.abs rp.segs
    return (physOf p, node)

def parseMember (r : Json) : Except String Member := do
  let a ← r.getArr?
  let k ← (a[0]!).getStr?
  let n := parsePath (← (a[1]!).getStr?).toList
  let t := parsePath (← (a[2]!).getStr?).toList
  match k with
  | "file" => return Member.file n
  | "dir" => return Member.dir n
  | "sym" => return Member.sym n t
  | "hard" => return Member.hard n t
  | _ => throw s!"unknown member kind {k}"

def parseEntry (r : Json) : Except String KEntry := do
  let a ← r.getArr?
  let key := (← (a[0]!).getStr?).toList
  let src := (parsePath (← (a[1]!).getStr?).toList).segs
  let m ← (a[2]!).getStr?
  return { key := key, src := src, method := if m == "link" then Method.link else Method.copy }

def parseStep (j : Json) : Except String Deployment := do
  let es ← (← getArr j "entries").mapM parseEntry
  let v ← getBool j "validate"
  return { entries := es, validate := v }

/-- distinct bound locations, first binding wins -/
def keysOf (fs : Fs) : List Path := fs.foldl (fun acc (p, _) => if acc.contains p then acc else p :: acc) []

/-- visible in a recursive listing: all proper ancestors are directories -/
def visible (fs : Fs) : Nat → Path → Bool
  | 0, _ => true
  | _, [] => true
  | f + 1, _ :: par => fs.isDir par && visible fs f par

def treeJson (fs : Fs) : Json :=
  let rows := (keysOf fs).filterMap fun p =>
    if !visible fs 64 p then none else
    match fs.get p with
    | some Node.dir => some (pathStr p, "dir", "")
    | some (Node.file _) => some (pathStr p, "file", "")
    | some (Node.link a t) => some (pathStr p, "link", segsStr a t)
    | none => none
  let sorted := rows.toArray.qsort (fun a b => a.1 < b.1)
  jarr (sorted.toList.map fun (p, k, t) => jarr [jstr p, jstr k, jstr t])

def resStr : Option Err → String
  | none => "ok"
  | some Err.rejected => "rejected"
  | some Err.os => "os"
  | some Err.linkMissing => "linkMissing"
  | some Err.linkConflict => "linkConflict"

def logJson (log : List Path) : Json :=
  jarr (((log.map pathStr).toArray.qsort (· < ·)).toList.eraseDups.map jstr)

def answer (r : St × Option Err) : Json :=
  let res := resStr r.2
  let log := (r.1.log.map pathStr).toArray.qsort (· < ·)
  jobj [("result", jstr res), ("tree", treeJson r.1.fs), ("log", jarr (log.toList.eraseDups.map jstr))]

/-- same name up to `.`/empty components -/
def sameName (a b : RawPath) : Bool := a.abs == b.abs && a.segs == b.segs

def rename (n : RawPath) : Member → Member
  | Member.file _ => Member.file n
  | Member.dir _ => Member.dir n
  | Member.sym _ t => Member.sym n t
  | Member.hard _ t => Member.hard n t

/-- safety over-approximation of what unchecked `extractall` may touch: members in order; a member that fails
is skipped and extraction goes on with the state reached (tarfile reports some link failures without stopping);
for a failed hard link whose target names an earlier member that member is extracted under the link's name
(tarfile's copy-instead-of-link fallback). -/
def looseExtract (dest : Path) : St → List Member → List Member → St
  | st, _, [] => st
  | st, seen, m :: ms =>
    match extractOne dest st m with
    | (st1, none) => looseExtract dest st1 (m :: seen) ms
    | (st1, some _) =>
      let st2 := match m with
        | Member.hard n t =>
          match seen.find? (fun e => sameName e.name t) with
          | some e => (extractOne dest st1 (rename n e)).1
          | none => st1
        | _ => st1
      looseExtract dest st2 (m :: seen) ms

def handle (j : Json) : Except String Json := do
  let op ← getStr j "op"
  let fs ← parseFs j
  match op with
  | "extract" =>
    let dest := physOf (← getStr j "dest")
    let ms ← (← getArr j "members").mapM parseMember
    let fixed ← getBool j "fixed"
    let r := if fixed then stageExtractFixed dest ⟨fs, []⟩ ms else stageExtractOld dest ⟨fs, []⟩ ms
    let r := if !fixed && checkOld dest ms then ({ r.1 with log := (looseExtract dest ⟨fs, []⟩ [] ms).log }, r.2) else r
    return (answer r).mergeObj (jobj [("normpathOk", Json.bool (checkNormpath dest ms)),
                                      ("fixedOk", Json.bool (checkFixed dest ms))])
  | "deploy" =>
    let target := physOf (← getStr j "target")
    let steps ← (← getArr j "steps").mapM parseStep
    let fixed ← getBool j "fixed"
    let r := deployHistory fixed target ⟨fs, []⟩ steps
    return (answer (r.1, r.2.getLast?.getD none)).mergeObj (jobj [("results", jarr (r.2.map fun x => jstr (resStr x)))])
  | "stagers" =>
    let sts ← (← getArr j "stagers").mapM fun sj => do
      let d := physOf (← getStr sj "dest")
      let ms ← (← getArr sj "members").mapM parseMember
      return (d, ms)
    let sched ← (← getArr j "schedule").mapM fun x => do
      let n ← x.getNat?
      return n != 0
    match sts with
    | [(dA, msA), (dB, msB)] =>
      let w := runStagers fs dA dB msA msB sched
      return jobj [("results", jarr [jstr (resStr w.a.res), jstr (resStr w.b.res)]),
                   ("logs", jarr [logJson w.a.log, logJson w.b.log]),
                   ("tree", treeJson w.fs)]
    | _ => throw "stagers: exactly two stagers expected"
  | "copy" =>
    let dest := physOf (← getStr j "dest")
    let ref ← getChars j "ref"
    let kind ← getStr j "kind"
    return answer (stageCopy dest ⟨fs, []⟩ ref (if kind == "dir" then RefKind.dir else RefKind.file))
  | "link" =>
    let dest := physOf (← getStr j "dest")
    let ref ← getChars j "ref"
    return answer (stageLink dest ⟨fs, []⟩ ref)
  | _ => throw s!"unknown op {op}"

def main : IO Unit := serve handle
