import Drivers.Proto
import St4sd.Model.Weights
/-! Model driver for property C20. -/
open Lean Proto St4sd.Weights

def getOptIntList (j : Json) (k : String) : Except String (List (Option Int)) := do
  (← getArr j k).mapM (fun v => match v with
    | Json.null => pure none
    | v => do return some (← v.getInt?))

def parseCtlOp (v : Json) : Except String (Option CtlOp) := do
  let a ← v.getArr?
  let tag ← (a[0]?.getD Json.null).getStr?
  let n (i : Nat) : Except String Nat := (a[i]?.getD Json.null).getNat?
  match tag with
  | "fin" => return some (.fin (← n 1) (← n 2))
  | "grow" => return some (.grow (← n 1) (← n 2))
  | "q" => return none
  | _ => throw s!"unknown controller op {tag}"

/-- runs the history; at every `["q"]` reports (finished, population) of every stage and the total -/
def stageHistory (c : Ctl) (ws : List Int) : List (Option CtlOp) → List Json
  | [] => []
  | none :: r =>
    let n := c.stages.length
    let c' := (List.range n).foldl (fun c k => step c (.query k)) c
    jobj [("stages", jarr ((List.range n).map (fun k =>
              let q := queryStage c k
              jarr [jnat q.1, jnat q.2]))),
          ("D", jint (prodLen c.stages)),
          ("total", jint (totalOfStages c.stages ws))] :: stageHistory c' ws r
  | some o :: r => stageHistory (step c o) ws r

def parseFinal (s : String) : Except String Final :=
  match s with
  | "finished" => pure .finished
  | "shutdown" => pure .shutdown
  | "failed" => pure .failed
  | _ => throw s!"unknown final state {s}"

def parseCOp (v : Json) : Except String (Option COp) := do
  let a ← v.getArr?
  let tag ← (a[0]?.getD Json.null).getStr?
  let n (i : Nat) : Except String Nat := (a[i]?.getD Json.null).getNat?
  match tag with
  | "term" => return some (.term (← n 1) (← n 2) (← parseFinal (← (a[3]?.getD Json.null).getStr?)))
  | "see" => return some (.see (← n 1) (← n 2))
  | "grow" => return some (.grow (← n 1) (← n 2))
  | "stop" => return some (.stop (← n 1))
  | "next" => return some .next
  | "q" => return none
  | _ => throw s!"unknown controller op {tag}"

/-- runs the history on the `comp_done` model; at every `["q"]` reports per stage (FINISHED components,
population), the two stage lists, the current stage and the total -/
def compHistory (c : CState) (ws : List Int) : List (Option COp) → List Json
  | [] => []
  | none :: r =>
    jobj [("stages", jarr (c.stages.map (fun s => jarr [jnat (succCount s), jnat s.length]))),
          ("transit", jarr ((inTransitOf c.stages).map jnat)),
          ("finished", jarr ((finishedOf c.stages).map jnat)),
          ("cur", jnat c.cur),
          ("D", jint (prodLenC c.stages)),
          ("total", jint (compTotal c.cur c.stages ws))] :: compHistory c ws r
  | some o :: r => compHistory (stepC c o) ws r

def handle (j : Json) : Except String Json := do
  let op ← getStr j "op"
  match op with
  | "normalize" =>
    let ws ← getIntList j "ws"
    return jobj [("kept", jbool (proper ws)), ("weights", jarr ((normalize ws).map jint)),
                 ("monitor_keeps", jbool (monitorKeeps (normalize ws)))]
  | "fallback" =>
    let n ← getNat j "n"
    return jobj [("kept", jbool false), ("weights", jarr ((fallback n).map jint)), ("monitor_keeps", jbool true)]
  | "progress" =>
    let ps ← getIntList j "ps"
    let ws ← getIntList j "ws"
    return jobj [("total", jint (progress (ps.zip ws)))]
  | "check" =>
    -- one CheckStatus from what it read: current stage, the two lists, progress per stage (0 = not read)
    let scale ← getInt j "scale"
    let cur ← getNat j "cur"
    let transit ← getNatList j "transit"
    let finished ← getNatList j "finished"
    let ps ← getIntList j "ps"
    let ws ← getIntList j "ws"
    let total := checkTotal scale cur transit finished (readOf ps) ws
    let disjoint := transit.all (fun k => !finished.contains k)
    return jobj [("total", jint total), ("partition", jbool (disjoint && decide (finished.eraseDups.length = finished.length)))]
  | "load" =>
    -- given / missing stage weights: what the loader validates, stores, and what StatusMonitor makes of the report
    let gs ← getOptIntList j "gs"
    return jobj [("kept", jbool (proper (givenUnits gs))), ("weights", jarr ((load gs).map jint)),
                 ("report", jarr ((loadReport gs).map (jopt jint))),
                 ("monitor", jopt (fun l => jarr (l.map jint)) (monitorFromReport (loadReport gs)))]
  | "stagehist" =>
    let pops ← getNatList j "stages"
    let ws ← getIntList j "ws"
    let ops ← (← getArr j "ops").mapM parseCtlOp
    let c : Ctl := ⟨pops.map (fun n => List.replicate n false), pops.map (fun _ => none)⟩
    return jobj [("weights", jarr ((normalize ws).map jint)),
                 ("queries", jarr (stageHistory c (normalize ws) ops))]
  | "comphist" =>
    -- stages: population per stage; `start`: the stages before it completed in an earlier run
    let pops ← getNatList j "stages"
    let start ← getNat j "start"
    let ws ← getIntList j "ws"
    let ops ← (← getArr j "ops").mapM parseCOp
    let stages : List (List Comp) := (List.range pops.length).map (fun k =>
      List.replicate (pops.getD k 0) (if k < start then ⟨some Final.finished, true⟩ else Comp.fresh))
    return jobj [("weights", jarr ((normalize ws).map jint)),
                 ("queries", jarr (compHistory ⟨start, stages⟩ (normalize ws) ops))]
  | "monitor" =>
    let ws ← getIntList j "ws"
    return match monitorWeights ws with
      | some l => jobj [("kept", jbool true), ("weights", jarr (l.map jint))]
      | none => jobj [("kept", jbool false), ("weights", jarr [])]
  | _ => throw s!"unknown op {op}"

def main : IO Unit := serve handle
