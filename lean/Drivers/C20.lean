import Drivers.Proto
import St4sd.Model.Weights
/-! Model driver for property C20. -/
open Lean Proto St4sd.Weights

def handle (j : Json) : Except String Json := do
  let op ← getStr j "op"
  match op with
  | "normalize" =>
    let ws ← getIntList j "ws"
    return jobj [("kept", jbool (proper ws)), ("weights", jarr ((normalize ws).map jint)),
                 ("monitor_keeps", jbool (monitorKeeps (normalize ws)))]
  | "fallback" =>
    let n ← getNat j "n"
    return jobj [("kept", jbool false), ("weights", jarr ((fallback n).map jint)), ("monitor_keeps", jbool true)]
  | "progress" =>
    let ps ← getIntList j "ps"
    let ws ← getIntList j "ws"
    return jobj [("total", jint (progress (ps.zip ws)))]
  | "check" =>
    -- one CheckStatus from what it read: current stage, the two lists, progress per stage (0 = not read)
    let scale ← getInt j "scale"
    let cur ← getNat j "cur"
    let transit ← getNatList j "transit"
    let finished ← getNatList j "finished"
    let ps ← getIntList j "ps"
    let ws ← getIntList j "ws"
    let total := checkTotal scale cur transit finished (readOf ps) ws
    let disjoint := transit.all (fun k => !finished.contains k)
    return jobj [("total", jint total), ("partition", jbool (disjoint && decide (finished.eraseDups.length = finished.length)))]
  | "monitor" =>
    let ws ← getIntList j "ws"
    return match monitorWeights ws with
      | some l => jobj [("kept", jbool true), ("weights", jarr (l.map jint))]
      | none => jobj [("kept", jbool false), ("weights", jarr [])]
  | _ => throw s!"unknown op {op}"

def main : IO Unit := serve handle
