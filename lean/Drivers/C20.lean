import Drivers.Proto
import St4sd.Model.Weights
/-! Model driver for property C20. -/
open Lean Proto St4sd.Weights

def getOptIntList (j : Json) (k : String) : Except String (List (Option Int)) := do
  (← getArr j k).mapM (fun v => match v with
    | Json.null => pure none
    | v => do return some (← v.getInt?))

def parseCtlOp (v : Json) : Except String (Option CtlOp) := do
  let a ← v.getArr?
  let tag ← (a[0]?.getD Json.null).getStr?
  let n (i : Nat) : Except String Nat := (a[i]?.getD Json.null).getNat?
  match tag with
  | "fin" => return some (.fin (← n 1) (← n 2))
  | "grow" => return some (.grow (← n 1) (← n 2))
  | "q" => return none
  | _ => throw s!"unknown controller op {tag}"

/-- runs the history; at every `["q"]` reports (finished, population) of every stage and the total -/
def stageHistory (c : Ctl) (ws : List Int) : List (Option CtlOp) → List Json
  | [] => []
  | none :: r =>
    let n := c.stages.length
    let c' := (List.range n).foldl (fun c k => step c (.query k)) c
    jobj [("stages", jarr ((List.range n).map (fun k =>
              let q := queryStage c k
              jarr [jnat q.1, jnat q.2]))),
          ("D", jint (prodLen c.stages)),
          ("total", jint (totalOfStages c.stages ws))] :: stageHistory c' ws r
  | some o :: r => stageHistory (step c o) ws r

def handle (j : Json) : Except String Json := do
  let op ← getStr j "op"
  match op with
  | "normalize" =>
    let ws ← getIntList j "ws"
    return jobj [("kept", jbool (proper ws)), ("weights", jarr ((normalize ws).map jint)),
                 ("monitor_keeps", jbool (monitorKeeps (normalize ws)))]
  | "fallback" =>
    let n ← getNat j "n"
    return jobj [("kept", jbool false), ("weights", jarr ((fallback n).map jint)), ("monitor_keeps", jbool true)]
  | "progress" =>
    let ps ← getIntList j "ps"
    let ws ← getIntList j "ws"
    return jobj [("total", jint (progress (ps.zip ws)))]
  | "check" =>
    -- one CheckStatus from what it read: current stage, the two lists, progress per stage (0 = not read)
    let scale ← getInt j "scale"
    let cur ← getNat j "cur"
    let transit ← getNatList j "transit"
    let finished ← getNatList j "finished"
    let ps ← getIntList j "ps"
    let ws ← getIntList j "ws"
    let total := checkTotal scale cur transit finished (readOf ps) ws
    let disjoint := transit.all (fun k => !finished.contains k)
    return jobj [("total", jint total), ("partition", jbool (disjoint && decide (finished.eraseDups.length = finished.length)))]
  | "load" =>
    -- given / missing stage weights: what the loader validates, stores, and what StatusMonitor makes of the report
    let gs ← getOptIntList j "gs"
    return jobj [("kept", jbool (proper (givenUnits gs))), ("weights", jarr ((load gs).map jint)),
                 ("report", jarr ((loadReport gs).map (jopt jint))),
                 ("monitor", jopt (fun l => jarr (l.map jint)) (monitorFromReport (loadReport gs)))]
  | "stagehist" =>
    let pops ← getNatList j "stages"
    let ws ← getIntList j "ws"
    let ops ← (← getArr j "ops").mapM parseCtlOp
    let c : Ctl := ⟨pops.map (fun n => List.replicate n false), pops.map (fun _ => none)⟩
    return jobj [("weights", jarr ((normalize ws).map jint)),
                 ("queries", jarr (stageHistory c (normalize ws) ops))]
  | "monitor" =>
    let ws ← getIntList j "ws"
    return match monitorWeights ws with
      | some l => jobj [("kept", jbool true), ("weights", jarr (l.map jint))]
      | none => jobj [("kept", jbool false), ("weights", jarr [])]
  | _ => throw s!"unknown op {op}"

def main : IO Unit := serve handle
