import Drivers.Proto
import St4sd.Model.Weights
/-! Model driver for property C20. -/
open Lean Proto St4sd.Weights

def handle (j : Json) : Except String Json := do
  let op ← getStr j "op"
  match op with
  | "normalize" =>
    let ws ← getIntList j "ws"
    return jobj [("kept", jbool (proper ws)), ("weights", jarr ((normalize ws).map jint)),
                 ("monitor_keeps", jbool (monitorKeeps (normalize ws)))]
  | "fallback" =>
    let n ← getNat j "n"
    return jobj [("kept", jbool false), ("weights", jarr ((fallback n).map jint)), ("monitor_keeps", jbool true)]
  | "progress" =>
    let ps ← getIntList j "ps"
    let ws ← getIntList j "ws"
    return jobj [("total", jint (progress (ps.zip ws)))]
  | _ => throw s!"unknown op {op}"

def main : IO Unit := serve handle
