import Drivers.Proto
import St4sd.Model.Layer
import St4sd.Model.DslLoad
import St4sd.Model.C15Stages
/-! Model driver for property C15.

ops
* `{"op":"layer","files":[[[sec,name,value],...],...],"order":[i,...],"queries":[[stage,name],...]}`
  (`sec` = -1 for the global section, otherwise the stage index; `order` = the list of variable
  files as given by the user, as indices into `files`, may repeat)
  → `{"vars":[[sec,name,value],...],"effective":[value|null,...],"dedup":[i,...]}`
* `{"op":"serialize","tree":T}` with `T = {"p":str} | {"d":[[key,T],...]} | {"l":[str,...]}`
  → `{"buf":str}`
* `{"op":"dsl","steps":[str,...],"envs":[null | [[key, value|null],...],...]}` — the component instances of a
  DSL 2.0 namespace in visiting order: step names, and environments with their entries in insertion order
  (values already `str()`-ed, `null` = `None`)
  → `{"names":[[stage,name] | "invalid" | "fuel",...],"envs":[null | "none" | "env<i>",...],
     "registered":[["env<i>",[[key,value|null],...]],...]}`
* `{"op":"stages","listing":[[index,is_instance_flavour,name],...],"is_instance":bool,"upto":n}` — the files of
  conf/stages.d matching `stage*.conf` in the order the listing returned them
  → `{"stages":[name|null,...]}` (for the stage indices 0..n-1)
-/
open Lean Proto St4sd.Layer St4sd.Assoc St4sd.DslLoad

def secOf (i : Int) : Option Nat := if i < 0 then none else some i.toNat
def secJson : Option Nat → Json
  | none => jint (-1)
  | some n => jnat n

def parseEntry (j : Json) : Except String (VKey × St4sd.Str.S) := do
  let a ← j.getArr?
  if a.size != 3 then throw "entry must be [sec,name,value]"
  let sec ← a[0]!.getInt?
  let name ← a[1]!.getStr?
  let value ← a[2]!.getStr?
  return ((secOf sec, name.toList), value.toList)

partial def parseTree (j : Json) : Except String Tree := do
  match j.getObjVal? "p" with
  | .ok v => return .prim (← v.getStr?).toList
  | .error _ =>
  match j.getObjVal? "d" with
  | .ok v =>
    let es ← (← v.getArr?).toList.mapM (fun e => do
      let a ← e.getArr?
      if a.size != 2 then throw "dict entry must be [key,tree]"
      let k ← a[0]!.getStr?
      let t ← parseTree a[1]!
      return (k.toList, t))
    return ofEntries es
  | .error _ =>
  match j.getObjVal? "l" with
  | .ok v =>
    let xs ← (← v.getArr?).toList.mapM (fun e => do return (← e.getStr?).toList)
    return ofItems xs
  | .error _ => throw "tree must be {p}|{d}|{l}"

def parseEnv (j : Json) : Except String CEnv := do
  match j with
  | Json.null => return .unset
  | _ =>
    let es ← (← j.getArr?).toList.mapM (fun e => do
      let a ← e.getArr?
      if a.size != 2 then throw "environment entry must be [key,value|null]"
      let k ← a[0]!.getStr?
      match a[1]! with
      | Json.null => return (k.toList, none)
      | v => return (k.toList, some (← v.getStr?).toList))
    return .dict es

def envEntries (e : Env) : Json :=
  jarr (e.map fun kv => jarr [jchars kv.1, jopt jchars kv.2])

def envNameJson : EnvName → Json
  | .null => Json.null
  | .noneLit => jstr "none"
  | .env i => jstr s!"env{i}"

def nameResJson : NameRes → Json
  | .named st n => jarr [jnat st, jchars n]
  | .invalid => jstr "invalid"
  | .fuelOut => jstr "fuel"

def handle (j : Json) : Except String Json := do
  let op ← getStr j "op"
  match op with
  | "layer" =>
    let files ← (← getArr j "files").mapM (fun f => do (← f.getArr?).toList.mapM parseEntry)
    let order ← getNatList j "order"
    let content : Nat → Vars := fun i => files.getD i []
    let vars := loadVars content order
    let qs ← (← getArr j "queries").mapM (fun q => do
      let a ← q.getArr?
      if a.size != 2 then throw "query must be [stage,name]"
      return ((← a[0]!.getNat?), (← a[1]!.getStr?).toList))
    return jobj [
      ("vars", jarr (vars.map fun kv => jarr [secJson kv.1.1, jchars kv.1.2, jchars kv.2])),
      ("effective", jarr (qs.map fun q => jopt jchars (effective vars q.1 q.2))),
      ("dedup", jarr ((dedupKeepLast order).map jnat))]
  | "serialize" =>
    let t ← parseTree (← j.getObjVal? "tree")
    return jobj [("buf", jchars (serialize t))]
  | "dsl" =>
    let steps ← getCharsList j "steps"
    let envs ← (← getArr j "envs").mapM parseEnv
    return jobj [
      ("names", jarr ((assignNames [] steps).map nameResJson)),
      ("envs", jarr ((assignEnvs [] envs).map envNameJson)),
      ("registered", jarr ((registered [] envs).map fun p => jarr [jstr s!"env{p.1}", envEntries p.2]))]
  | "stages" =>
    let listing ← (← getArr j "listing").mapM (fun e => do
      let a ← e.getArr?
      if a.size != 3 then throw "listing entry must be [index,is_instance,name]"
      return ({ idx := (← a[0]!.getNat?), inst := (← a[1]!.getBool?), name := (← a[2]!.getStr?) }
              : St4sd.C15Stages.Entry))
    let isInst ← getBool j "is_instance"
    let upto ← (← j.getObjVal? "upto").getNat?
    return jobj [("stages", jarr ((List.range upto).map fun i =>
      match St4sd.C15Stages.discover isInst listing i with
      | some n => jstr n
      | none => Json.null))]
  | _ => throw s!"unknown op {op}"

def main : IO Unit := serve handle
