import Drivers.Proto
import St4sd.Model.Env
import St4sd.Model.C17Vars
import St4sd.Model.C17Scalar
/-! Model driver for property C17.

ops
* `{"op":"node","sys":D,"envs":[[platform,[[envname,D],...]],...],"platform":str,"launch":D,
    "name":str|null,"interp":bool}` → `{"ok":D}` | `{"error":"unknownEnv"}`   (`environmentForNode`)
* `{"op":"withname", ... same ..., "expand":bool,"remove":bool}`               (`environmentWithName`)
* `{"op":"subst","kind":"T"|"E","map":D,"s":str}` → `{"out":str}`  (`Template.safe_substitute` / `expandvars`)
* `{"op":"session","sys":D,"envs":…,"platform":str,"launch":D,"calls":[C,...]}` → `{"answers":[A,...]}`:
  one configuration object serves the calls one after the other (`runCalls`, the state is threaded through `step`);
  `C` = `{"op":"node","name":str|null,"interp":bool}` | `{"op":"withname","name":…,"expand":bool,"remove":bool}`
  | `{"op":"default"}` | `{"op":"mutate","edits":D}`; `A` = `{"ok":D}` | `{"error":…}` | `null` (mutate)
`node`, `withname` and `session` take an optional `"primitive":bool` (default true); when false the object reads
the instance document of the platform (`instEnvs`, `FlowIRConcrete.instance` through `replicate()`); with
`"reload":true` in addition the instance document was stored and loaded again (instance directory).
`node`, `withname` and `session` take an optional `"vars":[[platform,D],...]` (global variables per platform): when
present the values may contain `%(name)s` references and the answer is computed by `Model/C17Vars.lean`
(`envForNodeV` / `runCallsV` on `confDoc`); `{"error":"unknownVar"}` = `FlowIRVariableUnknown`.
`subst` kind `"V"`: every `%(name)s` whose name is in the map replaced, the others kept (`tokV`).
`D` = `[[key,value],...]`.  Environment names in `envs` are spelled as in the document
(the model lower-cases them like `FlowIR.from_dict`).
The values inside `envs` and `vars` are typed scalars (`Model/C17Scalar.lean`): a JSON string, an integer number,
`true`/`false`, `null`, or `{"float": "<text of str(value)>"}`; the model converts them with `Scalar.text`
(`env_value_to_string`).  `sys`, `launch`, `map`, `edits` are texts.
-/
open Lean Proto St4sd.Env St4sd.Assoc

def parseDict (j : Json) : Except String Dict := do
  (← j.getArr?).toList.mapM (fun e => do
    let a ← e.getArr?
    if a.size != 2 then throw "dict entry must be [key,value]"
    return ((← a[0]!.getStr?).toList, (← a[1]!.getStr?).toList))

def parseScalar (j : Json) : Except String Scalar :=
  match j with
  | .null => return .null
  | .bool b => return .bool b
  | .str s => return .str s.toList
  | .num _ => return .int (← j.getInt?)
  | .obj _ => do return .float (← (← j.getObjVal? "float").getStr?).toList
  | _ => throw "scalar expected"

def parseTDict (j : Json) : Except String TDict := do
  (← j.getArr?).toList.mapM (fun e => do
    let a ← e.getArr?
    if a.size != 2 then throw "dict entry must be [key,value]"
    return ((← a[0]!.getStr?).toList, (← parseScalar a[1]!)))

def parseTEnvs (j : Json) : Except String TEnvs := do
  (← j.getArr?).toList.mapM (fun pe => do
    let a ← pe.getArr?
    if a.size != 2 then throw "platform entry must be [platform, envs]"
    let envs ← (← a[1]!.getArr?).toList.mapM (fun ne => do
      let b ← ne.getArr?
      if b.size != 2 then throw "env entry must be [name, dict]"
      return ((← b[0]!.getStr?).toList, (← parseTDict b[1]!)))
    return ((← a[0]!.getStr?).toList, envs))

/-- the text document of the typed `envs` of a request -/
def parseEnvs (j : Json) : Except String Envs := do return textEnvs (← parseTEnvs j)

/-- first occurrence of every key (association lists may shadow) -/
def dedupe (d : Dict) : Dict :=
  (d.foldl (fun (acc : Dict × List St4sd.Str.S) kv =>
    if acc.2.contains kv.1 then acc else (kv :: acc.1, kv.1 :: acc.2)) ([], [])).1.reverse

def dictJson (d : Dict) : Json := jarr ((dedupe d).map fun kv => jarr [jchars kv.1, jchars kv.2])

def resJson : Except Err Dict → Json
  | .ok d => jobj [("ok", dictJson d)]
  | .error .unknownEnv => jobj [("error", jstr "unknownEnv")]

def resJsonV : Except ErrV Dict → Json
  | .ok d => jobj [("ok", dictJson d)]
  | .error (.env .unknownEnv) => jobj [("error", jstr "unknownEnv")]
  | .error .unknownVar => jobj [("error", jstr "unknownVar")]

def parseVars (j : Json) : Except String Vars := do
  (← j.getArr?).toList.mapM (fun pe => do
    let a ← pe.getArr?
    if a.size != 2 then throw "vars entry must be [platform, dict]"
    return ((← a[0]!.getStr?).toList, textDict (← parseTDict a[1]!)))

def getVars? (j : Json) : Except String (Option Vars) :=
  match j.getObjVal? "vars" with
  | .ok Json.null => return none
  | .ok v => return some (← parseVars v)
  | .error _ => return none

def getPrimitive (j : Json) : Bool :=
  match j.getObjVal? "primitive" with
  | .ok (Json.bool b) => b
  | _ => true

def getReload (j : Json) : Bool :=
  match j.getObjVal? "reload" with
  | .ok (Json.bool b) => b
  | _ => false

def parseCall (j : Json) : Except String Call := do
  let op ← getStr j "op"
  match op with
  | "node" => return .node ((← getOptStr j "name").map String.toList) (← getBool j "interp")
  | "withname" =>
    return .withName ((← getOptStr j "name").map String.toList) (← getBool j "expand") (← getBool j "remove")
  | "default" => return .dflt
  | "mutate" => return .mutate (← parseDict (← j.getObjVal? "edits"))
  | _ => throw s!"unknown call {op}"

def ansJson : Ans → Json
  | .env r => resJson r
  | .unit => Json.null

def ansJsonV : AnsV → Json
  | .env r => resJsonV r
  | .unit => Json.null

def handle (j : Json) : Except String Json := do
  let op ← getStr j "op"
  match op with
  | "session" =>
    let sys ← parseDict (← j.getObjVal? "sys")
    let plat ← getChars j "platform"
    let launch ← parseDict (← j.getObjVal? "launch")
    let calls ← (← getArr j "calls").mapM parseCall
    if let some vars := (← getVars? j) then
      let doc := confDoc ⟨loadEnvs (← parseEnvs (← j.getObjVal? "envs")), vars⟩ plat (getPrimitive j) (getReload j)
      return jobj [("answers", jarr ((runCallsV launch ⟨sys, doc, plat, getPrimitive j⟩ calls).map ansJsonV))]
    let envs := confEnvs (loadEnvs (← parseEnvs (← j.getObjVal? "envs"))) plat (getPrimitive j) (getReload j)
    return jobj [("answers", jarr ((runCalls launch ⟨sys, envs, plat⟩ calls).map ansJson))]
  | "node" | "withname" =>
    let sys ← parseDict (← j.getObjVal? "sys")
    let plat ← getChars j "platform"
    let envs := confEnvs (loadEnvs (← parseEnvs (← j.getObjVal? "envs"))) plat (getPrimitive j) (getReload j)
    let launch ← parseDict (← j.getObjVal? "launch")
    let name := (← getOptStr j "name").map String.toList
    if let some vars := (← getVars? j) then
      let doc := confDoc ⟨loadEnvs (← parseEnvs (← j.getObjVal? "envs")), vars⟩ plat (getPrimitive j) (getReload j)
      if op == "node" then
        return resJsonV (envForNodeV sys doc plat launch name (← getBool j "interp") (getPrimitive j))
      else
        return resJson (envWithName sys doc.envs plat launch name (← getBool j "expand") (← getBool j "remove"))
    if op == "node" then
      let interp ← getBool j "interp"
      return resJson (envForNode sys envs plat launch name interp)
    else
      let expand ← getBool j "expand"
      let remove ← getBool j "remove"
      return resJson (envWithName sys envs plat launch name expand remove)
  | "subst" =>
    let kind ← getStr j "kind"
    let m ← parseDict (← j.getObjVal? "map")
    let s ← getChars j "s"
    let out := if kind == "T" then substT (dget m) s
      else if kind == "V" then render (dget m) (tokV .normal s) else expandvars (dget m) s
    return jobj [("out", jchars out)]
  | _ => throw s!"unknown op {op}"

def main : IO Unit := serve handle
