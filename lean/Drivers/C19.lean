import Drivers.Proto
import St4sd.Model.Ini
import St4sd.Model.IniNames
import St4sd.Gen.C19
/-! Model driver for property C19 (legacy-format translation of one component). -/
open Lean Proto St4sd.Ini

def valOfJson (j : Json) : Except String Val :=
  match j with
  | Json.null => pure Val.none
  | _ =>
    match j.getObjVal? "s" with
    | .ok v => do return Val.str (← v.getStr?).toList
    | .error _ =>
    match j.getObjVal? "b" with
    | .ok v => do return Val.bool (← v.getBool?)
    | .error _ =>
    match j.getObjVal? "i" with
    | .ok v => do return Val.int (← v.getInt?)
    | .error _ =>
    match j.getObjVal? "f" with
    | .ok v => do return Val.float (← v.getStr?).toList
    | .error _ =>
    match j.getObjVal? "w" with
    | .ok v => do
      let a ← v.getArr?
      let ws ← a.toList.mapM (·.getStr?)
      return Val.words (ws.map String.toList)
    | .error _ => throw "bad value"

def jsonOfVal : Val → Json
  | .none => Json.null
  | .str s => jobj [("s", jchars s)]
  | .bool b => jobj [("b", jbool b)]
  | .int n => jobj [("i", jint n)]
  | .float l => jobj [("f", jchars l)]
  | .words ws => jobj [("w", jarr (ws.map jchars))]

def pairOfJson (j : Json) : Except String (Path × Val) := do
  let p ← getCharsList j "p"
  let v ← j.getObjVal? "v"
  return (p, ← valOfJson v)

def jsonOfPair (pv : Path × Val) : Json := jobj [("p", jarr (pv.1.map jchars)), ("v", jsonOfVal pv.2)]

def iniOfJson (j : Json) : Except String (St4sd.Str.S × St4sd.Str.S) := do
  return ((← getStr j "k").toList, (← getStr j "t").toList)

open St4sd.Gen.C19 in
def handle (j : Json) : Except String Json := do
  let op ← getStr j "op"
  match op with
  | "component" =>
    let c ← (← getArr j "opts").mapM pairOfJson
    let ini := dumpSection dumpTable passthrough c
    let back := parseSection parseTable knownKeys ini
    let normed := back.map fun l => l.map fun (p, v) =>
      match (dumpTable.find? fun e => e.path = p) with
      | some e => (match parserFor parseTable e.key p with
        | some pa => (p, norm pa v)
        | none => (p, v))
      | none => (p, v)
    return jobj [("ini", jarr (ini.map fun (k, t) => jobj [("k", jchars k), ("t", jchars t)])),
                 ("parsed", jopt (fun l => jarr (l.map jsonOfPair)) back),
                 ("normed", jopt (fun l => jarr (l.map jsonOfPair)) normed)]
  | "parse" =>
    let ini ← (← getArr j "ini").mapM iniOfJson
    return jobj [("parsed", jopt (fun l => jarr (l.map jsonOfPair)) (parseSection parseTable knownKeys ini))]
  | "env_name" =>
    -- environment name -> section written -> name read back
    let n := (← getStr j "name").toList
    let sec := St4sd.IniNames.envSection n
    return jobj [("section", jchars sec), ("back", jopt jchars (St4sd.IniNames.envName sec))]
  | "env_section" =>
    let sec := (← getStr j "section").toList
    return jobj [("back", jopt jchars (St4sd.IniNames.envName sec))]
  | "stage_names" =>
    let i ← getNat j "i"
    let sec := St4sd.IniNames.stageSection i
    let fn := St4sd.IniNames.stageFile i
    return jobj [("section", jchars sec), ("section_back", jopt jnat (St4sd.IniNames.stageIndex sec)),
                 ("file", jchars fn), ("file_back", jopt jnat (St4sd.IniNames.stageFileIndex fn))]
  | "output_stages" =>
    let l ← getNatList j "l"
    let t := St4sd.IniNames.outputStages l
    return jobj [("text", jchars t), ("back", jopt (fun r => jarr (r.map jnat)) (St4sd.IniNames.parseOutputStages t))]
  | "output_stages_text" =>
    let t := (← getStr j "text").toList
    return jobj [("back", jopt (fun r => jarr (r.map jnat)) (St4sd.IniNames.parseOutputStages t))]
  | "agree" =>
    return jobj [("bad", jarr ((dumpTable.filter fun e => !agrees parseTable knownKeys e).map fun e => jchars e.key))]
  | _ => throw s!"unknown op {op}"

def main : IO Unit := serve handle
