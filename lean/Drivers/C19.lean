import Drivers.Proto
import St4sd.Model.Ini
import St4sd.Model.IniNames
import St4sd.Model.IniFloat
import St4sd.Model.IniProc
import St4sd.Model.IniDir
import St4sd.Gen.C19
/-! Model driver for property C19 (legacy-format translation of one component). -/
open Lean Proto St4sd.Ini

def valOfJson (j : Json) : Except String Val :=
  match j with
  | Json.null => pure Val.none
  | _ =>
    match j.getObjVal? "s" with
    | .ok v => do return Val.str (← v.getStr?).toList
    | .error _ =>
    match j.getObjVal? "b" with
    | .ok v => do return Val.bool (← v.getBool?)
    | .error _ =>
    match j.getObjVal? "i" with
    | .ok v => do return Val.int (← v.getInt?)
    | .error _ =>
    match j.getObjVal? "f" with
    | .ok v => do return Val.float (← v.getStr?).toList
    | .error _ =>
    match j.getObjVal? "w" with
    | .ok v => do
      let a ← v.getArr?
      let ws ← a.toList.mapM (·.getStr?)
      return Val.words (ws.map String.toList)
    | .error _ => throw "bad value"

def jsonOfVal : Val → Json
  | .none => Json.null
  | .str s => jobj [("s", jchars s)]
  | .bool b => jobj [("b", jbool b)]
  | .int n => jobj [("i", jint n)]
  | .float l => jobj [("f", jchars l)]
  | .words ws => jobj [("w", jarr (ws.map jchars))]

def pairOfJson (j : Json) : Except String (Path × Val) := do
  let p ← getCharsList j "p"
  let v ← j.getObjVal? "v"
  return (p, ← valOfJson v)

def jsonOfPair (pv : Path × Val) : Json := jobj [("p", jarr (pv.1.map jchars)), ("v", jsonOfVal pv.2)]

def iniOfJson (j : Json) : Except String (St4sd.Str.S × St4sd.Str.S) := do
  return ((← getStr j "k").toList, (← getStr j "t").toList)


/-! status section (`Model/IniFloat.lean`): float fields travel as their literal text -/
section Status
open St4sd.IniFloat

def jsonOfStage (st : Stage) : Json :=
  jobj [("i", jnat st.index), ("w", jopt (fun w => jchars (printWeight w)) st.weight),
        ("exe", jopt (fun e => jobj [("executable", jchars e.executable), ("arguments", jchars e.arguments),
                                      ("references", jarr (e.references.map jchars))]) st.exe)]

def stageOfJson (j : Json) : Except String Stage := do
  let i ← getNat j "i"
  let w ← match ← getOptStr j "w" with
    | none => pure none
    | some t => match parseWeight t.toList with
      | some l => pure (some l)
      | none => throw s!"not a decimal literal: {t}"
  let e ← match j.getObjVal? "exe" with
    | .ok Json.null => pure none
    | .error _ => pure none
    | .ok x => do
      pure (some (⟨← getChars x "executable", ← getChars x "arguments", ← getCharsList x "references"⟩ : Exe))
  return ⟨i, w, e⟩

def jsonOfSection (sec : St4sd.Str.S × List (St4sd.Str.S × St4sd.Str.S)) : Json :=
  jobj [("name", jchars sec.1), ("lines", jarr (sec.2.map fun (k, t) => jobj [("k", jchars k), ("t", jchars t)]))]

def sectionOfJson (j : Json) : Except String (St4sd.Str.S × List (St4sd.Str.S × St4sd.Str.S)) := do
  return (← getChars j "name", ← (← getArr j "lines").mapM iniOfJson)

end Status

open St4sd.Gen.C19 in
def handle (j : Json) : Except String Json := do
  let op ← getStr j "op"
  match op with
  | "component" =>
    let c ← (← getArr j "opts").mapM pairOfJson
    let ini := dumpSection dumpTable passthrough c
    let back := parseSection parseTable knownKeys ini
    let normed := back.map fun l => l.map fun (p, v) =>
      match (dumpTable.find? fun e => e.path = p) with
      | some e => (match parserFor parseTable e.key p with
        | some pa => (p, norm pa v)
        | none => (p, v))
      | none => (p, v)
    return jobj [("ini", jarr (ini.map fun (k, t) => jobj [("k", jchars k), ("t", jchars t)])),
                 ("parsed", jopt (fun l => jarr (l.map jsonOfPair)) back),
                 ("normed", jopt (fun l => jarr (l.map jsonOfPair)) normed)]
  | "parse" =>
    let ini ← (← getArr j "ini").mapM iniOfJson
    return jobj [("parsed", jopt (fun l => jarr (l.map jsonOfPair)) (parseSection parseTable knownKeys ini))]
  | "env_name" =>
    -- environment name -> section written -> name read back
    let n := (← getStr j "name").toList
    let sec := St4sd.IniNames.envSection n
    return jobj [("section", jchars sec), ("back", jopt jchars (St4sd.IniNames.envName sec))]
  | "env_section" =>
    let sec := (← getStr j "section").toList
    return jobj [("back", jopt jchars (St4sd.IniNames.envName sec))]
  | "stage_names" =>
    let i ← getNat j "i"
    let sec := St4sd.IniNames.stageSection i
    let fn := St4sd.IniNames.stageFile i
    return jobj [("section", jchars sec), ("section_back", jopt jnat (St4sd.IniNames.stageIndex sec)),
                 ("file", jchars fn), ("file_back", jopt jnat (St4sd.IniNames.stageFileIndex fn))]
  | "output_stages" =>
    let l ← getNatList j "l"
    let t := St4sd.IniNames.outputStages l
    return jobj [("text", jchars t), ("back", jopt (fun r => jarr (r.map jnat)) (St4sd.IniNames.parseOutputStages t))]
  | "output_stages_text" =>
    let t := (← getStr j "text").toList
    return jobj [("back", jopt (fun r => jarr (r.map jnat)) (St4sd.IniNames.parseOutputStages t))]
  | "weight" =>
    -- literal of a number (repr on the Python side) -> text written by `str(value)` -> literal read back
    let t := (← getStr j "lit").toList
    match St4sd.IniFloat.parseWeight t with
    | none => return jobj [("parsed", jbool false)]
    | some w =>
      let text := St4sd.IniFloat.printWeight w
      let back := St4sd.IniFloat.parseWeight text
      return jobj [("parsed", jbool true), ("canonical", jbool (St4sd.IniFloat.canonical w)), ("text", jchars text),
                   ("back", jopt (fun b => jchars (St4sd.IniFloat.printWeight b)) back),
                   ("same", jbool (back == some w))]
  | "status" =>
    -- a whole status section: stages -> STAGE<i> sections -> stages read back
    let l ← (← getArr j "stages").mapM stageOfJson
    let secs := St4sd.IniFloat.dumpStatus l
    let back := St4sd.IniFloat.parseStatus secs
    return jobj [("ok", jbool (l.all St4sd.IniFloat.stageOk)), ("sections", jarr (secs.map jsonOfSection)),
                 ("back", jopt (fun r => jarr (r.map jsonOfStage)) back), ("same", jbool (back == some l))]
  | "status_text" =>
    let secs ← (← getArr j "sections").mapM sectionOfJson
    return jobj [("back", jopt (fun r => jarr (r.map jsonOfStage)) (St4sd.IniFloat.parseStatus secs))]
  | "parse_seq" =>
    -- the sections of one process, in the order they are read: each parsed by the reader in the state the earlier
    -- ones left; the answer of known_flowir_options() afterwards
    let secs ← (← getArr j "sections").mapM fun sj => do (← sj.getArr?).toList.mapM iniOfJson
    let r := St4sd.IniProc.parseSeq false parseTable backendTable ⟨knownKeys⟩ secs
    return jobj [("parsed", jarr (r.2.map fun o => jopt (fun l => jarr (l.map jsonOfPair)) o)),
                 ("known", jarr (r.1.known.map jchars))]
  | "dir_history" =>
    -- a history of dumps into one directory: [{"instance": bool, "stages": [stage indices of the description]}];
    -- the stage files of both flavours after every dump and what a load of each flavour discovers at the end
    let hist ← (← getArr j "history").mapM fun h => do
      let st ← getNatList h "stages"
      return ((← getBool h "instance"), st.map fun i => (i, i))
    let mut d : St4sd.IniDir.Dir Nat := ⟨[], []⟩
    let mut out : Array Json := #[]
    for h in hist do
      d := St4sd.IniDir.dump d h.1 h.2
      out := out.push (jobj [("inst", jarr (d.inst.map fun e => jnat e.1)), ("pkg", jarr (d.pkg.map fun e => jnat e.1))])
    return jobj [("after", Json.arr out),
                 ("discover_inst", jopt (fun l => jarr (l.map jnat)) (St4sd.IniDir.discover d.inst)),
                 ("discover_pkg", jopt (fun l => jarr (l.map jnat)) (St4sd.IniDir.discover d.pkg))]
  | "agree" =>
    return jobj [("bad", jarr ((dumpTable.filter fun e => !agrees parseTable knownKeys e).map fun e => jchars e.key))]
  | _ => throw s!"unknown op {op}"

def main : IO Unit := serve handle
