import Drivers.Proto
import St4sd.Model.Repl
import St4sd.Model.ReplVars
import St4sd.Model.ReplConf
import St4sd.Model.ReplOver
/-! Model driver for property C03: `expand` = resolution of the replicate/aggregate attributes in the scope
chain of every component (`ReplVars.resolveAll`), then graph-level and text-level expansion of one workflow. -/
open Lean Proto St4sd.Repl St4sd.Str

def getOptNat (j : Json) (k : String) : Except String (Option Nat) :=
  match j.getObjVal? k with
  | .ok Json.null => pure none
  | .ok v => do return some (← v.getNat?)
  | .error _ => pure none

def parseRef (j : Json) : Except String Ref := do
  let isComp ← getBool j "comp"
  if isComp then
    let file ← getOptStr j "file"
    return { isComp := true, stage := ← getNat j "stage", long := ← getBool j "long", name := ← getChars j "name",
             file := file.map String.toList, method := ← getChars j "method" }
  else
    return { isComp := false, stage := 0, long := false, name := ← getChars j "text", file := none, method := [] }

def parsePairs (l : List Json) : Except String Vars :=
  l.mapM fun e => do
    match (← e.getArr?).toList with
    | [k, v] => return ((← k.getStr?).toList, (← v.getStr?).toList)
    | _ => throw "pair expected"

def getVars (j : Json) (k : String) : Except String Vars :=
  match j.getObjVal? k with
  | .ok Json.null => pure []
  | .ok v => do parsePairs (← v.getArr?).toList
  | .error _ => pure []

/-- `null` | `{"lit": text}` | `{"var": name}` -/
def getSpec (j : Json) (k : String) : Except String Spec :=
  match j.getObjVal? k with
  | .ok Json.null => pure .absent
  | .error _ => pure .absent
  | .ok v =>
    match v.getObjVal? "var" with
    | .ok n => do return .var (← n.getStr?).toList
    | .error _ => do return .lit (← getChars v "lit")

def jvars (v : Vars) : Json :=
  jarr ((normVars v).map fun kv => jarr [jchars kv.1, jchars kv.2])

def errKind : Err → String
  | .unknown => "unknown" | .inconsistent => "inconsistent" | .duplicate => "duplicate"

def parseRaw (j : Json) : Except String (Raw × S) := do
  let refs ← (← getArr j "refs").mapM parseRef
  return ({ stage := ← getNat j "stage", name := ← getChars j "name", refs := refs, vars := ← getVars j "vars",
            replicate := ← getSpec j "repl", aggregate := ← getSpec j "agg" }, ← getChars j "args")

def parseStageVars (j : Json) : Except String (List (Nat × Vars)) :=
  match j.getObjVal? "svars" with
  | .ok Json.null => pure []
  | .error _ => pure []
  | .ok v => do
    (← v.getArr?).toList.mapM fun e => do
      match (← e.getArr?).toList with
      | [i, ps] => return (← i.getNat?, ← parsePairs (← ps.getArr?).toList)
      | _ => throw "stage scope expected"

/-- `null` | the block `override.<platform>` of a component: (structured part, restated command line) -/
def parseOver (j : Json) : Except String (Option (Over × Option S)) :=
  match j.getObjVal? "over" with
  | .ok Json.null => pure none
  | .error _ => pure none
  | .ok o => do
    let refs ← match o.getObjVal? "refs" with
      | .ok Json.null => pure none
      | .error _ => pure none
      | .ok v => do
        let l ← (← v.getArr?).toList.mapM parseRef
        pure (some l)
    let args ← getOptStr o "args"
    return some ({ refs := refs, vars := ← getVars o "vars", replicate := ← getSpec o "repl",
                   aggregate := ← getSpec o "agg" }, args.map String.toList)

/-- a parsed component: as written, its block for the platform, and what `instance(platform)` makes of both -/
structure PComp where
  raw : Raw
  args : S
  over : Option (Over × Option S)

def PComp.eff (c : PComp) : Raw := layerRaw c.raw (c.over.map (·.1))
def PComp.effArgs (c : PComp) : S := ((c.over.bind (·.2)).getD c.args)
def PComp.baseT (c : PComp) : TBlock := ⟨some (c.raw.refs.map render), some c.args, c.raw.vars⟩
def PComp.overT (c : PComp) : TBlock :=
  match c.over with
  | none => noOver
  | some (o, a) => ⟨o.refs.map (·.map render), a, o.vars⟩

/-- the scopes of the platform: (global, stage ↦ variables) -/
def parseScopes (j : Json) : Except String (Vars × (Nat → Vars)) := do
  let dg ← getVars j "gvars"
  let ds ← parseStageVars j
  let pg ← getVars j "pgvars"
  let ps ← match j.getObjVal? "psvars" with
    | .ok Json.null => pure []
    | .error _ => pure []
    | .ok v => do
      (← v.getArr?).toList.mapM fun e => do
        match (← e.getArr?).toList with
        | [i, ps] => return (← i.getNat?, ← parsePairs (← ps.getArr?).toList)
        | _ => throw "stage scope expected"
  return (platGlobal dg pg, fun i => platStage (stageVars ds i) (stageVars ps i) pg)

/-- the resolved (effective) components with their command lines, or the kind of the resolution error -/
def parseComps (j : Json) : Except String (List PComp × (Except RErr (List (Comp × S)))) := do
  let pcs ← (← getArr j "comps").mapM fun cj => do
    let (raw, args) ← parseRaw cj
    return ({ raw := raw, args := args, over := ← parseOver cj } : PComp)
  let (g, st) ← parseScopes j
  match resolveAll g st (pcs.map (·.eff)) with
  | .error e => return (pcs, .error e)
  | .ok cs => return (pcs, .ok (cs.zip (pcs.map (·.effArgs))))

def jblock (b : TBlock) : Json :=
  jobj [("refs", jopt (fun l => jarr (l.map jchars)) b.refs), ("args", jopt jchars b.args), ("vars", jvars b.vars)]

def cid (st : Nat) (nm : S) : Json := jstr (s!"stage{st}." ++ String.ofList nm)

def handle (j : Json) : Except String Json := do
  let op ← getStr j "op"
  match op with
  | "expand" =>
    let (pcs, res) ← parseComps j
    let raws := pcs.map (·.eff)
    let inRefs := jarr (raws.map fun c => jarr (c.refs.map fun r => jchars (render r)))
    match res with
    | .error e =>
      let k := match e with | .unresolved => "unresolved" | .convert => "convert"
      return jobj [("error", jstr k), ("in_refs", inRefs), ("comps", jarr [])]
    | .ok cs =>
    let wf := cs.map (·.1)
    let resolved := jarr (wf.map fun c => jarr [cid c.stage c.name, jopt jnat c.repl, jbool c.agg])
    match expand wf with
    | .error e =>
      let k := match e with | .unknown => "unknown" | .inconsistent => "inconsistent" | .duplicate => "duplicate"
      -- the text level is still reported for a duplicate (replicate() itself does not fail then)
      let t := match e, goText [] [] cs with
        | .duplicate, some t => t
        | _, _ => []
      return jobj [("error", jstr k), ("in_refs", inRefs), ("resolved", resolved),
        ("comps", jarr (t.map fun o => jobj [("id", cid o.stage o.name), ("refs", jarr (o.refs.map jchars))]))]
    | .ok out =>
      let t := (goText [] [] cs).getD []
      -- component-level variables of every emitted component (ReplVars.goVars), aligned with the text level
      -- component fields + kept override block of every emitted component (ReplOver.goBlocks), aligned with the
      -- text level (pieceBase_text); `layered` = what is read back through the platform layer (readBack)
      let bs := (goBlocks [] [] (wf.zip (pcs.map fun c => (layerT c.baseT c.overT, c.overT)))).getD []
      let tj := (t.zip bs).map fun (o, b) => jobj [("id", cid o.stage o.name), ("refs", jarr (o.refs.map jchars)),
        ("args", jchars o.args), ("replica", jopt jnat o.replica), ("replicate", jopt jnat o.repl),
        ("vars", jvars b.1.vars), ("block", jblock b.2), ("layered", jblock (readBack b))]
      let gj := out.map fun o => jobj [("id", cid o.stage o.name), ("refs", jarr (o.refs.map fun r => jchars (render r))),
        ("producers", jarr ((o.refs.filter (·.isComp)).map fun r => cid r.stage r.name)),
        ("replica", jopt jnat o.replica), ("replicate", jopt jnat o.repl)]
      let ej := (edges out).map fun e => jarr [cid e.1.1 e.1.2, cid e.2.1 e.2.2]
      return jobj [("in_refs", inRefs), ("resolved", resolved), ("text", jarr tj), ("graph", jarr gj), ("edges", jarr ej)]
  | "history" =>
    -- one configuration object: constructed with steps[0], then parametrised with steps[1], steps[2], ...
    -- (ReplConf.construct / ReplConf.parametrize); reports `_concrete` after every non-primitive step
    let rs ← (← getArr j "comps").mapM parseRaw
    let g ← getVars j "gvars"
    let sv ← parseStageVars j
    let doc : Doc := { g := g, st := stageVars sv, wf := rs.map (·.1) }
    let steps ← (← getArr j "steps").mapM fun sj => do
      let ug ← getVars sj "g"
      let us ← parseStageVars sj
      let prim ← getBool sj "primitive"
      return (({ global := ug, stages := us } : UserVars), prim)
    let report (c : Conf) : Json :=
      match c.concrete with
      | .primitive _ => Json.null
      | .replicated (.error (.resolve .unresolved)) => jobj [("error", jstr "unresolved")]
      | .replicated (.error (.resolve .convert)) => jobj [("error", jstr "convert")]
      | .replicated (.error (.expand e)) => jobj [("error", jstr (errKind e))]
      | .replicated (.ok out) =>
        jobj [("comps", jarr (out.map fun o => jobj [("id", cid o.stage o.name),
                ("refs", jarr (o.refs.map fun r => jchars (render r))),
                ("replica", jopt jnat o.replica), ("replicate", jopt jnat o.repl)])),
              ("edges", jarr ((edges out).map fun e => jarr [cid e.1.1 e.1.2, cid e.2.1 e.2.2]))]
    match steps with
    | [] => throw "no step"
    | s0 :: rest =>
      let c0 := construct doc s0.1 s0.2
      let (_, outs) := rest.foldl (fun (acc : Conf × List Json) s =>
        let c := parametrize acc.1 s.1 s.2
        (c, acc.2 ++ [report c])) (c0, [report c0])
      return jobj [("steps", jarr outs)]
  | "replica_old" =>
    -- unrepaired compile_component_replica applied to the references of the last component for copy i
    let (_, res) ← parseComps j
    let cs ← match res with
      | .ok cs => pure cs
      | .error _ => throw "unresolved attribute"
    let i ← getNat j "i"
    match cs.reverse with
    | [] => throw "no component"
    | (c, a) :: restRev =>
      let d : Done := match go [] [] (restRev.reverse.map (·.1)) with
        | .ok (d, _) => d
        | .error _ => []
      return jobj [("refs", jarr ((c.refs.map render).map fun s => jchars (replicaTextOld d c i s))),
                   ("args", jchars (replicaTextOld d c i a))]
  | _ => throw s!"unknown op {op}"

def main : IO Unit := serve handle
