import Drivers.Proto
import St4sd.Model.ArgSubst
/-! Model driver for property C10 (reference substitution in argument strings). -/
open Lean Proto St4sd.ArgSubst

def parseKind (s : String) : Except String Kind :=
  match s with
  | "ref" => pure .ref
  | "output" => pure .output
  | "other" => pure .other
  | _ => throw s!"unknown kind {s}"

def optChars (j : Json) : Except String (Option (List Char)) :=
  match j with
  | Json.null => pure none
  | v => do return some (← v.getStr?).toList

/-- `{"t":"path","p":…} | {"t":"paths","ps":[…]} | {"t":"file","c":…|null} | {"t":"files","cs":[…|null]} | {"t":"failed"}` -/
def parseSource (j : Json) : Except String Source := do
  match (← getStr j "t") with
  | "path" => return .path (← getChars j "p")
  | "paths" => return .paths (← getCharsList j "ps")
  | "file" => return .file (← optChars (← j.getObjVal? "c"))
  | "files" => return .files (← (← getArr j "cs").mapM optChars)
  | "failed" => return .failed
  | t => throw s!"unknown source {t}"

def parseDecl (j : Json) : Except String Decl := do
  let abs ← getChars j "abs"
  let rel ← getChars j "rel"
  let ra ← getBool j "relActive"
  let kind ← parseKind (← getStr j "kind")
  let src ← parseSource (← j.getObjVal? "source")
  return { abs := abs, rel := rel, relActive := ra, kind := kind, source := src }

def resultJson (r : Result) : Json :=
  jobj [("out", jchars r.out), ("unused", jarr (r.unused.map jchars)), ("unresolved", jbool r.unresolved)]

def handle (j : Json) : Except String Json := do
  let op ← getStr j "op"
  match op with
  | "resolve" =>
    let args ← getChars j "args"
    let decls ← (← getArr j "refs").mapM parseDecl
    let refs := decls.map Decl.toRef
    let p := parse (entries refs) args
    return jobj [("new", resultJson (resolveD decls args)),
                 ("old", resultJson (resolveOldD decls args)),
                 ("values", jarr (refs.map fun r => jopt jchars r.value)),
                 ("functional", jbool (functionalB (entries refs))),
                 ("tokens", jarr ((usedKeys p).map jchars)),
                 ("roundtrip", jbool (renderK p == args))]
  | "methods" => return jobj [("methods", jarr (methods.map jchars))]
  | _ => throw s!"unknown op {op}"

def main : IO Unit := serve handle
