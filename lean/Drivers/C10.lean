import Drivers.Proto
import St4sd.Model.ArgSubst
import St4sd.Model.ArgSubstHistory
/-! Model driver for property C10 (reference substitution in argument strings). -/
open Lean Proto St4sd.ArgSubst

def parseKind (s : String) : Except String Kind :=
  match s with
  | "ref" => pure .ref
  | "output" => pure .output
  | "other" => pure .other
  | _ => throw s!"unknown kind {s}"

def optChars (j : Json) : Except String (Option (List Char)) :=
  match j with
  | Json.null => pure none
  | v => do return some (← v.getStr?).toList

/-- `{"t":"path","p":…} | {"t":"loc","loc":…,"file":…|null} | {"t":"locs","locs":[…],"file":…|null} | {"t":"paths","ps":[…]} | {"t":"insts","insts":[{"id":…,"loc":…}],"file":…|null} | {"t":"instfiles","insts":[{"id":…,"c":…|null}]} | {"t":"file","c":…|null} | {"t":"files","cs":[…|null]} | {"t":"failed"}` -/
def parseSource (j : Json) : Except String Source := do
  match (← getStr j "t") with
  | "path" => return .path (← getChars j "p")
  | "paths" => return .paths (← getCharsList j "ps")
  -- a producer's location and the file part of the reference (`null`: none, `""`: bare trailing slash)
  | "loc" => return .path (refPath (← getChars j "loc") (← optChars (← j.getObjVal? "file")))
  | "locs" =>
    let f ← optChars (← j.getObjVal? "file")
    return .paths ((← getCharsList j "locs").map fun l => loopRefPath l f)
  -- the loop instances of a placeholder as (id, location) / (id, contents) pairs in ANY order: the model orders them
  | "insts" =>
    let f ← optChars (← j.getObjVal? "file")
    let insts ← (← getArr j "insts").mapM fun x => do
      return ((← getChars x "id"), (← getChars x "loc"))
    return loopRefSource insts f
  | "instfiles" =>
    let insts ← (← getArr j "insts").mapM fun x => do
      return ((← getChars x "id"), (← optChars (← x.getObjVal? "c")))
    return loopOutputSource insts
  | "file" => return .file (← optChars (← j.getObjVal? "c"))
  | "files" => return .files (← (← getArr j "cs").mapM optChars)
  | "failed" => return .failed
  | t => throw s!"unknown source {t}"

/-- a declared reference: either by its spellings (`abs`,`rel`,`relActive`,`kind`; older replays) or by its TEXT
(`text`, `consumer`, `direct`): then the model reads the text itself (`declOfText`) -/
def parseDecl (j : Json) : Except String Decl := do
  let src ← parseSource (← j.getObjVal? "source")
  match j.getObjVal? "text" with
  | .ok t =>
    let text := (← t.getStr?).toList
    let consumer ← getNat j "consumer"
    let direct ← getBool j "direct"
    match declOfText consumer direct text src with
    | some d => return d
    | none => throw s!"not a reference: {String.ofList text}"
  | .error _ =>
    let abs ← getChars j "abs"
    let rel ← getChars j "rel"
    let ra ← getBool j "relActive"
    let kind ← parseKind (← getStr j "kind")
    return { abs := abs, rel := rel, relActive := ra, kind := kind, source := src }

/-- sources with files named by path: `{"t":"fileAt","p":…} | {"t":"filesAt","ps":[…]} | {"t":"instFilesAt","insts":[{"id":…,"p":…}]}`,
anything else is a fixed `Source` -/
def parsePSource (j : Json) : Except String PSource := do
  match (← getStr j "t") with
  | "fileAt" => return .fileAt (← getChars j "p")
  | "filesAt" => return .filesAt (← getCharsList j "ps")
  | "instFilesAt" =>
    return .instFilesAt (← (← getArr j "insts").mapM fun x => do return ((← getChars x "id"), (← getChars x "p")))
  | _ => return .fixed (← parseSource j)

def parseHDecl (j : Json) : Except String HDecl := do
  let ps ← parsePSource (← j.getObjVal? "source")
  let text ← getChars j "text"
  match hdeclOfText (← getNat j "consumer") (← getBool j "direct") text ps with
  | some d => return d
  | none => throw s!"not a reference: {String.ofList text}"

/-- `{"op":"write","p":…,"t":mtime,"c":…} | {"op":"remove","p":…}` -/
def parseFsOp (j : Json) : Except String FsOp := do
  match (← getStr j "op") with
  | "write" => return .write (← getChars j "p") (← getNat j "t") (← getChars j "c")
  | "remove" => return .remove (← getChars j "p")
  | o => throw s!"unknown file operation {o}"

def resultJson (r : Result) : Json :=
  jobj [("out", jchars r.out), ("unused", jarr (r.unused.map jchars)), ("unresolved", jbool r.unresolved)]

def handle (j : Json) : Except String Json := do
  let op ← getStr j "op"
  match op with
  | "resolve" =>
    let args ← getChars j "args"
    let decls ← (← getArr j "refs").mapM parseDecl
    let refs := decls.map Decl.toRef
    let p := parse (entries refs) args
    return jobj [("new", resultJson (resolveD decls args)),
                 ("old", resultJson (resolveOldD decls args)),
                 ("values", jarr (refs.map fun r => jopt jchars r.value)),
                 ("functional", jbool (functionalB (entries refs))),
                 ("tokens", jarr ((usedKeys p).map jchars)),
                 ("roundtrip", jbool (renderK p == args))]
  | "history" =>
    -- one live component: resolve every argument string now and again after every batch of file operations
    let argsList ← getCharsList j "args"
    let decls ← (← getArr j "refs").mapM parseHDecl
    let init ← (← getArr j "init").mapM parseFsOp
    let rounds ← (← getArr j "rounds").mapM fun b => do
      match b with
      | Json.arr a => a.toList.mapM parseFsOp
      | _ => throw "a round is a list of operations"
    let fs := FS.applyAll [] init
    return jobj [("results", jarr (argsList.map fun args =>
      jarr ((resolveRounds fs decls args rounds).map resultJson)))]
  | "spell" =>
    -- how the code reads the text of a declared reference
    let text ← getChars j "text"
    let consumer ← getNat j "consumer"
    let direct ← getBool j "direct"
    match parseRef consumer direct text with
    | none => return jobj [("ok", jbool false)]
    | some p =>
      return jobj [("ok", jbool true), ("abs", jchars p.absSpelling), ("rel", jchars p.relSpelling),
                   ("relActive", jbool (p.relActive consumer)), ("file", jopt jchars p.file),
                   ("stage", jopt (fun n => Json.num (JsonNumber.fromNat n)) p.stage), ("method", jchars p.method)]
  | "methods" => return jobj [("methods", jarr (methods.map jchars))]
  | _ => throw s!"unknown op {op}"

def main : IO Unit := serve handle
