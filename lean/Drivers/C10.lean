import Drivers.Proto
import St4sd.Model.ArgSubst
/-! Model driver for property C10 (reference substitution in argument strings). -/
open Lean Proto St4sd.ArgSubst

def parseKind (s : String) : Except String Kind :=
  match s with
  | "ref" => pure .ref
  | "output" => pure .output
  | "other" => pure .other
  | _ => throw s!"unknown kind {s}"

def parseRef (j : Json) : Except String Ref := do
  let abs ← getChars j "abs"
  let rel ← getChars j "rel"
  let ra ← getBool j "relActive"
  let kind ← parseKind (← getStr j "kind")
  let v ← getOptStr j "value"
  return { abs := abs, rel := rel, relActive := ra, kind := kind, value := v.map String.toList }

def resultJson (r : Result) : Json :=
  jobj [("out", jchars r.out), ("unused", jarr (r.unused.map jchars)), ("unresolved", jbool r.unresolved)]

def handle (j : Json) : Except String Json := do
  let op ← getStr j "op"
  match op with
  | "resolve" =>
    let args ← getChars j "args"
    let refs ← (← getArr j "refs").mapM parseRef
    let p := parse (entries refs) args
    return jobj [("new", resultJson (resolve refs args)),
                 ("old", resultJson (resolveOld refs args)),
                 ("functional", jbool (functionalB (entries refs))),
                 ("tokens", jarr ((usedKeys p).map jchars)),
                 ("roundtrip", jbool (renderK p == args))]
  | "methods" => return jobj [("methods", jarr (methods.map jchars))]
  | _ => throw s!"unknown op {op}"

def main : IO Unit := serve handle
