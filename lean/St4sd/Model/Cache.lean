import St4sd.Model.Resolve
/-!
# The configuration interface of `FlowIRConcrete` with its cache (C08)

State = (description, cache).  The cache maps labels `component:<platform>:stage<i>:<name>` to fully
resolved configurations (flowir.py 626-732, 5899-5977).  Operations = the mutators of flowir.py
5694-6041 / 6100-6294 (and conf.py 1129-1139, which only forward to them) plus `query`.

Invalidation (flowir.py 5979-5981, 6011, 6036) goes through
`FlowIRCache.invalidate_reg_expression("component:.*:stage<i>:<name>")`, which uses `pattern.match`,
i.e. the pattern is anchored at the start only.  `invalidates` models the pattern with the component
name taken *literally* (the behaviour of the proposed repair `fixes/C08-cache-regex-escape.diff`, and
of the unrepaired code for names without regular-expression metacharacters): a label is dropped iff
`:stage<i>:<name>` occurs in `<platform>:stage<i'>:<name'>`.  The unrepaired treatment of
metacharacters is `invalidatesOld` (a small backtracking matcher for literals, `.`, `+`, `*`, `?`),
used only by `Witness/C08.lean`.

Platform names are arbitrary strings (`Label.platform : S`; FlowIR validates `platforms` as a list of strings and
nothing more): the `.*` of the pattern accepts every character of a platform name - dashes, dots, blanks, colons,
metacharacters - so `invalidates` puts no condition on the platform part (`Props/C08.invalidates_iff_label_matches`).
The pattern carries `(?s)` so that `.` matches a line break too (before /repo 'fix: ... line break' it did not, and
entries of a platform whose name contains one survived); such names are in the generator of harness/c08.py.
-/
namespace St4sd.Tree
open St4sd.Str

structure Label where
  platform : S
  stage : Nat
  name : S
  deriving Repr, Inhabited

structure St where
  desc : Desc
  cache : List (Label × Val)
  deriving Repr, Inhabited

inductive Op where
  | setVar (i : Nat) (n : S) (x : S) (v : Val)
  | delVar (i : Nat) (n : S) (x : S)
  | setOption (i : Nat) (n : S) (route : S) (v : Val)
  | removeOption (i : Nat) (n : S) (route : S)
  | setGlobalVar (x : S) (v : Val)
  | setStageVar (i : Nat) (x : S) (v : Val)
  | setPlatGlobalVar (P : S) (x : S) (v : Val)
  | setPlatStageVar (P : S) (i : Nat) (x : S) (v : Val)
  | addComp (i : Nat) (n : S) (body : Fields)
  | updateComp (i : Nat) (n : S) (body : Fields)
  | deleteComp (i : Nat) (n : S)
  | query (i : Nat) (n : S) (P : S)
  /-- `get_component_configuration` with any combination of `raw`, `include_default`, `is_primitive`,
  `inject_missing_fields`; only the fully resolved variant goes through the cache -/
  | queryF (i : Nat) (n : S) (P : S) (f : Flags)
  /-- any accessor that hands out copies and whose answer is not modelled: `instance()`, `replicate()`,
  `raw()`, `get_component()`, the blueprint and variable getters with `return_copy=True`, … -/
  | read
  /-- `get_component(comp, return_copy=False)` without a subsequent write: invalidates the component -/
  | touchComp (i : Nat) (n : S)
  /-- `get_platform_global_variables / get_platform_stage_variables(…, return_copy=False)` without a
  subsequent write: clears the cache -/
  | touchVars
  deriving Repr, Inhabited

/-- the operations that are not updates: they must leave the description alone -/
def Op.readOnly : Op → Bool
  | .query .. => true
  | .queryF .. => true
  | .read => true
  | .touchComp .. => true
  | .touchVars => true
  | _ => false

/-- `":stage%s:%s" % (i, n)` -/
def stageTag (i : Nat) (n : S) : S := ":stage".toList ++ natToDigits i ++ [':'] ++ n

/-- the label text after `component:` -/
def labelTail (l : Label) : S := l.platform ++ stageTag l.stage l.name

/-- does `component:.*:stage<i>:<n>` (name literal, anchored at the start only) match the label? -/
def invalidates (i : Nat) (n : S) (l : Label) : Bool := isInfix (stageTag i n) (labelTail l)

def invalidate (i : Nat) (n : S) (cache : List (Label × Val)) : List (Label × Val) :=
  cache.filter (fun e => !invalidates i n e.1)

def sameLabel (a b : Label) : Bool := a.platform = b.platform ∧ a.stage = b.stage ∧ a.name = b.name

def cacheGet : List (Label × Val) → Label → Option Val
  | [], _ => none
  | (l, v) :: r, x => if sameLabel l x then some v else cacheGet r x

/-- modify the body of the component registered under `(i, n)` -/
def modComp (f : Fields → Fields) (i : Nat) (n : S) : List Comp → List Comp
  | [] => []
  | c :: r => if c.stage = i ∧ c.name = n then { c with body := f c.body } :: modComp f i n r
              else c :: modComp f i n r

def delComp (i : Nat) (n : S) (cs : List Comp) : List Comp :=
  cs.filter (fun c => !(c.stage = i ∧ c.name = n))

def setComps (d : Desc) (cs : List Comp) : Desc := { d with comps := cs }

def setPlatVars (d : Desc) (P : S) (pv : PlatVars) : Desc :=
  { d with variables := (d.variables.filter (fun e => !(e.1 = P))) ++ [(P, pv)] }

/-- `del ret[k1]…[kn]` along existing dictionaries -/
def erasePath : List S → Val → Option Val
  | [], _ => none
  | [k], .dict kvs => match get kvs k with
    | some _ => some (.dict (erase kvs k))
    | none => none
  | k :: ks, .dict kvs =>
    match get kvs k with
    | some sub => match erasePath ks sub with
      | some sub' => some (.dict (set kvs k sub'))
      | none => none
    | none => none
  | _ :: _, _ => none

def unit : Except Err Val := .ok .null

/-- the fully resolved query: cache hit, or resolve and remember -/
def queryStep (fuel : Nat) (s : St) (i : Nat) (n : S) (P : S) : St × Except Err Val :=
  match cacheGet s.cache ⟨P, i, n⟩ with
  | some v => (s, .ok v)
  | none =>
    match resolve s.desc P i n false fuel with
    | .ok v => (⟨s.desc, (⟨P, i, n⟩, v) :: s.cache⟩, .ok v)
    | .error e => (s, .error e)

/-- one call of the interface; the answer of a mutator is `ok null` or the error it raises -/
def step (fuel : Nat) (s : St) : Op → St × Except Err Val
  | .setVar i n x v =>
    match findComp s.desc.comps i n with
    | none => (s, .error .componentUnknown)
    | some c =>
      let cache := invalidate i n s.cache
      match get c.body "variables".toList with
      | some (.dict vs) =>
        (⟨setComps s.desc (modComp (fun b => set b "variables".toList (.dict (set vs x v))) i n s.desc.comps), cache⟩, unit)
      | _ => (⟨s.desc, cache⟩, .error .inconsistent)
  | .delVar i n x =>
    match findComp s.desc.comps i n with
    | none => (s, .error .componentUnknown)
    | some c =>
      let cache := invalidate i n s.cache
      match get c.body "variables".toList with
      | some (.dict vs) =>
        match get vs x with
        | none => (⟨s.desc, cache⟩, .error (.unknownVariable x))
        | some _ =>
          (⟨setComps s.desc (modComp (fun b => set b "variables".toList (.dict (erase vs x))) i n s.desc.comps), cache⟩, unit)
      | _ => (⟨s.desc, cache⟩, .error .inconsistent)
  | .setOption i n route v =>
    match findComp s.desc.comps i n with
    | none => (s, .error .componentUnknown)
    | some c =>
      let cache := invalidate i n s.cache
      if !route.contains '#' then
        match get c.body "variables".toList with
        | some (.dict vs) =>
          (⟨setComps s.desc (modComp (fun b => set b "variables".toList (.dict (set vs route v))) i n s.desc.comps), cache⟩, unit)
        | _ => (⟨s.desc, cache⟩, .error .inconsistent)
      else
        match setPath (splitChar '.' (route.drop 1)) (.dict c.body) v with
        | some (.dict b') => (⟨setComps s.desc (modComp (fun _ => b') i n s.desc.comps), cache⟩, unit)
        | _ => (⟨s.desc, cache⟩, .error .keyError)
  | .removeOption i n route =>
    match findComp s.desc.comps i n with
    | none => (s, .error .componentUnknown)
    | some c =>
      let cache := invalidate i n s.cache
      if !route.contains '#' then
        match get c.body "variables".toList with
        | some (.dict vs) =>
          match get vs route with
          | none => (⟨s.desc, cache⟩, .error (.unknownVariable route))
          | some _ =>
            (⟨setComps s.desc (modComp (fun b => set b "variables".toList (.dict (erase vs route))) i n s.desc.comps), cache⟩, unit)
        | _ => (⟨s.desc, cache⟩, .error .inconsistent)
      else
        match erasePath (splitChar '.' (route.drop 1)) (.dict c.body) with
        | some (.dict b') => (⟨setComps s.desc (modComp (fun _ => b') i n s.desc.comps), cache⟩, unit)
        | _ => (⟨s.desc, cache⟩, .error .keyError)
  | .setGlobalVar x v =>
    let pv := platVars s.desc defaultName
    (⟨setPlatVars s.desc defaultName { pv with global := set pv.global x v }, []⟩, unit)
  | .setStageVar i x v =>
    let pv := platVars s.desc defaultName
    match lookupN pv.stages i with
    | none => (s, .error .keyError)
    | some vs => (⟨setPlatVars s.desc defaultName { pv with stages := setN pv.stages i (set vs x v) }, []⟩, unit)
  | .setPlatGlobalVar P x v =>
    match lookupS s.desc.variables P with
    | none => (s, .error .unsupported)
    | some pv => (⟨setPlatVars s.desc P { pv with global := set pv.global x v }, []⟩, unit)
  | .setPlatStageVar P i x v =>
    match lookupS s.desc.variables P with
    | none => (s, .error .unsupported)
    | some pv =>
      (⟨setPlatVars s.desc P { pv with stages := setN pv.stages i (set ((lookupN pv.stages i).getD []) x v) }, []⟩, unit)
  | .addComp i n body =>
    match findComp s.desc.comps i n with
    | some _ => (s, .error .componentExists)
    | none => (⟨setComps s.desc (s.desc.comps ++ [⟨i, n, body⟩]), s.cache⟩, unit)
  | .updateComp i n body =>
    match findComp s.desc.comps i n with
    | none => (s, .error .componentUnknown)
    | some _ => (⟨setComps s.desc (modComp (fun _ => body) i n s.desc.comps), invalidate i n s.cache⟩, unit)
  | .deleteComp i n =>
    match findComp s.desc.comps i n with
    | none => (s, .error .componentUnknown)
    | some _ => (⟨setComps s.desc (delComp i n s.desc.comps), invalidate i n s.cache⟩, unit)
  | .query i n P => queryStep fuel s i n P
  | .queryF i n P f =>
    if f.full then queryStep fuel s i n P else (s, resolveF s.desc P i n f fuel)
  | .read => (s, unit)
  | .touchComp i n =>
    match findComp s.desc.comps i n with
    | none => (s, .error .componentUnknown)
    | some _ => (⟨s.desc, invalidate i n s.cache⟩, unit)
  | .touchVars => (⟨s.desc, []⟩, unit)

/-- run a history; answers in order -/
def run (fuel : Nat) : St → List Op → St × List (Except Err Val)
  | s, [] => (s, [])
  | s, op :: r =>
    let (s1, a) := step fuel s op
    let (s2, as) := run fuel s1 r
    (s2, a :: as)

def init (d : Desc) : St := ⟨d, []⟩

/-! ### the unrepaired invalidation: the component name is interpreted as a regular expression -/

/-- atoms of the fragment: literal / `.` each with an optional postfix `+`, `*`, `?` -/
inductive Quant where | one | plus | star | opt
  deriving Repr, DecidableEq
structure Atom where
  any : Bool
  ch : Char
  q : Quant
  deriving Repr

def parseAtoms : S → List Atom
  | [] => []
  | c :: '+' :: t => ⟨c == '.', c, .plus⟩ :: parseAtoms t
  | c :: '*' :: t => ⟨c == '.', c, .star⟩ :: parseAtoms t
  | c :: '?' :: t => ⟨c == '.', c, .opt⟩ :: parseAtoms t
  | c :: t => ⟨c == '.', c, .one⟩ :: parseAtoms t

def atomOk (a : Atom) (c : Char) : Bool := (a.any && c != '\n') || (!a.any && a.ch == c)

/-- does some prefix of the text match the atoms? (backtracking, fuel = text length + atoms) -/
def matchAtoms : Nat → List Atom → S → Bool
  | 0, _, _ => false
  | _ + 1, [], _ => true
  | f + 1, a :: as, s =>
    match a.q, s with
    | .one, c :: t => atomOk a c && matchAtoms f as t
    | .one, [] => false
    | .opt, c :: t => (atomOk a c && matchAtoms f as t) || matchAtoms f as s
    | .opt, [] => matchAtoms f as []
    | .plus, c :: t => atomOk a c && (matchAtoms f (⟨a.any, a.ch, .star⟩ :: as) t)
    | .plus, [] => false
    | .star, c :: t => (atomOk a c && matchAtoms f (a :: as) t) || matchAtoms f as s
    | .star, [] => matchAtoms f as []

def matchAnywhere (fuel : Nat) (as : List Atom) : S → Bool
  | [] => matchAtoms fuel as []
  | c :: t => matchAtoms fuel as (c :: t) || matchAnywhere fuel as t

/-- unrepaired: `re.compile("component:.*:stage%s:%s" % (i, n)).match(label)` on the fragment -/
def invalidatesOld (i : Nat) (n : S) (l : Label) : Bool :=
  let as := (":stage".toList ++ natToDigits i ++ [':']).map (fun c => (⟨false, c, .one⟩ : Atom)) ++ parseAtoms n
  matchAnywhere (2 * ((labelTail l).length + as.length) + 2) as (labelTail l)

end St4sd.Tree
