import St4sd.Model.Ctrl
/-!
# What exit reason an `Engine` reports for one task execution (property C02)

The controller model `St4sd.Ctrl` takes "the exit reason of the k-th execution of a component" as an
input (`CompDef.script`).  In the code that reason is computed by `experiment.runtime.engine.Engine`
from two instance variables: `self.process` (the `Task` of the last launch that produced one) and
`self._exitReason`.  This file models exactly that computation:

* `Engine.run` → `LaunchTask`: primes `self.process = None`, calls the task generator; a `Task` that
  is created reports its own exit reason when it ends; `OSError` / `JobLaunchError` from the generator
  give the emission field `exitReason = SubmissionFailed`, any other exception `UnknownIssue`;
* `HandleTaskExit`: `reason = process.exitReason if process is not None else emission['exitReason']`,
  then `_setExitReason(reason)`, which again prefers `self.process.exitReason` when there is a process;
* `HandleTaskObservableException` (the error handler of the task-wait pipeline `Wait` →
  `FinalisePerformanceInfo`): when a step of that pipeline raises AFTER the task exited (the backend
  cannot deliver the task's performance information, the performance table cannot be updated) it calls
  `_setExitReason(UnknownIssue)` - and `_setExitReason` prefers `self.process.exitReason`, so the reason
  reported is still the task's own (`Launch.taskThenFault`);
* `Engine.restart` (the branch that restarts): `self.process = None`, `self._exitReason = None`, `run()`.

No Mathlib.
-/
namespace St4sd.Ctrl

/-- what the task generator does at one launch -/
inductive Launch
  /-- a Task is created; it ends with exit reason `r` -/
  | task (r : Reason)
  /-- `OSError` / `JobLaunchError`: no Task -/
  | submitError
  /-- any other exception: no Task -/
  | otherError
  /-- a Task is created and ends with exit reason `r`; then a step of the engine's own post-exit
  pipeline (`Wait` → `FinalisePerformanceInfo`) raises: `HandleTaskExit` never runs, the error handler
  `HandleTaskObservableException` does -/
  | taskThenFault (r : Reason)
  deriving DecidableEq, Repr

/-- the exit reason of an execution, by definition of the exit reasons -/
def Launch.reason : Launch → Reason
  | .task r => r
  | .submitError => .submissionFailed
  | .otherError => .unknownIssue
  | .taskThenFault r => r

/-- the post-exit pipeline raises after the task ended -/
def Launch.faultAfterExit : Launch → Bool
  | .taskThenFault _ => true
  | _ => false

/-- the instance variables of `Engine` that decide what `exitReason()` reports -/
structure EngS where
  /-- `self.process`: exit reason of the Task object it refers to; `none` = `None` -/
  process : Option Reason := none
  /-- `self._exitReason` -/
  exit : Option Reason := none
  deriving DecidableEq, Repr

/-- `LaunchTask`: new state and the `exitReason` field of its emission -/
def EngS.launchTask (e : EngS) : Launch → EngS × Option Reason
  | .task r => ({ e with process := some r }, none)
  | .submitError => ({ e with process := none }, some .submissionFailed)
  | .otherError => ({ e with process := none }, some .unknownIssue)
  | .taskThenFault r => ({ e with process := some r }, none)

/-- `_setExitReason(reason)` -/
def EngS.setExitReason (e : EngS) (reason : Reason) : EngS :=
  { e with exit := some (match e.process with | some r => r | none => reason) }

/-- `HandleTaskExit(emission)` -/
def EngS.handleExit (e : EngS) (emitted : Option Reason) : EngS :=
  e.setExitReason (match e.process with | some r => r | none => emitted.getD .unknownIssue)

/-- `HandleTaskObservableException(exception)` for an exception other than "sequence contains no
elements": `_setExitReason(UnknownIssue)` -/
def EngS.handleError (e : EngS) : EngS := e.setExitReason .unknownIssue

/-- one execution: launch, wait, handle the exit (or the error of the post-exit pipeline) -/
def EngS.execute (e : EngS) (l : Launch) : EngS :=
  let r := e.launchTask l
  if l.faultAfterExit then r.1.handleError else r.1.handleExit r.2

/-- `_setExitReason` WITHOUT the preference for the task's own reason ("the caller decides"): kept only
to show that the preference is what makes the reported reason independent of post-exit faults
(`Props/C02.lean: caller_decides_breaks_reported_reason`) -/
def EngS.setExitReasonCallerDecides (e : EngS) (reason : Reason) : EngS := { e with exit := some reason }

def EngS.executeCallerDecides (e : EngS) (l : Launch) : EngS :=
  let r := e.launchTask l
  if l.faultAfterExit then r.1.setExitReasonCallerDecides .unknownIssue
  else r.1.setExitReasonCallerDecides (match r.1.process with | some x => x | none => r.2.getD .unknownIssue)

/-- `Engine.restart`, the part before `self.run()` -/
def EngS.restart (_e : EngS) : EngS := { process := none, exit := none }

/-- a component's executions in order (`restart` between consecutive ones): the reasons reported
after each execution -/
def EngS.reported : EngS → List Launch → List (Option Reason)
  | _, [] => []
  | e, l :: ls => (e.execute l).exit :: EngS.reported (e.execute l).restart ls

end St4sd.Ctrl
