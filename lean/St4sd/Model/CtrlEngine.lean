import St4sd.Model.Ctrl
/-!
# What exit reason an `Engine` reports for one task execution (property C02)

The controller model `St4sd.Ctrl` takes "the exit reason of the k-th execution of a component" as an
input (`CompDef.script`).  In the code that reason is computed by `experiment.runtime.engine.Engine`
from two instance variables: `self.process` (the `Task` of the last launch that produced one) and
`self._exitReason`.  This file models exactly that computation:

* `Engine.run` → `LaunchTask`: primes `self.process = None`, calls the task generator; a `Task` that
  is created reports its own exit reason when it ends; `OSError` / `JobLaunchError` from the generator
  give the emission field `exitReason = SubmissionFailed`, any other exception `UnknownIssue`;
* `HandleTaskExit`: `reason = process.exitReason if process is not None else emission['exitReason']`,
  then `_setExitReason(reason)`, which again prefers `self.process.exitReason` when there is a process;
* `Engine.restart` (the branch that restarts): `self.process = None`, `self._exitReason = None`, `run()`.

No Mathlib.
-/
namespace St4sd.Ctrl

/-- what the task generator does at one launch -/
inductive Launch
  /-- a Task is created; it ends with exit reason `r` -/
  | task (r : Reason)
  /-- `OSError` / `JobLaunchError`: no Task -/
  | submitError
  /-- any other exception: no Task -/
  | otherError
  deriving DecidableEq, Repr

/-- the exit reason of an execution, by definition of the exit reasons -/
def Launch.reason : Launch → Reason
  | .task r => r
  | .submitError => .submissionFailed
  | .otherError => .unknownIssue

/-- the instance variables of `Engine` that decide what `exitReason()` reports -/
structure EngS where
  /-- `self.process`: exit reason of the Task object it refers to; `none` = `None` -/
  process : Option Reason := none
  /-- `self._exitReason` -/
  exit : Option Reason := none
  deriving DecidableEq, Repr

/-- `LaunchTask`: new state and the `exitReason` field of its emission -/
def EngS.launchTask (e : EngS) : Launch → EngS × Option Reason
  | .task r => ({ e with process := some r }, none)
  | .submitError => ({ e with process := none }, some .submissionFailed)
  | .otherError => ({ e with process := none }, some .unknownIssue)

/-- `_setExitReason(reason)` -/
def EngS.setExitReason (e : EngS) (reason : Reason) : EngS :=
  { e with exit := some (match e.process with | some r => r | none => reason) }

/-- `HandleTaskExit(emission)` -/
def EngS.handleExit (e : EngS) (emitted : Option Reason) : EngS :=
  e.setExitReason (match e.process with | some r => r | none => emitted.getD .unknownIssue)

/-- one execution: launch, wait, handle the exit -/
def EngS.execute (e : EngS) (l : Launch) : EngS :=
  let r := e.launchTask l
  r.1.handleExit r.2

/-- `Engine.restart`, the part before `self.run()` -/
def EngS.restart (_e : EngS) : EngS := { process := none, exit := none }

/-- a component's executions in order (`restart` between consecutive ones): the reasons reported
after each execution -/
def EngS.reported : EngS → List Launch → List (Option Reason)
  | _, [] => []
  | e, l :: ls => (e.execute l).exit :: EngS.reported (e.execute l).restart ls

end St4sd.Ctrl
