import St4sd.Model.Ctrl
/-!
# The verdict of `Controller.run()` when the set of components grows while the stage runs (property C02)

`St4sd.Ctrl` describes a workflow with a fixed set of components.  A `DoWhile` document keeps injecting
new components (the next iteration of the looped components) into the stage that is running, until the
loop condition says stop.  `Controller.run()` reads the components of the stage twice:

* at its top (`this_stage_components = self.get_components_in_stage(stage_idx)`), and
* again after the loop has ended, just before it looks for FAILED components
  ("Re-evaluate stage-components because DoWhile documents will keep injecting new ones").

This file states the verdict as a function of the list that is inspected (`verdictOn`), so that
"inspect the list read at the top" and "inspect the list read at the end" can be compared
(`Props/C02.lean`, part I).  No Mathlib.
-/
namespace St4sd.Ctrl

/-- `get_components_in_stage(k)` of a workflow -/
def stageComps (wf : Wf) (k : Nat) : List Nat := (comps wf).filter fun c => (wf.cdef c).stage == k

/-- what `run()` does after its loop when the components it inspects are `mine` -/
def verdictOn (wf : Wf) (s : St) (mine : List Nat) : Verdict :=
  if mine.any (fun c => (s.comp c).ctrl == some .failed) then .jobFailure
  else if s.cur == wf.lastStage &&
      !(mine.any fun c => isLeaf wf c && (s.comp c).ctrl == some .finished) then .noFinishedLeaf
  else .ok

/-- `wf'` is `wf` after DoWhile iterations were instantiated: more components, the old ones unchanged -/
structure Grows (wf wf' : Wf) : Prop where
  n_le : wf.n ≤ wf'.n
  same : ∀ c, c < wf.n → wf'.cdef c = wf.cdef c

end St4sd.Ctrl
