/-!
# Model of a producer's working directory: staged-in inputs versus output (property C13, clause 1)

Source: `python/experiment/model/storage.py`, `WorkingDirectory` (`_inputs`, `updateInputs`, `output`: "the files in the
top level of the directory whose name is not in `_inputs`") and `python/experiment/model/data.py`, `Job.stageIn`:
the direct references (`data/x:copy`, `input/y:link`, application dependencies) and then the references to other
components are copied / linked into the working directory, THEN `workingDirectory.updateInputs()` records everything
that is in the directory as input - unconditionally, whatever kinds of references the component has - and only then the
`:copyout` references are staged (those are meant to count as output).

`Engine.canConsume()` of an observer (delay 0) asks every producer of the observer's own stage for
`len(producer.workingDirectory.output) == 0`: what a producer staged IN must never make its observer run.
A file is a `Nat` (the harness numbers the names).  No Mathlib import (this file is linked into `drv-c13`).
-/
namespace St4sd.RepeatDir

abbrev File := Nat

structure Dir where
  files : List File      -- `os.listdir(directory)`
  inputs : List File     -- `WorkingDirectory._inputs`
  deriving DecidableEq, Repr

/-- a working directory as created for a component: empty, nothing recorded -/
def Dir.fresh : Dir := { files := [], inputs := [] }

/-- `WorkingDirectory.output` -/
def Dir.output (d : Dir) : List File := d.files.filter (fun f => !d.inputs.contains f)

/-- a file appears in the directory (or an existing one is modified) -/
def Dir.add (d : Dir) (f : File) : Dir := if d.files.contains f then d else { d with files := f :: d.files }

inductive DOp
  | stage (f : File)       -- `StageReference`: a referenced file is copied / linked into the directory
  | updateInputs           -- `WorkingDirectory.updateInputs()`
  | write (f : File)       -- the component's own task creates or modifies a file
  deriving DecidableEq, Repr

def dstep (d : Dir) : DOp → Dir
  | .stage f => d.add f
  | .updateInputs => { d with inputs := d.files }
  | .write f => d.add f

def drun (d : Dir) : List DOp → Dir
  | [] => d
  | o :: os => drun (dstep d o) os

/-- `Job.stageIn()`: direct references, component references, `updateInputs()`, copy-out references -/
def stageInOps (direct comp copyout : List File) : List DOp :=
  direct.map .stage ++ comp.map .stage ++ [.updateInputs] ++ copyout.map .stage

def stageIn (direct comp copyout : List File) (d : Dir) : Dir := drun d (stageInOps direct comp copyout)

def writes (ws : List File) : List DOp := ws.map .write

/-- the producers of an observer with their directories (one entry per producer instance: component id, directory):
the components that have output, i.e. the `outs` of `Repeat.canConsume` -/
def outsOf (ds : List (Nat × Dir)) : List Nat :=
  (ds.filter (fun x => !x.2.output.isEmpty)).map (·.1)

end St4sd.RepeatDir
