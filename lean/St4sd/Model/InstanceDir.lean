/-!
# C07 — the top-level folders of an instance directory and the references into them

Hand-written model of
* `ExperimentPackage.expandPackageToDirectory` for a package that is a FlowIR file + manifest (storage.py
  552-640): every manifest entry `target: source[:copy|:link]` creates `target` below the instance directory by
  `shutil.copytree` (a real directory; missing parents of a nested key `a/b` are created as real directories) or
  by `os.symlink` (a link to the source directory; the parent of a nested key must already exist);
* `Manifest.fromDirectory(dir).top_level_folders` (flowir.py 1205-1242): the names `e` of the directory listing
  with `os.path.isdir(dir/e)` — **links to directories are followed**;
* the folders known to the experiment that *creates* the instance (`configurationForExperiment`, conf.py
  1999-2016: the package manifest updated with the implied manifest of the directory) and to the experiment that
  *reloads* it (the manifest file is not read back: only the implied manifest of the directory as it is then);
* the decision "reference to a component or to a path" of `FlowIR.expand_potential_component_reference`
  (flowir.py 1388-1404).

Names (of directory entries, folders, producers) are natural numbers.  Import-free.
-/
namespace St4sd.InstanceDir

abbrev Name := Nat

/-- what `lstat`/`stat` say about one entry of the instance directory -/
inductive Kind where
  | dir | file | linkDir | linkFile | linkBroken
  deriving DecidableEq, Repr

abbrev Listing := List (Name × Kind)

/-- `os.path.isdir` (follows links) -/
def isFolder : Kind → Bool
  | .dir => true
  | .linkDir => true
  | _ => false

def hasName (l : Listing) (n : Name) : Bool := l.any (fun e => e.1 == n)

/-- `Manifest.fromDirectory(dir).top_level_folders` -/
def implied (l : Listing) : List Name := (l.filter (fun e => isFolder e.2)).map (·.1)

inductive Method where
  | copy | link
  deriving DecidableEq, Repr

/-- a manifest entry: `top` is the first segment of the target, `nested` says there are more segments -/
structure Entry where
  top : Name
  nested : Bool
  method : Method
  deriving DecidableEq, Repr

/-- what `shutil.copytree` / `os.symlink` leave at the target -/
def kindOf : Method → Kind
  | .copy => .dir
  | .link => .linkDir

/-- one entry of the manifest is deployed; `none` = the real code raises (target exists / parent missing) -/
def deployEntry (l : Listing) (e : Entry) : Option Listing :=
  if e.nested then
    if hasName l e.top then some l              -- created below an existing top-level entry
    else match e.method with
      | .copy => some (l ++ [(e.top, .dir)])    -- copytree creates the missing parents
      | .link => none                           -- os.symlink: parent directory does not exist
  else
    if hasName l e.top then none                -- copytree/symlink refuse an existing target
    else some (l ++ [(e.top, kindOf e.method)])

def deploy : Listing → List Entry → Option Listing
  | l, [] => some l
  | l, e :: r => match deployEntry l e with
    | some l' => deploy l' r
    | none => none

/-- `Manifest.top_level_folders` of the package manifest -/
def tops (m : List Entry) : List Name := m.map (·.top)

/-- folders of the experiment that creates the instance: manifest keys + implied manifest of the directory;
`extra` = names of application dependencies + the special folders input/data/bin/conf (from the description) -/
def foldersAtCreation (m : List Entry) (l : Listing) (extra : List Name) : List Name := tops m ++ implied l ++ extra

/-- folders of the experiment that reloads the instance directory -/
def foldersAtReload (l : Listing) (extra : List Name) : List Name := implied l ++ extra

/-- a reference `[stageN.]producer[/file]:method`; `hasSlash` = the producer part contains a `/` -/
structure Ref where
  stage : Option Nat
  producer : Name
  hasSlash : Bool
  deriving DecidableEq, Repr

/-- `direct_reference` of `expand_potential_component_reference` (as coded: `A and (B and C) or D`) -/
def isDirect (folders : List Name) (r : Ref) : Bool :=
  (r.stage.isNone && folders.contains r.producer) || r.hasSlash

/-- the directory only grows between the creation and the reload (entries are neither removed nor replaced) -/
def grows (l l' : Listing) : Prop := ∀ x ∈ l, x ∈ l'

def allFolders (l : Listing) : Prop := ∀ x ∈ l, isFolder x.2 = true

end St4sd.InstanceDir
