import St4sd.Model.Validate
import St4sd.Model.Str
/-!
# C11 — packages with DoWhile documents: what the loader checks about a loop when the package is loaded

A package is a main document plus the DoWhile documents its `$import` components bring in
(`flowir.package_document_load`).  For every DoWhile document the loader calls `instantiate_dowhile(…, iteration 0)`:

* `validate_input_bindings_names`/`validate_provided_bindings`: every input binding of the document has a value
  (`missingBinding`), every value given (`bindings` of the importing component, `loopBindings` of the document) is
  for a declared input binding (`unknownBindingKey`: the lookup `input_bindings[key]` raises), every component a
  binding points to is one of the components known outside the loop (`bindingUnknown`;
  `foreign_components` = the components of the main document, the importing components and the template
  components of the documents not instantiated yet), every component a LOOP binding points to is a looped
  component of the same document (`loopBindingUnknown`; `rewrite_loopbindings_for_stage_offset` +
  `in_loop_ids`);
* the looped components have pairwise different identifiers (`duplicateLooped`);
* the condition is produced by a looped component (`conditionUnknown`).

Any of these raises inside `package_document_load`; `FlowIRExperimentConfiguration._load_concrete` collects the
exception and `_try_report_errors` turns it into `ExperimentInvalidConfigurationError`.

Then the components of iteration 0 (`rewrite_components`: `inst l 0`) join the components of the main document
and the whole is validated as one document (`Validate.validate` on `flatten p`; a reference from outside the loop
to a looped component resolves through the placeholder `(stage, name)` of `(stage, "0#name")`).

`inst l (k+1)` is what `WorkflowGraph.instantiate_dowhile_next_iteration` adds when the condition of iteration `k`
is true: an input binding that has a loop binding now points to the component of iteration `k`
(`(stage, "k#name")`), the other references are rewritten as for iteration 0.

Abstractions: references are identifiers (no file names, no methods; the method of a binding agrees with the
declared type); a reference of a template component is `(template stage, name)` — `name` may be the key of an
input binding; the loader leaves a reference whose target it does not know untouched (so a reference spelled
with an explicit stage keeps that stage, without the stage of the importing component added): here every
reference is offset, the two readings differ only for references that dangle in the template.  The arguments of
loop instances are not compared with their references (`validate_component` skips that for names with `#`):
`argRefs = []`.  No Mathlib.
-/
namespace St4sd.Validate
open St4sd.ValSchema

/-- a component of a DoWhile template; `stage` is relative to the document -/
structure TComp where
  stage : Nat
  name : S
  refs : List Id
  opts : Val
  vars : List (S × List S)
  uses : List S
  deriving Inhabited

structure Loop where
  /-- stage and name of the importing (`$import`) component -/
  stage : Nat
  name : S
  /-- keys of `inputBindings` -/
  inputs : List S
  /-- `bindings` of the importing component, absolute identifiers -/
  bindings : List (S × Id)
  /-- `loopBindings` of the document, identifiers relative to the document -/
  loopBindings : List (S × Id)
  /-- producer of `condition`, relative to the document -/
  cond : Id
  comps : List TComp
  deriving Inhabited

structure Package where
  main : Doc
  loops : List Loop := []
  deriving Inhabited

inductive LoopErr where
  | missingBinding (key : S)
  | unknownBindingKey (key : S)
  | bindingUnknown (key : S) (i : Id)
  | loopBindingUnknown (key : S) (i : Id)
  | conditionUnknown (i : Id)
  | duplicateLooped (i : Id)
  deriving DecidableEq, Repr

inductive PErr where
  | loop (l : Id) (e : LoopErr)
  | doc (e : Err)
  deriving DecidableEq, Repr

/-- `"<k>#<name>"` -/
def iterName (k : Nat) (n : S) : S := St4sd.Str.natToDigits k ++ '#' :: n

/-- a document-relative identifier projected to the stage of the importing component -/
def offset (l : Loop) (i : Id) : Id := (l.stage + i.1, i.2)

/-- `inloop_ids` -/
def tmplIds (l : Loop) : List Id := l.comps.map (fun t => (l.stage + t.stage, t.name))

/-- the binding values in effect for iteration `k`: for `k > 0` a key with a loop binding points to the
component of the previous iteration -/
def bindsAt (l : Loop) : Nat → List (S × Id)
  | 0 => l.bindings
  | k + 1 => l.loopBindings.map (fun kv => (kv.1, (l.stage + kv.2.1, iterName k kv.2.2))) ++ l.bindings

/-- `rewrite_reference`: the value of the input binding the reference names, or the reference projected to the
stage of the importing component -/
def target (binds : List (S × Id)) (l : Loop) (r : Id) : Id :=
  match lookup r.2 binds with
  | some i => i
  | none => offset l r

/-- `rewrite_all_references` on one reference of a template component for iteration `k`: a reference to a looped
component becomes a reference to its instance of this iteration -/
def rewriteRef (l : Loop) (k : Nat) (r : Id) : Id :=
  let t := target (bindsAt l k) l r
  if (tmplIds l).contains t then (t.1, iterName k t.2) else t

/-- `rewrite_components`: the components of iteration `k` -/
def inst (l : Loop) (k : Nat) : List Comp :=
  l.comps.map (fun t =>
    { stage := l.stage + t.stage, name := iterName k t.name, refs := t.refs.map (rewriteRef l k), argRefs := [],
      opts := t.opts, vars := ("loopIteration".toList, []) :: t.vars, uses := t.uses })

def dupLooped : List Id → List LoopErr
  | [] => []
  | i :: rest => (if rest.contains i then [LoopErr.duplicateLooped i] else []) ++ dupLooped rest

/-- what `instantiate_dowhile` raises about the document itself -/
def docErrors (foreign : List Id) (l : Loop) : List LoopErr :=
  dupLooped (tmplIds l) ++
  (l.inputs.filter (fun k => (lookup k l.bindings).isNone)).map LoopErr.missingBinding ++
  ((l.bindings ++ l.loopBindings).filter (fun kv => !l.inputs.contains kv.1)).map
    (fun kv => LoopErr.unknownBindingKey kv.1) ++
  (l.bindings.filter (fun kv => !foreign.contains kv.2)).map (fun kv => LoopErr.bindingUnknown kv.1 kv.2) ++
  (l.loopBindings.filter (fun kv => !(tmplIds l).contains (offset l kv.2))).map
    (fun kv => LoopErr.loopBindingUnknown kv.1 kv.2) ++
  (if (tmplIds l).contains (offset l l.cond) then [] else [LoopErr.conditionUnknown l.cond])

/-- the importing components -/
def stubIds (p : Package) : List Id := p.loops.map (fun l => (l.stage, l.name))

/-- the documents are instantiated in order; the template components of a document are known to the documents
before it and to itself, not to those after it -/
def loopErrorsFrom (mainIds : List Id) : List Loop → List PErr
  | [] => []
  | l :: rest =>
    (docErrors (mainIds ++ (l :: rest).flatMap tmplIds) l).map (PErr.loop (l.stage, l.name)) ++
    loopErrorsFrom mainIds rest

/-- the document that is validated: main components and iteration 0 of every loop -/
def flatten (p : Package) : Doc := { p.main with comps := p.main.comps ++ p.loops.flatMap (fun l => inst l 0) }

def validateP (tbl : List (S × Conv)) (sch : Schema) (p : Package) : List PErr :=
  loopErrorsFrom (ids p.main ++ stubIds p) p.loops ++ (validate tbl sch (flatten p)).map PErr.doc

def acceptsP (tbl : List (S × Conv)) (sch : Schema) (p : Package) : Bool := (validateP tbl sch p).isEmpty

/-- the document after iterations `1 … k` of loop `l` were added at run time -/
def unrolled (p : Package) (l : Loop) (k : Nat) : Doc :=
  { flatten p with comps := (flatten p).comps ++ (List.range k).flatMap (fun j => inst l (j + 1)) }

/-! ### the binding check of a later iteration, and the load-time check as repaired

`WorkflowGraph.instantiate_dowhile_next_iteration` calls `instantiate_dowhile` again with
`foreign_components = get_component_identifiers(True, False)`: the components of the graph so far, WITHOUT the
importing (`$import`) entries — while `package_document_load` compares the binding values with a set that contains
those entries (`stubIds`).  A binding value that names an importing entry therefore passes the load and raises
`FlowIRReferenceToUnknownComponent` when the next iteration is instantiated (unless a looped component reads the
binding: then iteration 0 carries the reference and `validate (flatten p)` reports it). -/

/-- what the binding check of `instantiate_dowhile` raises when iteration `k+1` of `l` is instantiated at run time -/
def nextBindingErrors (p : Package) (l : Loop) (k : Nat) : List LoopErr :=
  (l.bindings.filter (fun kv => !(ids (unrolled p l k)).contains kv.2)).map
    (fun kv => LoopErr.bindingUnknown kv.1 kv.2)

/-- decidable side condition: no binding value of `l` names an importing entry or the placeholder of a looped
component (the two kinds of names the load-time check knows and the graph does not have as components) -/
def bindingsAvoidImportEntries (p : Package) (l : Loop) : Bool :=
  l.bindings.all (fun kv => !(stubIds p).contains kv.2 && !(p.loops.flatMap tmplIds).contains kv.2)

/-- the load-time check as repaired by `fixes/C11-binding-to-import-entry.diff`: the importing entries are not
among the components a binding value may name -/
def validatePFixed (tbl : List (S × Conv)) (sch : Schema) (p : Package) : List PErr :=
  loopErrorsFrom (ids p.main) p.loops ++ (validate tbl sch (flatten p)).map PErr.doc

end St4sd.Validate
