import St4sd.Model.Env
/-!
# `%(name)s` references inside environment values (property C17)

`Model/Env.lean` treats environment values as texts with `$NAME` / `${NAME}` references only.  This file
brings the second kind of reference inside the model: `%(name)s` — a reference to a workflow variable —
which the code resolves with `FlowIR.interpolate` / `FlowIR.fill_in` (flowir.py 3887-3950, 4532-4735)

* in `FlowIRConcrete.instance` (flowir.py 5262-5302), when the environments of the selected platform are
  flattened into the document every replicated configuration reads: every environment is filled in with the
  context *global variables of the platform (layered over the default platform's), overlaid by the
  environment's own entries* (`env_variables = global_variables.copy(); env_variables.update(env)`), errors
  ignored (`replicate(ignore_errors=True)`: a reference that cannot be resolved stays as it is);
* in `FlowIRExperimentConfiguration.environmentForNode` (conf.py 1250-1262), after `environmentWithName`:
  `context = default globals, platform globals, env; env = fill_in(env, context)` — strict: a reference that
  cannot be resolved is an error (`FlowIRVariableUnknown`), except `%(replica)s` for a primitive graph.

Modelled: references `%(name)s`, `name = [a-zA-Z0-9_.-]+`, resolved recursively (the value of a variable is
itself interpolated in the same context).  Recursion is bounded by fuel = size of the context + 1, which is
enough for every acyclic context (a cyclic one makes the code die with `RecursionError`; the model answers
"unresolvable").  Not modelled: dotted names (scopes), `[index]` array accesses after a reference or a
value, incomplete references `%(name)` (an error of its own), references whose *name* is built by another
reference.  The harness keeps those out of the generated values.
-/
namespace St4sd.Env
open St4sd.Str St4sd.Assoc

/-- `[a-zA-Z0-9_.-]` (ASCII) -/
def isVarChar (c : Char) : Bool := isIdChar c || c == '.' || c == '-'

/-- scanner state of `tokV`; accumulators are reversed -/
inductive ScV where
  | normal
  /-- after `%` -/
  | pct
  /-- after `%(` and the name characters `acc` -/
  | name (acc : S)
  /-- after `%(name)` -/
  | close (acc : S)

/-- the text a scanner state has consumed and not yet emitted -/
def pendV : ScV → S
  | .normal => []
  | .pct => ['%']
  | .name acc => '%' :: '(' :: acc.reverse
  | .close acc => '%' :: '(' :: (acc.reverse ++ [')'])

/-- `re.finditer(r'%\([a-zA-Z0-9_.-]+\)s')`: leftmost, non-overlapping references; everything else literal.
When a candidate fails, scanning resumes at the failing character (the consumed text `(`, name characters,
`)` contains no `%`, so no reference starts inside it). -/
def tokV : ScV → S → List Tok
  | st, [] => lits (pendV st)
  | .normal, c :: cs => if c == '%' then tokV .pct cs else .lit c :: tokV .normal cs
  | .pct, c :: cs =>
    if c == '(' then tokV (.name []) cs
    else .lit '%' :: (if c == '%' then tokV .pct cs else .lit c :: tokV .normal cs)
  | .name acc, c :: cs =>
    if isVarChar c then tokV (.name (c :: acc)) cs
    else if c == ')' && !acc.isEmpty then tokV (.close acc) cs
    else lits (pendV (.name acc)) ++ (if c == '%' then tokV .pct cs else .lit c :: tokV .normal cs)
  | .close acc, c :: cs =>
    if c == 's' then .ref acc.reverse (pendV (.close acc) ++ ['s']) :: tokV .normal cs
    else lits (pendV (.close acc)) ++ (if c == '%' then tokV .pct cs else .lit c :: tokV .normal cs)

/-- strict rendering: a reference `lk` cannot resolve fails the whole value, unless the name is `safe`
(then its text is kept) -/
def renderStrict (lk : S → Option S) (safe : S → Bool) : List Tok → Option S
  | [] => some []
  | .lit c :: r => (renderStrict lk safe r).map (c :: ·)
  | .ref n o :: r =>
    match lk n with
    | some v => (renderStrict lk safe r).map (v ++ ·)
    | none => if safe n then (renderStrict lk safe r).map (o ++ ·) else none

/-- the fully resolved value of variable `n` in `ctx` (`resolve_using_symbol_table`): its text, interpolated
strictly in the same context; `none` = unknown, or something it (transitively) references is -/
def resolveV (ctx : Dict) (safe : S → Bool) : Nat → S → Option S
  | 0, _ => none
  | fuel + 1, n =>
    match dget ctx n with
    | none => none
    | some v => renderStrict (resolveV ctx safe fuel) safe (tokV .normal v)

/-- `interpolate(v, ctx, ignore_errors=True)`: every reference whose variable resolves is replaced, the others
are left as they are -/
def interpKeep (ctx : Dict) (safe : S → Bool) (fuel : Nat) (v : S) : S :=
  render (resolveV ctx safe fuel) (tokV .normal v)

/-- `interpolate(v, ctx)` (strict): `none` = `FlowIRVariableUnknown` -/
def interpStrict (ctx : Dict) (safe : S → Bool) (fuel : Nat) (v : S) : Option S :=
  renderStrict (resolveV ctx safe fuel) safe (tokV .normal v)

/-- enough fuel for every acyclic context -/
def fuelFor (ctx : Dict) : Nat := ctx.length + 1

/-- `fill_in(d, context=ctx, ignore_errors=True)` on a dictionary of texts -/
def fillKeep (ctx : Dict) (safe : S → Bool) (d : Dict) : Dict :=
  d.map fun kv => (kv.1, interpKeep ctx safe (fuelFor ctx) kv.2)

/-- `fill_in(d, context=ctx)` (strict) -/
def fillStrict (ctx : Dict) (safe : S → Bool) : Dict → Option Dict
  | [] => some []
  | kv :: r =>
    match interpStrict ctx safe (fuelFor ctx) kv.2, fillStrict ctx safe r with
    | some v, some r' => some ((kv.1, v) :: r')
    | _, _ => none

def sReplica : S := "replica".toList
/-- names that may stay unresolved: `replica`, when the graph is primitive -/
def safeOf (primitive : Bool) : S → Bool := fun n => primitive && n == sReplica

/-! ## global variables -/

/-- `variables:` of the document restricted to the global scope: platform ↦ (name ↦ text) -/
abbrev Vars := List (S × Dict)

/-- the global variables visible to a platform: the platform's layered over the default platform's
(`instance`: `global_default_variables.update(global_platform_variables)`; `environmentForNode`:
`context.update(global_variables); context.update(platform_vars)`) -/
def rawGlobals (vars : Vars) (plat : S) : Dict :=
  dupdate (dupdate [] ((dget vars sDefault).getD [])) ((dget vars plat).getD [])

/-- the global variables of the instance document: resolved among themselves, errors ignored
(flowir.py 5192-5201 and 5275-5278: a strict pass that leaves a value untouched when it fails, then
`fill_in(global_variables, context=global_variables, ignore_errors=True)`; together: every resolvable reference
is replaced) -/
def instGlobals (vars : Vars) (plat : S) (safe : S → Bool) : Dict :=
  let g := rawGlobals vars plat
  fillKeep g safe g

/-! ## the instance document with `%(name)s` references -/

/-- one environment in `instance()` (flowir.py 5280-5302):
`env_variables = global_variables.copy(); env_variables.update(env)`, then the environment is filled in with
itself as the context (DOSINI legacy) and then with `env_variables`; both passes ignore errors under
`replicate()`.  The context is built afresh for every environment, from the global variables and *this*
environment only. -/
def fillEnvInst (g : Dict) (safe : S → Bool) (env : Dict) : Dict :=
  fillKeep (dupdate g env) safe (fillKeep env safe env)

/-- the seeded-defect shape (kept for `Witness/C17.lean`): ONE context for all environments, which accumulates
the entries of every environment processed so far -/
def fillEnvsAcc (safe : S → Bool) : Dict → List (S × Dict) → List (S × Dict)
  | _, [] => []
  | ctx, ne :: r =>
    let ctx' := dupdate ctx ne.2
    (ne.1, fillKeep ctx' safe (fillKeep ne.2 safe ne.2)) :: fillEnvsAcc safe ctx' r

/-- environments of the `default` platform in `instance(plat)` -/
def flatEnvsV (e : Envs) (vars : Vars) (plat : S) (safe : S → Bool) : List (S × Dict) :=
  (flatEnvs e plat).map fun ne => (ne.1, fillEnvInst (instGlobals vars plat safe) safe ne.2)

def flatEnvsVAcc (e : Envs) (vars : Vars) (plat : S) (safe : S → Bool) : List (S × Dict) :=
  fillEnvsAcc safe (instGlobals vars plat safe) (flatEnvs e plat)

/-- what a configuration reads environments and global variables from -/
structure Doc where
  envs : Envs
  vars : Vars

/-- `environments:` of an instance document whose flattened environments are `flat` (same shape as `instEnvs`:
everything on the `default` platform, the selected platform present and empty) -/
def mkInstEnvs (plat : S) (flat : List (S × Dict)) : Envs :=
  if plat == sDefault then [(sDefault, flat)] else [(sDefault, flat), (plat, [])]

/-- `instance(plat)`: environments and global variables flattened into the `default` platform -/
def instDoc (d : Doc) (plat : S) (safe : S → Bool) : Doc where
  envs := mkInstEnvs plat (flatEnvsV d.envs d.vars plat safe)
  vars := [(sDefault, instGlobals d.vars plat safe)]

def instDocAcc (d : Doc) (plat : S) (safe : S → Bool) : Doc where
  envs := mkInstEnvs plat (flatEnvsVAcc d.envs d.vars plat safe)
  vars := [(sDefault, instGlobals d.vars plat safe)]

/-- the document a configuration object reads: the package (primitive), `instance(plat)` of it (replicated),
or — loaded from an instance directory — `instance(plat)` of the stored `flowir_instance.yaml`, which is
`instance(plat, is_primitive=True)` of the package -/
def confDoc (d : Doc) (plat : S) (primitive reload : Bool) : Doc :=
  if primitive then d
  else if reload then instDoc (instDoc d plat (safeOf true)) plat (safeOf false)
  else instDoc d plat (safeOf false)

/-- errors of `environmentForNode` -/
inductive ErrV where
  | env (e : Err)
  /-- `FlowIRVariableUnknown` -/
  | unknownVar
  deriving DecidableEq, Repr

/-- `environmentForNode` with `%(name)s` references: `environmentWithName`, then the strict fill-in with the
global variables of the document overlaid by the environment just built, then the interpreter variables -/
def envForNodeV (sys : Dict) (d : Doc) (plat : S) (launch : Dict) (name : Option S) (interp primitive : Bool) :
    Except ErrV Dict :=
  match envWithName sys d.envs plat launch name true true with
  | .error x => .error (.env x)
  | .ok env =>
    match fillStrict (dupdate (rawGlobals d.vars plat) env) (safeOf primitive) env with
    | none => .error .unknownVar
    | some env' => .ok (if interp then addInterp launch env' else env')

/-! ## one configuration object, many calls -/

structure ConfV where
  sys : Dict
  doc : Doc
  plat : S
  primitive : Bool

inductive AnsV where
  | env (r : Except ErrV Dict)
  | unit

def liftErr : Except Err Dict → Except ErrV Dict
  | .ok d => .ok d
  | .error x => .error (.env x)

def answerV (launch : Dict) (c : ConfV) : Call → AnsV
  | .node name interp => .env (envForNodeV c.sys c.doc c.plat launch name interp c.primitive)
  | .withName name expand rm => .env (liftErr (envWithName c.sys c.doc.envs c.plat launch name expand rm))
  | .dflt => .env (.ok (defaultEnv c.doc.envs c.plat launch))
  | .mutate _ => .unit

def stepV (launch : Dict) (c : ConfV) (call : Call) : ConfV × AnsV := (c, answerV launch c call)

def runCallsV (launch : Dict) : ConfV → List Call → List AnsV
  | _, [] => []
  | c, call :: rest => (stepV launch c call).2 :: runCallsV launch (stepV launch c call).1 rest

end St4sd.Env
