/-!
# Python `dict` as an association list (shared by the C15 and C17 models, import-free)

A `dict` is a list of `(key, value)` pairs in insertion order.  `dset` is `d[k] = v` (replace
in place when the key exists, append otherwise), `dupdate d n` is `d.update(n)` (entries of `n`
applied left to right), `derase` is `d.pop(k, None)`, `dget` is `d.get(k)`.

A *literal* (a mapping written in an input document) may repeat a key; Python keeps the last
occurrence: `dgetLast`.
-/
namespace St4sd.Assoc

variable {α : Type} {β : Type} [BEq α]

/-- `d.get(k)` -/
def dget : List (α × β) → α → Option β
  | [], _ => none
  | (k', v) :: r, k => if k' == k then some v else dget r k

/-- `k in d` -/
def dhas (d : List (α × β)) (k : α) : Bool := (dget d k).isSome

/-- `d[k] = v` -/
def dset : List (α × β) → α → β → List (α × β)
  | [], k, v => [(k, v)]
  | (k', v') :: r, k, v => if k' == k then (k', v) :: r else (k', v') :: dset r k v

/-- `d.update(n)` -/
def dupdate (d n : List (α × β)) : List (α × β) := n.foldl (fun acc kv => dset acc kv.1 kv.2) d

/-- `d.pop(k, None)` -/
def derase (d : List (α × β)) (k : α) : List (α × β) := d.filter (fun kv => !(kv.1 == k))

/-- the value Python keeps for `k` when a mapping literal repeats keys: the last one -/
def dgetLast : List (α × β) → α → Option β
  | [], _ => none
  | (k', v) :: r, k =>
    match dgetLast r k with
    | some w => some w
    | none => if k' == k then some v else none

def keys (d : List (α × β)) : List α := d.map Prod.fst

end St4sd.Assoc
