import St4sd.Model.HashFs
/-!
# Memoization hashes that are remembered (C16): the per-object cache and the sessions that read it

`ComponentSpecification` remembers the first hash it could compute (`if not self._memoization_hash: …`,
graph.py, properties `memoization_hash` / `memoization_hash_fuzzy` / `memoization_info(_fuzzy)`), until
`memoization_reset()`.  A hash that could not be computed (`None`) is not remembered.  While the hash of a
component is evaluated the properties of its producers are read — which remembers *their* hashes, and uses the
hashes they remember.

`Model/HashFs.lean` has the file system as its only state.  Here the state is the file system **and** the two
caches (strong, fuzzy), and a *session* is a sequence of events: the file system changes, some code evaluates
`_compute_memoization_info` of a component (one event per evaluation, in the order in which the evaluations
return: producers before the consumer that asked for them), the cache of a component is reset, some code reads
a hash.  Who evaluates what and when is not fixed by the model: the theorems (`Props/C16.lean`, *sessions*)
quantify over all sessions and say under which discipline every hash that is read is the hash of the contents
at that moment — and the harness records the events of the real code (the real Controller running an
experiment whose tasks write their outputs in pieces; plain readers of the public properties).
-/
namespace St4sd.Hash
open St4sd.Str

structure Session where
  fs : Fs
  /-- `_memoization_hash` of every component of the graph (`none` = nothing remembered) -/
  strong : List (Option S)
  /-- `_memoization_hash_fuzzy` -/
  fuzzy : List (Option S)
deriving Repr

def Session.cache (s : Session) (fuzzy : Bool) : List (Option S) := if fuzzy then s.fuzzy else s.strong

def Session.setCache (s : Session) (fuzzy : Bool) (c : List (Option S)) : Session :=
  if fuzzy then { s with fuzzy := c } else { s with strong := c }

inductive SOp where
  /-- the file system changes (a task writes / rewrites / removes a file …) -/
  | fs (op : Op)
  /-- one evaluation of the (strong / fuzzy) hash of component `j`: nothing happens when a hash is
  remembered for `j`, otherwise the hash is computed from the files as they are now and from the hashes that
  are remembered for the producers, and it is remembered if it exists -/
  | compute (fuzzy : Bool) (j : Nat)
  /-- `memoization_reset()` of component `j` -/
  | reset (j : Nat)
  /-- some code reads the hash of component `j` (no effect: an observation) -/
  | get (fuzzy : Bool) (j : Nat)
deriving Repr

/-- the cache after one evaluation for component `j` -/
def computeAt (md5 : S → S) (bps : Blueprints) (cs : List SComp) (fs : Fs) (fuzzy : Bool)
    (cache : List (Option S)) (j : Nat) : List (Option S) :=
  match cs[j]? with
  | none => cache
  | some c =>
    match getH cache j with
    | some _ => cache
    | none => cache.set j (hashOne md5 fuzzy bps cache (c.resolve fs))

def stepS (md5 : S → S) (bps : Blueprints) (cs : List SComp) (s : Session) : SOp → Session
  | .fs op => { s with fs := step s.fs op }
  | .compute fuzzy j => s.setCache fuzzy (computeAt md5 bps cs s.fs fuzzy (s.cache fuzzy) j)
  | .reset j => { s with strong := s.strong.set j none, fuzzy := s.fuzzy.set j none }
  | .get _ _ => s

def runS (md5 : S → S) (bps : Blueprints) (cs : List SComp) (s : Session) (evs : List SOp) : Session :=
  evs.foldl (stepS md5 bps cs) s

/-- a new experiment object over the file system `fs`: nothing is remembered -/
def Session.new (fs : Fs) (n : Nat) : Session := ⟨fs, List.replicate n none, List.replicate n none⟩

/-- what an event shows: the hash a reader gets / the hash an evaluation leaves in the cache -/
def answerOf (s' : Session) : SOp → Option S
  | .compute fuzzy j => getH (s'.cache fuzzy) j
  | .get fuzzy j => getH (s'.cache fuzzy) j
  | _ => none

/-- the answers of all events of a session, in order (`none` for events that show nothing) -/
def answers (md5 : S → S) (bps : Blueprints) (cs : List SComp) : Session → List SOp → List (Option S)
  | _, [] => []
  | s, e :: es =>
    let s' := stepS md5 bps cs s e
    answerOf s' e :: answers md5 bps cs s' es

/-- the serialisation behind the answer of a `compute` event that did evaluate (for the md5 table of the
driver) -/
def serOf (md5 : S → S) (bps : Blueprints) (cs : List SComp) (s : Session) : SOp → Option S
  | .compute fuzzy j =>
    match cs[j]? with
    | none => none
    | some c =>
      match getH (s.cache fuzzy) j with
      | some _ => none
      | none => (mkInfo md5 fuzzy bps (getH (s.cache fuzzy)) (c.resolve s.fs)).map serialize
  | _ => none

def sersS (md5 : S → S) (bps : Blueprints) (cs : List SComp) : Session → List SOp → List (Option S)
  | _, [] => []
  | s, e :: es => serOf md5 bps cs s e :: sersS md5 bps cs (stepS md5 bps cs s e) es

/-! ## the discipline under which remembered hashes stay current (decidable form, for the driver)

`Props/C16.lean` states the discipline as a proposition (`Disciplined`): whenever the file system changes, the
operation touches no path that a component of the *producer cone* of a remembered hash refers to.  Here is a
checker for it (`disciplinedB`, sound by `C16.disciplinedB_sound`); the harness runs it on the events recorded
from the real Controller. -/

def Loc.producer? : Loc → Option Nat
  | .produced p _ => some p
  | .direct _ => none

def producersOf (c : SComp) : List Nat := c.refs.filterMap (fun r => r.loc.producer?)

/-- the paths an operation touches -/
def Op.touched : Op → List S
  | .write p _ _ _ => [p]
  | .touch p _ => [p]
  | .remove p => [p]
  | .rename a b => [a, b]
  | .reload => []

def coneStep (cs : List SComp) (K : List Nat) : List Nat :=
  K ++ (K.flatMap fun k => match cs[k]? with
    | some c => producersOf c
    | none => [])

def coneOf (cs : List SComp) : Nat → List Nat → List Nat
  | 0, K => K
  | n + 1, K => coneOf cs n (coneStep cs K).eraseDups

def cachedIdx (l : List (Option S)) : List Nat := (List.range l.length).filter fun j => (getH l j).isSome

def closedB (cs : List SComp) (K : List Nat) : Bool :=
  K.all fun k => match cs[k]? with
    | some c => (producersOf c).all K.contains
    | none => true

def frameB (cs : List SComp) (K : List Nat) (op : Op) : Bool :=
  K.all fun k => match cs[k]? with
    | some c => c.refs.all fun r => !op.touched.contains r.loc.path
    | none => true

def fsOkB (cs : List SComp) (s : Session) (op : Op) : Bool :=
  let K := coneOf cs cs.length (cachedIdx s.strong ++ cachedIdx s.fuzzy)
  (cachedIdx s.strong ++ cachedIdx s.fuzzy).all K.contains && closedB cs K && frameB cs K op

def disciplinedB (md5 : S → S) (bps : Blueprints) (cs : List SComp) : Session → List SOp → Bool
  | _, [] => true
  | s, e :: rest =>
    (match e with
      | .fs op => fsOkB cs s op
      | _ => true) && disciplinedB md5 bps cs (stepS md5 bps cs s e) rest

/-- producers come before their consumers (the numbering of the harness is a topological order) -/
def wellOrderedB (cs : List SComp) : Bool :=
  (List.range cs.length).all fun j => match cs[j]? with
    | some c => (producersOf c).all fun p => p < j
    | none => true

end St4sd.Hash
