/-!
# Model of the stage controller (properties C01, C02)

Hand-written transition system for `experiment.runtime.control.Controller` +
`experiment.runtime.workflow.ComponentState` (st4sd-runtime-core), at the level of the
*notification channel* between components and the controller:

* `Op.sched`   one `Controller._schedule` pass (`_input_dependencies_satisfied`, the shutdown
               propagation rules, `finalize_submit_components`: stage-in, subscribe, `run()`);
* `Op.exit c`  the task of component `c` exits (environment); the exit reason of the k-th
               execution of `c` is the k-th entry of `c`'s script (`Success` beyond its end).  The engine of
               a *repeating* component ends only after `notify_all_producers_finished` (see `notified`) or
               after `kill()`: before that the operation is not enabled (`canExit`);
* `Op.pm c`    the controller thread runs `postMortemCheck` for the queued notification of `c`
               (`_restartComponent` or `TransitionComponentToFinalState`);
* `Op.fin c`   the controller thread runs `finishedCheck` for the queued notification of `c`
               (stop the stage on failure, add to `comp_done`);
* `Op.kill`    `killController` → `kill_all_components`;
* `Op.tick c`  the 5 s poll of `c`'s state observable (changes nothing that the controller sees);
* `Op.next`    one turn of the stage loop of `elaunch.Run`: `Controller.run()` has returned for the
               current stage (its loop saw no active component of the stage) and did not raise, or it
               raised and the stage has `continue-on-error`; `Controller.initialise(next stage)`
               makes the next stage current and resets `stop_executing`.  Not enabled otherwise.

Components are numbered topologically (`preds c` are `< c`, see `Wf.WF`); `order` is the
iteration order of `graph.nodes` which `_schedule`, `kill_all_components` and
`get_components_in_stage` use.  No Mathlib.  Everything is total and computable.
-/
namespace St4sd.Ctrl

inductive Reason
  | success | knownIssue | systemIssue | submissionFailed | unknownIssue | killed | cancelled
  | resourceExhausted
  deriving DecidableEq, Repr, Inhabited

/-- final component states (`FINISHED_STATE`, `FAILED_STATE`, `SHUTDOWN_STATE`) -/
inductive Fin3 | finished | failed | shutdown
  deriving DecidableEq, Repr, Inhabited

structure CompDef where
  stage : Nat := 0
  preds : List Nat := []
  isRepeat : Bool := false
  /-- `aggregate: true` -/
  isAgg : Bool := false
  /-- `componentSpecification.isReplicating` of this component *as a producer* -/
  isRepl : Bool := false
  shutdownOn : List Reason := []
  /-- `restartHookOn` -/
  restartOn : List Reason := []
  maxRestarts : Nat := 3
  /-- exit reason of every task execution, in order -/
  script : List Reason := []
  deriving Inhabited

structure Wf where
  n : Nat
  cdef : Nat → CompDef
  /-- iteration order of `graph.nodes` -/
  order : List Nat
  /-- index of the last stage of the experiment (`numStages() - 1`) -/
  lastStage : Nat := 0
  /-- `Controller._max_resubmission_attempts` -/
  resubCap : Nat := 5
  /-- stage option `continue-on-error` (read by the stage loop of `elaunch.Run`) -/
  contOnErr : Nat → Bool := fun _ => false

/-- well-formedness: topological numbering, `order` enumerates exactly the components -/
structure Wf.WF (wf : Wf) : Prop where
  topo : ∀ c, ∀ p ∈ (wf.cdef c).preds, p < c
  order_lt : ∀ c ∈ wf.order, c < wf.n
  order_all : ∀ c, c < wf.n → c ∈ wf.order

structure CompS where
  /-- `ComponentState.controllerState` (only final states are modelled) -/
  ctrl : Option Fin3 := none
  /-- `engine.exitReason()`; `none` = engine alive -/
  exit : Option Reason := none
  /-- `engine.run()` has been called -/
  ran : Bool := false
  finishCalled : Bool := false
  /-- member of `comp_staged_in` -/
  staged : Bool := false
  /-- number of `engine.run()` calls (first launch + restarts) -/
  launches : Nat := 0
  restarts : Nat := 0
  resub : Nat := 0
  /-- number of task exits so far (index into the script) -/
  execs : Nat := 0
  /-- `finish(st)` was called while the task was running: `st` is set when the task exits -/
  pendingFinal : Option Fin3 := none
  /-- `ComponentState.stageIn` of a repeating component: the producers whose finished-notification it
  subscribed to (`[p.notifyFinished for p in self.producers if p.isAlive()]`, merged: the engine is told
  `notify_all_producers_finished` when ALL of them have emitted; an empty list = told at once);
  `none` = `stageIn` made no subscription -/
  watch : Option (List Nat) := none
  deriving Inhabited

inductive Notif | fin (c : Nat) | pm (c : Nat)
  deriving DecidableEq, Repr

/-- what a launch sees of one producer: its true state (`none` = not final) and whether it is staged in -/
structure View where
  state : Option Fin3
  staged : Bool
  deriving DecidableEq, Repr

structure St where
  comp : Nat → CompS
  /-- `comp_done` -/
  done : Nat → Bool
  /-- `stop_executing` -/
  stop : Bool := false
  /-- index of `currentStage` -/
  cur : Nat := 0
  /-- queued notifications (a multiset: at most one of each, see `Props`) -/
  pending : List Notif := []
  /-- ghost: one entry per first launch (`ComponentState.run()` by the scheduler), newest last -/
  log : List (Nat × List (Nat × View)) := []

inductive Op | sched | exit (c : Nat) | fin (c : Nat) | pm (c : Nat) | kill | tick (c : Nat) | next
  deriving DecidableEq, Repr

def init : St := { comp := fun _ => {}, done := fun _ => false }

def St.upd (s : St) (c : Nat) (f : CompS → CompS) : St :=
  { s with comp := fun j => if j = c then f (s.comp j) else s.comp j }

def St.push (s : St) (n : Notif) : St := { s with pending := s.pending ++ [n] }

/-- `ComponentState.finish(st)` (+ the engine's reaction to `kill()` / `shutdown()`).
The finished-notification reaches the controller only if it subscribed, i.e. iff the component
is in `comp_staged_in`. -/
def finish (s : St) (c : Nat) (st : Fin3) : St :=
  let cs := s.comp c
  let note (t : St) : St := if cs.staged then t.push (.fin c) else t
  if cs.ctrl.isSome then
    -- already final: `controllerState` is overwritten (never happens from reachable states, see Props/C01)
    s.upd c fun x => { x with finishCalled := true, ctrl := some st }
  else if cs.exit.isSome then
    -- POSTMORTEM: immediate transition
    note (s.upd c fun x => { x with finishCalled := true, ctrl := some st })
  else if cs.ran then
    -- RUNNING with a live task: `engine.kill()`; the final state is set when the task exits
    s.upd c fun x => { x with finishCalled := true, pendingFinal := some st }
  else
    -- RUNNING, never launched: `Engine.kill()` before `run()` terminates the engine by itself
    note (s.upd c fun x => { x with finishCalled := true, ctrl := some st, exit := some .killed })

/-- `Controller._fake_finish_with_state` -/
def fakeFinish (s : St) (c : Nat) (st : Fin3) : St :=
  finish (s.upd c fun x => { x with staged := true }) c st

/-- `TransitionComponentToFinalState` -/
def finalOf (d : CompDef) (r : Reason) : Fin3 :=
  if r = .success then .finished else if r ∈ d.shutdownOn then .shutdown else .failed

/-- `_restartComponent` returns `RestartInitiated` (engine restart reduced to its counters) -/
def restartable (wf : Wf) (d : CompDef) (cs : CompS) (r : Reason) : Bool :=
  if r ∈ d.restartOn then decide (cs.restarts + 1 ≤ d.maxRestarts)
  else if r = .submissionFailed then decide (cs.resub < wf.resubCap) && decide (cs.restarts + 1 ≤ d.maxRestarts)
  else false

/-- `RepeatingEngine.notify_all_producers_finished` has been called on the engine of `c`: every
producer that `stageIn` subscribed to has emitted its finished-notification (is in a final state) -/
def notified (s : St) (c : Nat) : Bool :=
  match (s.comp c).watch with
  | some l => l.all fun p => (s.comp p).ctrl.isSome
  | none => false

/-- the task of `c` can exit now.  A plain engine runs its task once: it may end at any time.  A
`RepeatingEngine` relaunches its task until it is told that all producers finished (then it ends with the
exit reason of its last execution) or until `kill()` (= `finish` was called while it ran). -/
def canExit (wf : Wf) (s : St) (c : Nat) : Bool :=
  (s.comp c).ran && (s.comp c).exit.isNone &&
    (!(wf.cdef c).isRepeat || notified s c || (s.comp c).pendingFinal.isSome)

/-- what the exit of the task of `c` does (when it happens) -/
def taskExitCore (wf : Wf) (s : St) (c : Nat) : St :=
  let cs := s.comp c
  if cs.ran && cs.exit.isNone then
    let r := (wf.cdef c).script.getD cs.execs .success
    let cs1 : CompS := { cs with exit := some r, execs := cs.execs + 1,
                                 resub := if r = .success then 0 else cs.resub }
    match cs.pendingFinal with
    | some st =>
      let t := s.upd c fun _ => { cs1 with ctrl := some st, pendingFinal := none }
      if cs.staged then t.push (.fin c) else t
    | none =>
      let t := s.upd c fun _ => cs1
      if cs.finishCalled then t else t.push (.pm c)
  else s

def taskExit (wf : Wf) (s : St) (c : Nat) : St :=
  if canExit wf s c then taskExitCore wf s c else s

def deliverPM (wf : Wf) (s : St) (c : Nat) : St :=
  if Notif.pm c ∈ s.pending then
    let s := { s with pending := s.pending.erase (.pm c) }
    let cs := s.comp c
    if cs.finishCalled then s else
    match cs.exit with
    | none => s
    | some r =>
      let d := wf.cdef c
      if restartable wf d cs r then
        s.upd c fun x => { x with exit := none, launches := x.launches + 1,
                                  restarts := if r = .submissionFailed then x.restarts else x.restarts + 1,
                                  resub := if r = .submissionFailed then x.resub + 1 else x.resub }
      else finish s c (finalOf d r)
  else s

/-- components of stage `k` in `graph.nodes` order -/
def inStage (wf : Wf) (k : Nat) : List Nat := wf.order.filter fun c => (wf.cdef c).stage == k

/-- `Controller._stopComponents(components of stage k)`: `finish(SHUTDOWN)` for every component that is
alive and has not been asked to finish - whether the controller subscribed to it (staged in) or not.
Called by the FAILED branch of `finishedCheck` (second half of `stopStage`) and, on its own, by the
closure of `_observe_completionCheck` when the external stage-completion hook returns `True`. -/
def stopComponents (wf : Wf) (s : St) (k : Nat) : St :=
  (inStage wf k).foldl
    (fun s c => if (s.comp c).ctrl.isNone && !(s.comp c).finishCalled then finish s c .shutdown else s) s

/-- the FAILED branch of `finishedCheck` for a component of the current (or an earlier) stage -/
def stopStage (wf : Wf) (s : St) (k : Nat) : St :=
  let s1 := (inStage wf k).foldl
    (fun s c => if !(s.comp c).staged && !(s.comp c).finishCalled then fakeFinish s c .shutdown else s) s
  (inStage wf k).foldl
    (fun s c => if (s.comp c).ctrl.isNone && !(s.comp c).finishCalled then finish s c .shutdown else s) s1

/-- `kill_all_components` -/
def killAll (wf : Wf) (s : St) : St :=
  wf.order.foldl
    (fun s c =>
      if !(s.comp c).finishCalled && (s.comp c).ctrl.isNone then
        if (s.comp c).staged then finish s c .shutdown else fakeFinish s c .shutdown
      else s)
    { s with stop := true }

def deliverFin (wf : Wf) (s : St) (c : Nat) : St :=
  if Notif.fin c ∈ s.pending then
    let s := { s with pending := s.pending.erase (.fin c) }
    let s :=
      if (s.comp c).ctrl = some .failed then
        if (wf.cdef c).stage > s.cur then killAll wf s else stopStage wf s (wf.cdef c).stage
      else s
    { s with done := fun j => decide (j = c) || s.done j }
  else s

/-- `_input_dependencies_satisfied` -/
def depsSatisfied (wf : Wf) (s : St) (c : Nat) : Bool :=
  (wf.cdef c).preds.all fun p =>
    s.done p ||
      ((wf.cdef c).isRepeat && (wf.cdef p).stage == (wf.cdef c).stage && (s.comp p).staged)

def predState (s : St) (p : Nat) : Option Fin3 := (s.comp p).ctrl

/-- decision of `_schedule` for a component whose dependencies are satisfied:
`true` = shut it down without running it -/
def mustShutdown (wf : Wf) (s : St) (c : Nat) : Bool :=
  let d := wf.cdef c
  if d.preds.any (fun p => predState s p == some .failed) then true
  else if d.isAgg then
    let repl := d.preds.filter fun p => (wf.cdef p).isRepl
    let nonrepl := d.preds.filter fun p => !(wf.cdef p).isRepl
    if nonrepl.any (fun p => predState s p == some .shutdown) then true
    else !repl.isEmpty && repl.all (fun p => predState s p == some .shutdown)
  else d.preds.any (fun p => predState s p == some .shutdown)

/-- the scheduler looks at this component in this pass -/
def eligible (wf : Wf) (s : St) (c : Nat) : Bool :=
  !s.done c && (s.comp c).ctrl.isNone && !(s.comp c).staged && depsSatisfied wf s c

def visit (wf : Wf) (acc : St × List Nat) (c : Nat) : St × List Nat :=
  if eligible wf acc.1 c then
    if mustShutdown wf acc.1 c then (fakeFinish acc.1 c .shutdown, acc.2) else (acc.1, acc.2 ++ [c])
  else acc

def viewOf (s : St) (p : Nat) : Nat × View := (p, { state := predState s p, staged := (s.comp p).staged })

/-- `comp.stageIn()` + `comp_staged_in.add(comp)` of `finalize_submit_components`; a repeating component
that has not been asked to finish subscribes to the producers that are alive now -/
def stageIn (wf : Wf) (s : St) (c : Nat) : St :=
  s.upd c fun x =>
    { x with staged := true,
             watch := if (wf.cdef c).isRepeat && !x.finishCalled then
                        some ((wf.cdef c).preds.filter fun p => (s.comp p).ctrl.isNone)
                      else x.watch }

/-- `comp.run()` of `finalize_submit_components` (the component cannot be SHUTDOWN here) -/
def runComp (wf : Wf) (s : St) (c : Nat) : St :=
  let s1 := s.upd c fun x => { x with ran := true, launches := x.launches + 1 }
  { s1 with log := s.log ++ [(c, (wf.cdef c).preds.map (viewOf s))] }

def schedPass (wf : Wf) (s : St) : St :=
  let r := wf.order.foldl (visit wf) (s, [])
  if r.1.stop then r.1 else
  r.2.foldl (runComp wf) (r.2.foldl (stageIn wf) r.1)

/-! ## main loop of `Controller.run()` and the stage loop of `elaunch.Run` -/

def comps (wf : Wf) : List Nat := List.range wf.n

/-- `get_active_components() == []`: the loop of `run()` ends -/
def stageDone (wf : Wf) (s : St) : Bool :=
  (comps wf).all fun c => (wf.cdef c).stage != s.cur || s.done c

inductive Verdict | ok | jobFailure | noFinishedLeaf
  deriving DecidableEq, Repr

def isLeaf (wf : Wf) (c : Nat) : Bool := (comps wf).all fun d => !(wf.cdef d).preds.contains c

/-- what `run()` does after its loop: `UnexpectedJobFailureError` if a component of the stage is
failed, `FinalStageNoFinishedLeafComponents` for a last stage without a finished leaf -/
def verdict (wf : Wf) (s : St) : Verdict :=
  let mine := (comps wf).filter fun c => (wf.cdef c).stage == s.cur
  if mine.any (fun c => (s.comp c).ctrl == some .failed) then .jobFailure
  else if s.cur == wf.lastStage &&
      !(mine.any fun c => isLeaf wf c && (s.comp c).ctrl == some .finished) then .noFinishedLeaf
  else .ok

/-- the stage loop goes on to the next stage: the loop of `run()` has ended, there is a next stage,
and `run()` returned normally or the stage is marked `continue-on-error`
(`FinalStageNoFinishedLeafComponents` can only be raised for the last stage) -/
def canAdvance (wf : Wf) (s : St) : Bool :=
  stageDone wf s && decide (s.cur < wf.lastStage) && (verdict wf s == .ok || wf.contOnErr s.cur)

/-- `Controller.initialise(next stage)` when the controller started from stage 0: no component is
touched; `currentStage` moves on and `stop_executing` is reset -/
def advance (wf : Wf) (s : St) : St :=
  if canAdvance wf s then { s with cur := s.cur + 1, stop := false } else s

def step (wf : Wf) (s : St) : Op → St
  | .sched => schedPass wf s
  | .exit c => taskExit wf s c
  | .fin c => deliverFin wf s c
  | .pm c => deliverPM wf s c
  | .kill => killAll wf s
  | .tick _ => s
  | .next => advance wf s

def run (wf : Wf) (ops : List Op) : St := ops.foldl (step wf) init

/-- ghost history of the stage loop: `(stage, what run() reported for it)` for every stage that the
loop has left behind, oldest first -/
abbrev Reports := List (Nat × Verdict)

def stepR (wf : Wf) (a : St × Reports) (op : Op) : St × Reports :=
  (step wf a.1 op,
   if op = .next && canAdvance wf a.1 then a.2 ++ [(a.1.cur, verdict wf a.1)] else a.2)

/-- `run` together with the reports of the completed stages -/
def runR (wf : Wf) (ops : List Op) : St × Reports := ops.foldl (stepR wf) (init, [])

/-- true state of a component as `ComponentState.state` reports it -/
inductive CState | running | postmortem | final (f : Fin3)
  deriving DecidableEq, Repr

def cstate (cs : CompS) : CState :=
  match cs.ctrl with
  | some f => .final f
  | none => if cs.exit.isSome then .postmortem else .running

/-! ## quiescence -/

/-- no operation other than stuttering is enabled: no live task, nothing queued, and the
scheduler has nothing to do -/
def quiescent (wf : Wf) (s : St) : Bool :=
  s.pending.isEmpty &&
  (comps wf).all (fun c => !((s.comp c).ran && (s.comp c).exit.isNone)) &&
  (comps wf).all (fun c => !eligible wf s c)

/-- the same with "no live task" replaced by "no task that can exit": a repeating engine that waits for
`notify_all_producers_finished` is live but not enabled.  `Props/C02` shows that the two notions
coincide on reachable states (no observer is left waiting for ever). -/
def quiescentR (wf : Wf) (s : St) : Bool :=
  s.pending.isEmpty &&
  (comps wf).all (fun c => !canExit wf s c) &&
  (comps wf).all (fun c => !eligible wf s c)

/-! ## the documented rules as a function of the workflow alone (C02) -/

/-- outcome of a component's own executions: walk the script through the restart policy -/
def ownFrom (wf : Wf) (d : CompDef) : List Reason → Nat → Nat → Fin3
  | [], _, _ => .finished
  | r :: rest, restarts, resub =>
    let resub0 := if r = .success then 0 else resub
    if restartable wf d { restarts := restarts, resub := resub0 } r then
      ownFrom wf d rest (if r = .submissionFailed then restarts else restarts + 1)
        (if r = .submissionFailed then resub0 + 1 else resub0)
    else finalOf d r

def own (wf : Wf) (c : Nat) : Fin3 := ownFrom wf (wf.cdef c) (wf.cdef c).script 0 0

/-- shutdown rule on a table of producer states -/
def ruleShutdown (wf : Wf) (tbl : Nat → Fin3) (c : Nat) : Bool :=
  let d := wf.cdef c
  if d.preds.any (fun p => tbl p == .failed) then true
  else if d.isAgg then
    let repl := d.preds.filter fun p => (wf.cdef p).isRepl
    let nonrepl := d.preds.filter fun p => !(wf.cdef p).isRepl
    if nonrepl.any (fun p => tbl p == .shutdown) then true
    else !repl.isEmpty && repl.all (fun p => tbl p == .shutdown)
  else d.preds.any (fun p => tbl p == .shutdown)

/-- `specTable wf k` = rule-given states of components `0..k-1` (later ones default to finished) -/
def specTable (wf : Wf) : Nat → (Nat → Fin3)
  | 0 => fun _ => .finished
  | k + 1 =>
    let t := specTable wf k
    fun c => if c = k then (if ruleShutdown wf t k then .shutdown else own wf k) else t c

def spec (wf : Wf) (c : Nat) : Fin3 := specTable wf (c + 1) c

end St4sd.Ctrl
