import St4sd.Model.Repl
/-!
# Replication (C03): resolving `workflowAttributes.replicate` / `aggregate` given through variables

Model of the first loop of `FlowIR.apply_replicate` (flowir.py): for every component, in the order the
components are handed in, the variables visible to the component are layered

    visible_vars = override_object(override_object(deep_copy(global), deep_copy(stage_vars)), comp_vars)

(component over stage over global, the layering of C04) and `workflowAttributes.replicate` (→ `int`) and
`workflowAttributes.aggregate` (→ `to_bool`) are filled in from `visible_vars`.  Every iteration starts
from fresh deep copies of the global and stage scopes, so an iteration is a pure function of the
component and of the three scopes it can see: `resolveIn`.  The pass (`resolveAll`) is the list of the
per-component results; it stops at the first component (in processing order) whose value cannot be
resolved (`FlowIRVariableUnknown`) or converted (`ValueError`).

Values are modelled by their text `str(value)`; an attribute is absent (`None` / missing key), a
literal, or exactly one variable reference `%(name)s` whose value contains no further reference (what
the harness generates).  `int(text)` is modelled for non-empty all-digit texts.
-/
namespace St4sd.Repl
open St4sd.Str

/-- a variable scope: a flat `dict` name ↦ `str(value)`; the first entry for a name is its value -/
abbrev Vars := List (S × S)

def lookup : Vars → S → Option S
  | [], _ => none
  | (k', v) :: rest, k => if k' == k then some v else lookup rest k

/-- `FlowIR.override_object(old, new)` on flat dictionaries of primitive values, as a finite map: the
entries of `new` replace / are added to those of `old` -/
def override (old new : Vars) : Vars := new ++ old

/-- `visible_vars` of `apply_replicate` -/
def visible (g s own : Vars) : Vars := override (override g s) own

/-- how an attribute is given -/
inductive Spec
  | absent
  | lit (text : S)
  | var (name : S)
deriving DecidableEq, Repr

inductive RErr | unresolved | convert
deriving DecidableEq, Repr

/-- `FlowIR.fill_in(value, visible_vars, is_primitive=True)` for the three shapes -/
def fillIn (vis : Vars) : Spec → Except RErr (Option S)
  | .absent => .ok none
  | .lit t => .ok (some t)
  | .var n =>
    match lookup vis n with
    | some t => .ok (some t)
    | none => .error .unresolved

/-- `to_bool` of `apply_replicate` (a `bool` goes through as `str(bool).lower()`) -/
def toBool (t : S) : Option Bool :=
  let l := lower t
  if l == "true".toList || l == "y".toList || l == "yes".toList then some true
  else if l == "false".toList || l == "n".toList || l == "no".toList then some false
  else none

/-- resolved `workflowAttributes.replicate` -/
def countIn (vis : Vars) (sp : Spec) : Except RErr (Option Nat) :=
  match fillIn vis sp with
  | .error e => .error e
  | .ok none => .ok none
  | .ok (some t) =>
    match digitsToNat? t with
    | some n => .ok (some n)
    | none => .error .convert

/-- resolved `workflowAttributes.aggregate` (absent = `False`) -/
def aggIn (vis : Vars) (sp : Spec) : Except RErr Bool :=
  match fillIn vis sp with
  | .error e => .error e
  | .ok none => .ok false
  | .ok (some t) =>
    match toBool t with
    | some b => .ok b
    | none => .error .convert

/-- One iteration of the resolution loop, as a function of the scopes the component can see (global,
the variables of its stage, its own variables) and of its two attributes: `replicate` first, then
`aggregate`. -/
def resolveIn (g s own : Vars) (replicate aggregate : Spec) : Except RErr (Option Nat × Bool) :=
  match countIn (visible g s own) replicate with
  | .error e => .error e
  | .ok n =>
    match aggIn (visible g s own) aggregate with
    | .error e => .error e
    | .ok a => .ok (n, a)

/-- a component as the document gives it -/
structure Raw where
  stage : Nat
  name : S
  refs : List Ref
  vars : Vars
  replicate : Spec
  aggregate : Spec
deriving DecidableEq, Repr

/-- `resolved_components[c_id]`; `st i` = the variables of stage `i` (`{}` when the stage has none) -/
def resolveComp (g : Vars) (st : Nat → Vars) (r : Raw) : Except RErr Comp :=
  match resolveIn g (st r.stage) r.vars r.replicate r.aggregate with
  | .error e => .error e
  | .ok (n, a) => .ok { stage := r.stage, name := r.name, refs := r.refs, repl := n, agg := a }

/-- the resolution loop over the components in processing order -/
def resolveAll (g : Vars) (st : Nat → Vars) : List Raw → Except RErr (List Comp)
  | [] => .ok []
  | r :: rs =>
    match resolveComp g st r with
    | .error e => .error e
    | .ok c =>
      match resolveAll g st rs with
      | .error e => .error e
      | .ok cs => .ok (c :: cs)

inductive XErr | resolve (e : RErr) | expand (e : Err)
deriving DecidableEq, Repr

/-- `apply_replicate` on a raw document: resolution loop, then propagation + expansion (`expand`) -/
def expandRaw (g : Vars) (st : Nat → Vars) (wf : List Raw) : Except XErr (List Comp) :=
  match resolveAll g st wf with
  | .error e => .error (.resolve e)
  | .ok cs =>
    match expand cs with
    | .error e => .error (.expand e)
    | .ok out => .ok out

/-- stage scopes given as an association list -/
def stageVars (l : List (Nat × Vars)) (i : Nat) : Vars :=
  match l.find? (·.1 == i) with
  | some e => e.2
  | none => []

/-! ## the variables of a copy: every copy knows its own replica index

`compile_component_replica` (flowir.py) back-patches the component-level variables of copy `i` with

    variables = component.get('variables', {});  variables['replica'] = replica

i.e. the injected index **replaces** whatever the component defines for `replica` itself; every other
variable of the component is kept.  Components that are not replicated (outside the region, aggregators)
keep their variables as they are.  As a finite map (the first entry for a name is its value) the
assignment is an `override` with the single entry `replica ↦ str(i)`. -/

def replicaKey : S := "replica".toList

/-- component-level `variables` of copy `i` of a component whose own variables are `own` -/
def copyVars (own : Vars) (i : Nat) : Vars := override own [(replicaKey, natToDigits i)]

/-- component-level variables of what component `c` (own variables `own`, propagated count `p`) expands
to; aligned with `piece d c p` (same case analysis, same order) -/
def pieceVars (c : Comp) (own : Vars) (p : Option Nat) : List Vars :=
  if c.agg then [own]
  else if 0 < p.getD 0 then (List.range (p.getD 0)).map (copyVars own)
  else [own]

/-- the pass of `go` / `goText`, emitting the component-level variables of every emitted component -/
def goVars : Done → List Vars → List (Comp × Vars) → Option (List Vars)
  | _, out, [] => some out
  | d, out, (c, vs) :: cs =>
    match decide1 (vals d c) with
    | some p => goVars ((c, p) :: d) (out ++ pieceVars c vs p) cs
    | none => none

/-- a scope as a mapping: the names it defines (first occurrence order) with their values -/
def normVars (v : Vars) : Vars :=
  (v.map (·.1)).eraseDups.filterMap fun k => (lookup v k).map fun t => (k, t)

end St4sd.Repl
