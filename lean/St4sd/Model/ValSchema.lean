/-!
# C11 — values, the schema language of `validate_object_schema`, and the type conversion pre-pass

Mirrors `python/experiment/model/frontends/flowir.py`:

* `validate_object_schema(obj, schema, label)` (lines 859-1064) restricted to the constructs that the
  component schema `FlowIR.type_flowir_component` uses: constants (`None`, strings), types
  (`bool`, `int`, `float`, `string_types`), predicates (callables), `ValidateOptional`, `ValidateOr`,
  `ValidateMany`, dictionaries whose keys are constants (`key('x')`) or `ValidateOptional('x')`.
  A list schema `[a, b]` is `many (or [a, b])` (every element must match one alternative).
* `FlowIR.convert_component_types` (lines 4057-4221): `convert`.

Quirks kept: `isinstance(True, int)` (a `bool` passes an `int` type rule); `float` does not admit `int`;
the conversion is applied only to `str`/`int`/`bool` values and to dictionaries (by table key) — a YAML float is
never converted (`int(2.5)` would silently give `2`), so a float given for an `int` option reaches the schema as a
float and is reported —, `bool('zzz')` is `True` (see `Witness/C11.lean`).
No Mathlib.  Structural recursion only.
-/
namespace St4sd.ValSchema

abbrev S := List Char

inductive Val where
  | null
  | bool (b : Bool)
  | int (i : Int)
  /-- a YAML float (`2.5`, `0.5`, `3.0`, `1e3`): `whole` is what `int(value)` would give (truncation toward zero),
  `frac` says whether a fractional part is lost by that (`2.5` = `float 2 true`, `3.0` = `float 3 false`).  The
  loader never looks at either: a float is a float, whole or not (`isinstance(3.0, int)` is `False`). -/
  | float (whole : Int) (frac : Bool)
  | str (s : S)
  | list (xs : List Val)
  | dict (kvs : List (S × Val))
  deriving Repr, Inhabited

inductive Ty where
  | bool | int | float | str | dict | list
  deriving DecidableEq, Repr

inductive Pred where
  | isVarReference | restartHookFile | maxRestartsInt | dictOrNone | kubernetesQos | schemaMemory
  deriving DecidableEq, Repr

inductive Schema where
  | null
  | const (s : S)
  | ty (ts : List Ty)
  | pred (p : Pred)
  | opt (s : Schema)
  | or (alts : List Schema)
  | many (s : Schema)
  | dict (entries : List (S × Bool × Schema))
  deriving Repr, Inhabited

inductive ConvKind where
  | str | int | bool | toBool | float | strToBool | optionalInt | memoryToBytes | kubernetesQos | dict
  deriving DecidableEq, Repr

inductive Conv where
  | leaf (k : ConvKind)
  | node (es : List (S × Conv))
  deriving Repr, Inhabited

/-- errors of the schema check (`FlowIRKeyUnknown`, `FlowIRValueInvalid`, `FlowIRKeyMissing`) with the key -/
inductive SErr where
  | keyUnknown (k : S)
  | valueInvalid
  | keyMissing (k : S)
  | convertFailed
  deriving DecidableEq, Repr

/-! ## string helpers -/

def isDigit (c : Char) : Bool := '0' ≤ c && c ≤ '9'

def allDigits : S → Bool
  | [] => false
  | cs => cs.all isDigit

/-- `int(s)` succeeds (optional sign, digits; surrounding blanks not generated) -/
def parsesInt : S → Bool
  | '-' :: cs => allDigits cs
  | '+' :: cs => allDigits cs
  | cs => allDigits cs

def isNegLiteral : S → Bool
  | '-' :: _ => true
  | _ => false

/-- `float(s)` succeeds on the strings we generate: an integer literal or digits '.' digits -/
def parsesFloat (s : S) : Bool :=
  parsesInt s ||
  (match s.span (· != '.') with
   | (a, '.' :: b) => parsesInt a && allDigits b
   | _ => false)

def varChar (c : Char) : Bool := c.isAlphanum || c == '_' || c == '.' || c == '-'

/-- `s` starts with `name)s` for a non-empty name: the rest of a `%(name)s` occurrence -/
def varTail : Nat → S → Bool
  | n, ')' :: 's' :: _ => n > 0
  | n, c :: cs => varChar c && varTail (n + 1) cs
  | _, [] => false

/-- `re.search(r'%\([a-zA-Z0-9_.-]+\)s', s)` -/
def hasVarRef : S → Bool
  | '%' :: '(' :: cs => varTail 0 cs || hasVarRef ('(' :: cs)
  | _ :: cs => hasVarRef cs
  | [] => false

def idxTail : Nat → S → Bool
  | n, ']' :: _ => n > 0
  | n, c :: cs => isDigit c && idxTail (n + 1) cs
  | _, [] => false

/-- `re.search(r'\[(\d+)\]', s)` -/
def hasIndex : S → Bool
  | '[' :: cs => idxTail 0 cs || hasIndex cs
  | _ :: cs => hasIndex cs
  | [] => false

def lower (s : S) : S := s.map Char.toLower

def qosNames : List S := ["guaranteed".toList, "burstable".toList, "besteffort".toList]

def endsWith (s suf : S) : Bool := suf.isSuffixOf s

/-- `FlowIR.memory_to_bytes(s)` does not raise, for a string -/
def memoryStrOk (s : S) : Bool :=
  parsesInt s ||
  ((endsWith s "Mi".toList || endsWith s "Gi".toList) && parsesInt (s.take (s.length - 2)))

/-! ## predicates of the component schema -/

def Pred.holds : Pred → Val → Bool
  | .isVarReference, .str s => hasVarRef s || hasIndex s
  | .isVarReference, _ => false
  | .restartHookFile, .null => true
  | .restartHookFile, .str s => !(s.contains '/')
  | .restartHookFile, _ => false
  | .maxRestartsInt, .int i => i ≥ -1
  | .maxRestartsInt, .bool _ => true          -- isinstance(True, int), True >= -1
  | .maxRestartsInt, _ => false
  | .dictOrNone, .null => true
  | .dictOrNone, .dict _ => true
  | .dictOrNone, _ => false
  | .kubernetesQos, .null => true             -- str_to_kubernetes_qos(None) returns a (truthy) default
  | .kubernetesQos, .str s => qosNames.contains (lower s)
  | .kubernetesQos, _ => false                -- AttributeError inside safe_call
  | .schemaMemory, .null => true
  | .schemaMemory, .int _ => true
  | .schemaMemory, .bool _ => true
  | .schemaMemory, .float _ _ => true         -- int(1.5) works
  | .schemaMemory, .str s => memoryStrOk s || hasVarRef s || hasIndex s
  | .schemaMemory, _ => false

/-- `isinstance(v, t)` -/
def Ty.admits : Ty → Val → Bool
  | .bool, .bool _ => true
  | .int, .int _ => true
  | .int, .bool _ => true
  | .float, .float _ _ => true
  | .str, .str _ => true
  | .dict, .dict _ => true
  | .list, .list _ => true
  | _, _ => false

def lookup (k : S) : List (S × α) → Option α
  | [] => none
  | (k', v) :: rest => if k = k' then some v else lookup k rest

def keysOf (entries : List (S × Bool × Schema)) : List S := entries.map (·.1)

/-! ## `validate_object_schema` -/

mutual
/-- errors of `validate_object_schema(v, s, _)` (as a list; the order of the Python work list is not kept) -/
def check : Schema → Val → List SErr
  | .null, .null => []
  | .null, _ => [.valueInvalid]
  | .const c, .str s => if s = c then [] else [.valueInvalid]
  | .const _, _ => [.valueInvalid]
  | .ty ts, v => if ts.any (·.admits v) then [] else [.valueInvalid]
  | .pred p, v => if p.holds v then [] else [.valueInvalid]
  | .opt _, .null => []
  | .opt s, v => check s v
  | .or alts, v => if checkAny alts v then [] else [.valueInvalid]
  | .many s, .list xs => xs.flatMap (fun x => check s x)
  | .many _, _ => [.valueInvalid]
  | .dict entries, .dict kvs =>
      ((kvs.filter (fun kv => !(keysOf entries).contains kv.1)).map (fun kv => SErr.keyUnknown kv.1))
        ++ checkEntries entries kvs
  | .dict _, _ => [.valueInvalid]
/-- some alternative validates without error -/
def checkAny : List Schema → Val → Bool
  | [], _ => false
  | s :: rest, v => (check s v).isEmpty || checkAny rest v
/-- for every rule of a dictionary schema: check the value of its key, or report a missing required key -/
def checkEntries : List (S × Bool × Schema) → List (S × Val) → List SErr
  | [], _ => []
  | (k, optional, s) :: rest, kvs =>
      (match lookup k kvs with
       | some .null => []          -- `None` for a known key is "not set": the layering keeps the default
       | some v => check s v
       | none => if optional then [] else [.keyMissing k]) ++ checkEntries rest kvs
end

/-! ## `convert_component_types` -/

/-- `expected_type(value)` for a `str`/`int`/`bool` value: `none` when the call raises -/
def convLeaf : ConvKind → Val → Option Val
  | .str, .str s => some (.str s)
  | .str, .int _ => some (.str ['0'])          -- some numeric string; only its kind matters downstream
  | .str, .bool _ => some (.str "True".toList)
  | .int, .int i => some (.int i)
  | .int, .bool b => some (.int (if b then 1 else 0))
  | .int, .str s => if parsesInt s then some (.int (if isNegLiteral s then -2 else 7)) else none
  | .optionalInt, .int i => some (.int i)
  | .optionalInt, .bool b => some (.int (if b then 1 else 0))
  | .optionalInt, .str s => if parsesInt s then some (.int (if isNegLiteral s then -2 else 7)) else none
  | .bool, .bool b => some (.bool b)
  | .bool, .int i => some (.bool (i != 0))
  | .bool, .str s => some (.bool (!s.isEmpty))   -- bool('false') is True
  | .toBool, .bool b => some (.bool b)          -- repaired converter: strings through str_to_bool
  | .toBool, .int i => some (.bool (i != 0))
  | .toBool, .str s =>
      if ["true".toList, "yes".toList].contains (lower s) then some (.bool true)
      else if ["false".toList, "no".toList].contains (lower s) then some (.bool false) else none
  | .float, .int i => some (.float i false)
  | .float, .bool b => some (.float (if b then 1 else 0) false)
  | .float, .str s => if parsesFloat s then some (.float 7 false) else none   -- some float; only its kind matters
  | .strToBool, .bool b => some (.bool b)
  | .strToBool, .str s =>
      if ["true".toList, "yes".toList].contains (lower s) then some (.bool true)
      else if ["false".toList, "no".toList].contains (lower s) then some (.bool false) else none
  | .strToBool, .int _ => none                   -- AttributeError: int has no lower()
  | .memoryToBytes, .int i => some (.int i)
  | .memoryToBytes, .bool b => some (.int (if b then 1 else 0))
  | .memoryToBytes, .str s => if memoryStrOk s then some (.int 7) else none
  | .kubernetesQos, .str s => if qosNames.contains (lower s) then some (.str (lower s)) else none
  | .kubernetesQos, .int _ => none
  | .kubernetesQos, .bool _ => none
  | .dict, _ => none                             -- dict('zzz'), dict(7) raise
  | _, v => some v

def isConvertible : Val → Bool
  | .str _ => true
  | .int _ => true
  | .bool _ => true
  | _ => false

/-- the `for key in value` loop: every value through `f`, failing when one fails -/
def mapKvs (f : S → Val → Option Val) : List (S × Val) → Option (List (S × Val))
  | [] => some []
  | (k, v) :: rest =>
      match f k v, mapKvs f rest with
      | some v', some rest' => some ((k, v') :: rest')
      | _, _ => none

mutual
/-- `convert(value, expected_type, label)`; `none` = an error was recorded (the component is reported invalid) -/
def convert : Conv → Val → Option Val
  | .leaf k, v =>
      if isConvertible v then convLeaf k v
      else some v                       -- None, float, list pass through; a dict under `dict` too
  | .node es, .dict kvs => (mapKvs (fun k v => convLookup es k v) kvs).map Val.dict
  | .node _, v => if isConvertible v then none else some v   -- calling a dict: TypeError
/-- value of key `k` converted by the table entry of `k` if there is one -/
def convLookup : List (S × Conv) → S → Val → Option Val
  | [], _, v => some v
  | (k', c) :: rest, k, v => if k = k' then convert c v else convLookup rest k v
end

mutual
/-- some option is converted with Python's builtin `bool` (which maps every non-empty string to `True`) -/
def Conv.usesBuiltinBool : Conv → Bool
  | .leaf k => k == .bool
  | .node es => usesBuiltinBoolList es
def usesBuiltinBoolList : List (S × Conv) → Bool
  | [] => false
  | (_, c) :: rest => c.usesBuiltinBool || usesBuiltinBoolList rest
end

/-! ## floats against a schema -/

mutual
/-- the schema may validate a float: a `float` type rule, the `memory` predicate (`int(value)` works for a float),
some alternative of a `ValidateOr`; never a constant, a collection rule or another type rule -/
def mayAdmitFloat : Schema → Bool
  | .null => false
  | .const _ => false
  | .ty ts => ts.contains .float
  | .pred p => p.holds (.float 0 false)
  | .opt s => mayAdmitFloat s
  | .or alts => mayAdmitFloatAny alts
  | .many _ => false
  | .dict _ => false
def mayAdmitFloatAny : List Schema → Bool
  | [] => false
  | s :: rest => mayAdmitFloat s || mayAdmitFloatAny rest
end

/-- the rule of key `k` in a dictionary schema (the first one, as `lookup`) -/
def entryOf (k : S) : List (S × Bool × Schema) → Option Schema
  | [] => none
  | (k', _, s) :: rest => if k = k' then some s else entryOf k rest

/-- the sub-schema an option path leads to -/
def schemaAt : Schema → List S → Option Schema
  | s, [] => some s
  | .dict entries, k :: rest =>
      (match entryOf k entries with
       | some s => schemaAt s rest
       | none => none)
  | _, _ :: _ => none

/-- the conversion an option path leads to in the conversion table (`none`: the value is not converted) -/
def convKindAt : List (S × Conv) → List S → Option ConvKind
  | _, [] => none
  | tbl, k :: rest =>
      (match lookup k tbl, rest with
       | some (.leaf c), [] => some c
       | some (.node es), _ :: _ => convKindAt es rest
       | _, _ => none)

/-- the option tree `{p₀: {p₁: … {pₙ: v}}}` -/
def treeAt : List S → Val → Val
  | [], v => v
  | k :: rest, v => .dict [(k, treeAt rest v)]

/-- the path with its last key misspelled (an `x` appended) -/
def misspellLast : List S → List S
  | [] => []
  | [k] => [k ++ ['x']]
  | k :: rest => k :: misspellLast rest

def SErr.isMissing : SErr → Bool
  | .keyMissing _ => true
  | _ => false

/-- errors for the options a component sets: conversion, then the schema.  Keys the component does not set are
supplied by `FlowIR.default_component_structure` before the check (trusted to conform to the schema), so
`keyMissing` cannot arise for the component's own options and is dropped here. -/
def optErrors (tbl : List (S × Conv)) (sch : Schema) (opts : Val) : List SErr :=
  match convert (.node tbl) opts with
  | none => [.convertFailed]
  | some o => (check sch o).filter (fun e => !e.isMissing)

end St4sd.ValSchema
