import St4sd.Model.Str
/-!
# C06 — abstract DSL 2.0 namespace, operational flattener and denotational spec

Model of `experiment/model/frontends/dsl.py` (`ScopeStack.discover_all_instances_of_templates`,
`ScopeStack.from_namespace`, `replace_parameter_references`, `Scope.replace_step_references`,
`ComponentFlowIR.convert_outputreferences_to_datareferences`, `namespace_to_flowir`).

Abstraction: values (execute arguments, parameter defaults, `command.arguments`) are *token lists*
instead of text: literal chunk, parameter reference `%(p)s`, output reference `<a/b/..>[:method]`
(location = step names followed by path segments, as `OutputReference.from_str` flattens them) and a
suffix chunk `/x/y[:method]` which, when it textually follows an output reference that has no method yet,
is re-lexed by the code's regular expression into one longer reference (`merge`).  The harness renders
tokens to text for the real code (with varying reference spellings) and the model's answer back to text.

`flattenOp` follows the code: tree walk in the code's visit order (component steps in reverse `execute`
order first, then workflow steps, depth first), cycle check against the templates on the scope stack,
one level of substitution per nesting level against the *materialised* parameters of the parent scope,
`-I, -II …` naming, conversion of output references by longest scope prefix.  (The code resolves after
the walk through a dictionary keyed by instance location, parents before children; the model resolves
against the parent frame at visit time — same data dependencies, checked by the correspondence run.)

`flattenSpec` is denotational: an instance is a path of step names; the value of a parameter is the
argument supplied along the call chain (or the declared default), looked up lazily (`valueOf`).

Non-string parameter values: a value is either text (a token list) or exactly one `dict` / `num` token
(a YAML dictionary / a number or boolean).  `%(p)s` as the *whole* value forwards the value with its type
(`substV`); `%(p)s` inside a longer string inserts `str(value)` for a number and is an error for a dictionary
(`embed`; the code raises `ValueError`, reported at the field's location: modelled as "the parameter reference
stays", which is exactly what the error checks of the callers look at).  A component may use one parameter as
its `command.environment` (`envParam`): the value must be a dictionary or the literal `none`.

User variables (`global` section of the variable files given to the configuration layer,
`DSLExperimentConfiguration.__init__` → `override_entrypoint_args`) are a layer above the arguments of
`entrypoint.execute[0]`: `Namespace.effArgs` (user variable, else entrypoint argument, else declared default).

Component names are `(stage, name)` pairs read out of the step name by `SignatureNamePattern` (`parseName`:
`stage<N>.x` → `(N, x)`, anything else → `(0, step)`); conflicts are resolved on the pairs (`assignNames`).

Replication: `workflowAttributes.replicate` / `aggregate` of component templates, `can_template_replicate` both
without (`repWalk` / `isReplica`, used by `flattenOp`) and with its memo dictionaries (`scan` / `walkM` /
`canReplicateM` / `replicasM`), `%(replica)s` as a runtime variable of replicas (`maskReplica`, `strayPar`).

Repaired behaviour is modelled (fixes/C06-*.diff); the old algorithms are kept as `…Old`.
-/
namespace St4sd.Dsl
open St4sd.Str

abbrev Name := S
abbrev Loc := List Name

inductive Tok where
  | lit (s : S)
  | par (p : Name)
  | ref (loc : Loc) (method : Option S)
  | suf (path : Loc) (method : Option S)
  /-- a dictionary value (opaque: its canonical text); only ever the whole value -/
  | dict (d : S)
  /-- a number / boolean (text = `str(value)`); only ever the whole value -/
  | num (t : S)
  deriving DecidableEq, Repr

abbrev Val := List Tok
abbrev Env := List (Name × Val)

structure Param where
  name : Name
  default : Option Val
  deriving Repr

structure Exec where
  target : Name
  args : Env
  deriving Repr

/-- `envParam` = the parameter named by `command.environment: "%(p)s"` (if the component has that field);
`replicate` = text of `workflowAttributes.replicate` (absent = `none`), `aggregate` = `workflowAttributes.aggregate` -/
inductive Body where
  | component (arguments : Val) (envParam : Option Name) (replicate : Option S) (aggregate : Bool)
  | workflow (steps : List (Name × Name)) (execute : List Exec)
  deriving Repr

/-- `idx` = index of the template inside its own collection (`workflows` / `components`), only used to
report error locations the way the code does. -/
structure Template where
  name : Name
  idx : Nat
  params : List Param
  body : Body
  deriving Repr

def Template.isWf (t : Template) : Bool :=
  match t.body with
  | .workflow _ _ => true
  | .component .. => false

/-- `templates` in the lookup order of `Namespace.get_template` (components, then workflows);
`userVars` = the `global` user variables handed to the configuration layer (empty when the compiler is called
directly). -/
structure Namespace where
  templates : List Template
  entry : Name
  entryArgs : Env
  userVars : Env := []
  deriving Repr

/-- `override_entrypoint_args = entrypoint.execute[0].args.copy(); .update(variables["global"])` -/
def overlay (uvars args : Env) : Env := uvars ++ args.filter fun a => (uvars.lookup a.1).isNone

/-- the arguments of the entry scope before the defaults are folded in: user variables over entrypoint arguments -/
def Namespace.effArgs (ns : Namespace) : Env := overlay ns.userVars ns.entryArgs

/-- Error location truncated to what identifies the offending YAML node:
`entrypoint`, or `workflows|components / idx [/ execute / j]`. -/
inductive ErrLoc where
  | entry
  | tmpl (wf : Bool) (idx : Nat) (exec : Option Nat)
  deriving DecidableEq, Repr

def entryName : Name := "entry-instance".toList

def Namespace.find (ns : Namespace) (n : Name) : Option Template := ns.templates.find? (·.name == n)

def Template.hasParam (t : Template) (p : Name) : Bool := t.params.any (·.name == p)

/-! ## values -/

def paramRefs : Val → List Name
  | [] => []
  | .par p :: r => p :: paramRefs r
  | _ :: r => paramRefs r

def hasPar (v : Val) : Bool := !(paramRefs v).isEmpty

/-- re-lexing of adjacent chunks: a reference without method followed by `/path[:method]` is one reference -/
def mergeCons (t : Tok) (acc : Val) : Val :=
  match t, acc with
  | .ref loc none, .suf path m :: rest => .ref (loc ++ path) m :: rest
  | .suf p1 none, .suf p2 m :: rest => .suf (p1 ++ p2) m :: rest
  | t, acc => t :: acc

def merge (v : Val) : Val := v.foldr mergeCons []

/-- `Scope.replace_step_references`: a reference whose first segment is not `entry-instance` is relative to
the workflow instance `parent` that owns the field -/
def absTok (parent : Loc) : Tok → Tok
  | .ref loc m => if loc.head? = some entryName then .ref loc m else .ref (parent ++ loc) m
  | t => t

def absolutise (parent : Loc) (v : Val) : Val := v.map (absTok parent)

/-- what `_replace_many_parameter_references` inserts for a parameter with value `w` when the reference is only
a part of the string: the text of a string, `str(fillin)` of a number, nothing for a dictionary (`ValueError`) -/
def embed : Val → Option Val
  | [.dict _] => none
  | [.num t] => some [.lit t]
  | w => some w

/-- `_replace_many_parameter_references` inside a longer string: inserted text is not re-scanned; a reference to
an unknown parameter or to a dictionary stays (the code raises `ValueError`: the callers flag `hasPar` of the
result as an error at the location of the field) -/
def substT (look : Name → Option Val) : Val → Val
  | [] => []
  | .par p :: r => (match (look p).bind embed with | some v => v | none => [.par p]) ++ substT look r
  | t :: r => t :: substT look r

/-- the value is exactly one parameter reference (`start == 0 and match.start() == 0 and match.end() == len(what)`) -/
def isWholePar : Val → Bool
  | [.par _] => true
  | _ => false

/-- `_replace_many_parameter_references`: a value that is exactly `%(p)s` becomes the parameter's value with its
type (dictionary, number, text); anything else is a string into which the values are embedded -/
def substV (look : Name → Option Val) : Val → Val
  | [.par p] => (look p).getD [.par p]
  | v => substT look v

/-- the four passes of `resolve_scope` on one parameter value of a scope instantiated inside the workflow
instance `parent`: absolutise, substitute the parent's parameters, absolutise (and re-lex) again -/
def resolve (parent : Loc) (look : Name → Option Val) (v : Val) : Val :=
  merge (absolutise parent (substV look (absolutise parent (merge v))))

def refLocs : Val → List Loc
  | [] => []
  | .ref l _ :: r => l :: refLocs r
  | _ :: r => refLocs r

/-- the sibling check of `replace_step_references` (done on the value as written) -/
def siblingOk (siblings : List Name) (v : Val) : Bool :=
  (refLocs (merge v)).all fun l => match l.head? with
    | some h => siblings.contains h
    | none => false

/-! ## the walk -/

/-- `scope.parameters` of a new scope: the arguments of the `execute` entry, then the defaults of the
parameters that received no argument (`fold_in_defaults_of_parameters`) -/
def rawParams (callee : Template) (args : Env) : Env :=
  args ++ callee.params.filterMap fun p =>
    match args.lookup p.name, p.default with
    | none, some d => some (p.name, d)
    | _, _ => none

/-- checks of one `execute` entry (lines 1971-2053): `none` = some error was recorded for the entry and the
child scope is not created -/
def checkExec (ns : Namespace) (avail : List Name) (w : Template) (steps : List (Name × Name)) (e : Exec) :
    Option Template :=
  match steps.lookup e.target with
  | none => none
  | some tn =>
    match ns.find tn with
    | none => none
    | some callee =>
      if !avail.contains tn then none   -- `_check_for_cycle`: the template is on the scope stack
      else if e.args.any (fun a => (paramRefs a.2).any (fun p => !w.hasParam p) || !callee.hasParam a.1) then none
      else if callee.params.any (fun p => (e.args.lookup p.name).isNone && p.default.isNone) then none
      else some callee

def replicaName : Name := "replica".toList

/-- `workflowAttributes.replicate not in ["0", 0, "", None]` -/
def replicates : Option S → Bool
  | none => false
  | some s => s != "0".toList && s != []

/-- `replicate` / `aggregate` = attributes of the component template, `declaresReplica` = the template's signature
has a parameter called `replica` -/
structure Inst where
  loc : Loc
  dsl : ErrLoc
  tidx : Nat
  params : Env
  arguments : Val
  envParam : Option Name := none
  replicate : Bool := false
  aggregate : Bool := false
  declaresReplica : Bool := false
  deriving Repr

structure Acc where
  errsA : List ErrLoc := []
  errsB : List ErrLoc := []
  insts : List Inst := []
  fuelOut : Bool := false
  deriving Repr

def Acc.append (a b : Acc) : Acc :=
  { errsA := a.errsA ++ b.errsA, errsB := a.errsB ++ b.errsB, insts := a.insts ++ b.insts,
    fuelOut := a.fuelOut || b.fuelOut }

def Acc.concat (l : List Acc) : Acc := l.foldr Acc.append {}

/-- a child scope that passed `checkExec` -/
structure Child where
  j : Nat
  target : Name
  callee : Template
  raw : Env
  deriving Repr

/-- the fine children of a workflow in `execute` order -/
def childrenOf (ns : Namespace) (avail : List Name) (w : Template) (steps : List (Name × Name)) :
    Nat → List Exec → List Child
  | _, [] => []
  | j, e :: es =>
    match checkExec ns avail w steps e with
    | some callee => ⟨j, e.target, callee, rawParams callee e.args⟩ :: childrenOf ns avail w steps (j + 1) es
    | none => childrenOf ns avail w steps (j + 1) es

/-- indices of the `execute` entries with an error -/
def badExecs (ns : Namespace) (avail : List Name) (w : Template) (steps : List (Name × Name)) :
    Nat → List Exec → List Nat
  | _, [] => []
  | j, e :: es =>
    match checkExec ns avail w steps e with
    | some _ => badExecs ns avail w steps (j + 1) es
    | none => j :: badExecs ns avail w steps (j + 1) es

/-- the code's visit order: `children_scopes.insert(0, …)` for components, `.append(…)` for workflows -/
def visitOrder (cs : List Child) : List Child :=
  (cs.filter (fun c => !c.callee.isWf)).reverse ++ cs.filter (fun c => c.callee.isWf)

def childEnv (loc : Loc) (env : Env) (c : Child) : Env :=
  c.raw.map fun a => (a.1, resolve loc (fun p => env.lookup p) a.2)

/-- errors of the resolution phase for one child: sibling check on the values as written, unknown parameter -/
def childErrsB (loc : Loc) (env : Env) (steps : List (Name × Name)) (widx : Nat) (c : Child) : List ErrLoc :=
  let siblings := (steps.map (·.1)).filter (· != c.target)
  if c.raw.all (fun a => siblingOk siblings a.2) && (childEnv loc env c).all (fun a => !hasPar a.2)
  then [] else [.tmpl true widx (some c.j)]

/-- Visit of the scope `loc` (an instance of `t` with resolved parameters `env`); `avail` = names of the
templates that are not on the scope stack; `fuel` bounds the nesting depth. -/
def visit (ns : Namespace) : Nat → List Name → Loc → Template → Env → ErrLoc → Acc
  | 0, _, _, _, _, _ => { fuelOut := true }
  | fuel + 1, avail, loc, t, env, dsl =>
    match t.body with
    | .component arguments envParam rep agg =>
      { insts := [⟨loc, dsl, t.idx, env, arguments, envParam, replicates rep, agg, t.hasParam replicaName⟩] }
    | .workflow steps execute =>
      let cs := childrenOf ns avail t steps 0 execute
      let bad := (badExecs ns avail t steps 0 execute).map fun j => ErrLoc.tmpl true t.idx (some j)
      let missing := if steps.all (fun s => execute.any (fun e => e.target == s.1)) then []
                     else [ErrLoc.tmpl true t.idx none]
      let here : Acc := { errsA := bad ++ missing, errsB := cs.flatMap (childErrsB loc env steps t.idx) }
      here.append (Acc.concat ((visitOrder cs).map fun c =>
        visit ns fuel (avail.erase c.callee.name) (loc ++ [c.target]) c.callee (childEnv loc env c)
          (.tmpl true t.idx (some c.j))))

/-! ## naming -/

def romanUnit : Nat → S
  | 1 => "I".toList | 2 => "II".toList | 3 => "III".toList | 4 => "IV".toList | 5 => "V".toList
  | 6 => "VI".toList | 7 => "VII".toList | 8 => "VIII".toList | 9 => "IX".toList | _ => []

/-- `number_to_roman_like_numeral` -/
def roman (n : Nat) : S := List.replicate (n / 10) 'X' ++ romanUnit (n % 10)

def cand (s : Name) : Nat → Name
  | 0 => s
  | k + 1 => s ++ '-' :: roman (k + 1)

def isNameChar (c : Char) : Bool :=
  ('A' ≤ c && c ≤ 'Z') || ('a' ≤ c && c ≤ 'z') || isDigit c || c == '.' || c == '_' || c == '-'

/-- the `name` group of `SignatureNamePattern`: `[A-Za-z0-9._-]*[A-Za-z_-]+` -/
def validName (n : Name) : Bool :=
  n.all isNameChar && match n.getLast? with
    | some c => ('A' ≤ c && c ≤ 'Z') || ('a' ≤ c && c ≤ 'z') || c == '_' || c == '-'
    | none => false

/-- value of a run of decimal digits (`int("05") = 5`) -/
def digitsVal (ds : S) : Nat := ds.foldl (fun acc c => acc * 10 + (c.toNat - 48)) 0

/-- a FlowIR component name: `(stage, name)` -/
abbrev FName := Nat × Name

/-- the optional group `(stage(?P<stage>[0-9]+)\.)` followed by a valid `name` -/
def stagePrefix (n : Name) : Option FName :=
  match n with
  | 's' :: 't' :: 'a' :: 'g' :: 'e' :: r =>
    let ds := r.takeWhile isDigit
    match r.dropWhile isDigit with
    | '.' :: nm => if !ds.isEmpty && validName nm then some (digitsVal ds, nm) else none
    | _ => none
  | _ => none

/-- `SignatureNamePattern.fullmatch(name)` → `(int(stage or 0), name)`: the regular expression tries the stage group
first and falls back to the whole string as the name -/
def parseName (n : Name) : Option FName :=
  match stagePrefix n with
  | some r => some r
  | none => if validName n then some (0, n) else none

/-- repaired naming: first candidate `s, s-I, s-II, …` (from index `k`) whose parsed `(stage, name)` pair is not in
use; `none` also when a candidate is not a component name (only possible for `k = 0`) -/
def pickName (used : List FName) (s : Name) : Nat → Nat → Option FName
  | 0, _ => none
  | fuel + 1, k =>
    match parseName (cand s k) with
    | none => none
    | some fn => if used.contains fn then pickName used s fuel (k + 1) else some fn

/-- `(stage, name)` of the component instances in visit order (`none` = no free candidate within the fuel) -/
def assignNames : List FName → List Name → Option (List FName)
  | _, [] => some []
  | used, s :: r =>
    match pickName used s (used.length + 1) 0 with
    | none => none
    | some n => match assignNames (n :: used) r with
      | none => none
      | some ns => some (n :: ns)

/-- the algorithm as coded before the fix: a counter per step name, no look at the names in use -/
def assignNamesOld : List (Name × Nat) → List Name → List Name
  | _, [] => []
  | counts, s :: r =>
    match counts.lookup s with
    | none => s :: assignNamesOld ((s, 0) :: counts) r
    | some k => cand s (k + 1) :: assignNamesOld ((s, k + 1) :: counts) r

/-! ## references to producers -/

def longer (best : Option (Loc × Loc)) (sc : Loc) : Bool :=
  match best with
  | some b => b.1.length < sc.length
  | none => 0 < sc.length

def splitStep (l : Loc) (best : Option (Loc × Loc)) (sc : Loc) : Option (Loc × Loc) :=
  if sc.isPrefixOf l && longer best sc then some (sc, l.drop sc.length) else best

/-- repaired `OutputReference.split`: the longest scope location that is a prefix of the reference location -/
def split (scopes : List Loc) (l : Loc) : Option (Loc × Loc) := scopes.foldl (splitStep l) none

def overlap : Loc → Loc → Nat
  | a :: r, b :: s => if a == b then overlap r s + 1 else 0
  | _, _ => 0

/-- `OutputReference.split` as coded before the fix: largest *partial* overlap wins -/
def splitOld (scopes : List Loc) (l : Loc) : Option (Loc × Loc) :=
  (scopes.foldl (fun (best : Option Loc × Nat) sc =>
    if sc.length ≤ l.length && best.2 < overlap sc l then (some sc, overlap sc l) else best) (none, 0)).1.map
    fun b => (b, l.drop b.length)

inductive OTok where
  | lit (s : S)
  | dref (stage : Nat) (producer : Name) (fileref : Loc) (method : S)
  deriving DecidableEq, Repr

/-- the environment of a compiled component: field absent, the literal `none` (empty), or a dictionary -/
inductive EnvVal where
  | unset
  | empty
  | dict (d : S)
  deriving DecidableEq, Repr

/-- `digest_dsl_component`: the parameter that `command.environment` names must exist (repaired: the code as it
was raised `KeyError`) and its value must be a dictionary or the literal `none`; `none` = error -/
def envOf (params : Env) : Option Name → Option EnvVal
  | none => some .unset
  | some p =>
    match params.lookup p with
    | some [.dict d] => some (.dict d)
    | some [.lit s] => if s = "none".toList then some .empty else none
    | _ => none

/-- outcome of the environment check as coded before fixes/C06-environment-unknown-parameter.diff: the error
about the unknown parameter is recorded and then `scope.parameters[param_name]` raises `KeyError` anyway -/
inductive EnvOld where
  | ok (e : EnvVal)
  | dslError
  | keyError
  deriving DecidableEq, Repr

def envOfOld (params : Env) : Option Name → EnvOld
  | none => .ok .unset
  | some p =>
    match params.lookup p with
    | none => .keyError
    | some _ => match envOf params (some p) with
      | some e => .ok e
      | none => .dslError

structure Comp where
  loc : Loc
  stage : Nat
  name : Name
  args : List OTok
  refs : List OTok
  producers : List Loc
  env : EnvVal := .unset
  replica : Bool := false
  deriving Repr

def slash (l : Loc) : S := l.foldr (fun x acc => '/' :: x ++ acc) []

def sufText (path : Loc) (m : Option S) : S :=
  slash path ++ (match m with | some m => ':' :: m | none => [])

/-- complete references `(location, method)` of a value -/
def fullRefs : Val → List (Loc × S)
  | [] => []
  | .ref l (some m) :: r => (l, m) :: fullRefs r
  | _ :: r => fullRefs r

def partialRefs : Val → List Loc
  | [] => []
  | .ref l none :: r => l :: partialRefs r
  | _ :: r => partialRefs r

def convTok (names : List (Loc × FName)) (t : Tok) : List OTok :=
  match t with
  | .lit s => [.lit s]
  | .par p => [.lit ("%(".toList ++ p ++ ")s".toList)]
  | .suf path m => [.lit (sufText path m)]
  | .ref l (some m) =>
    match split (names.map (·.1)) l with
    | some (p, f) => [.dref ((names.lookup p).getD (0, [])).1 ((names.lookup p).getD (0, [])).2 f m]
    | none => []
  | .ref _ none => []
  | .dict d => [.lit d]
  | .num t => [.lit t]

/-! ## replication

`ScopeStack.can_template_replicate`: a component is a replica when its own `replicate` is set, or when it does not
aggregate and some producer — found through the output references in its (resolved) parameter values — replicates,
or does not aggregate and is a replica for the same reason.  `%(replica)s` is then a variable of the runtime, not a
parameter reference.  (The generated namespaces have at most one output reference per parameter value: the `break`
out of the scan of one value after an aggregating producer is not modelled.) -/

def findInst (insts : List Inst) (l : Loc) : Option Inst := insts.find? (·.loc == l)

/-- producers of a component instance: the component scopes that are the longest scope prefix of the references in
its parameter values (complete or partial references alike) -/
def producersOf (insts : List Inst) (i : Inst) : List Loc :=
  i.params.flatMap fun a => (refLocs a.2).filterMap fun l => (split (insts.map (·.loc)) l).map (·.1)

/-- the answer without the memo dictionaries: some path of producers from `l`, crossing no aggregating component,
ends in a component whose `replicate` is set -/
def repWalk (insts : List Inst) : Nat → Loc → Bool
  | 0, _ => false
  | fuel + 1, l =>
    match findInst insts l with
    | none => false
    | some i => i.replicate || (producersOf insts i).any fun p =>
        match findInst insts p with
        | none => false
        | some q => q.replicate || (!q.aggregate && repWalk insts fuel p)

def isReplica (insts : List Inst) (i : Inst) : Bool :=
  i.replicate || (!i.aggregate && repWalk insts (insts.length + 1) i.loc)

/-- `ScopeStack.replicating_components` / `aggregating_components` (keys whose value is `True`) -/
structure Memo where
  rep : List Loc := []
  agg : List Loc := []
  deriving Repr, DecidableEq

inductive Scan where
  | found (m : Memo)
  | more (m : Memo) (push : List Loc)

/-- the loops over the references of the popped node `s`: a producer that replicates (attribute or memo) ends the
walk and `s` is memoised as replicating; an aggregating one is memoised and skipped; any other is pushed
(`push` has the most recently appended location first) -/
def scan (insts : List Inst) (s : Loc) : Memo → List Loc → List Loc → Scan
  | m, [], push => .more m push
  | m, p :: r, push =>
    match findInst insts p with
    | none => scan insts s m r push
    | some q =>
      if m.rep.contains p || q.replicate then .found { m with rep := s :: m.rep }
      else if m.agg.contains p || q.aggregate then scan insts s { m with agg := p :: m.agg } r push
      else scan insts s m r (p :: push)

/-- `while component_locations_to_check: location = ….pop()` with the memo dictionaries threaded through -/
def walkM (insts : List Inst) : Nat → Memo → List Loc → Bool × Memo
  | 0, m, _ => (false, m)
  | _ + 1, m, [] => (false, m)
  | fuel + 1, m, s :: stack =>
    match findInst insts s with
    | none => walkM insts fuel m stack
    | some i =>
      if i.replicate then (true, m)
      else match scan insts s m (producersOf insts i) [] with
        | .found m' => (true, m')
        | .more m' push => walkM insts fuel m' (push ++ stack)

def walkFuel (insts : List Inst) : Nat := 16 * (insts.length + 1) * (insts.length + 1)

/-- `can_template_replicate(location of i)` starting from the memo `m` -/
def canReplicateM (insts : List Inst) (m : Memo) (i : Inst) : Bool × Memo :=
  if i.replicate then (true, m)
  else if i.aggregate then (false, { m with agg := i.loc :: m.agg })
  else walkM insts (walkFuel insts) m [i.loc]

/-- the calls of `digest_dsl_component` over the components `todo` in order, sharing one memo -/
def replicasM (insts : List Inst) : Memo → List Inst → List Bool
  | _, [] => []
  | m, i :: r => (canReplicateM insts m i).1 :: replicasM insts (canReplicateM insts m i).2 r

/-- `ComponentFlowIR.__init__`: a replicating component must not declare a parameter called `replica` -/
def replicaErrs (insts : List Inst) : List ErrLoc :=
  insts.filterMap fun i => if isReplica insts i && i.declaresReplica then some (.tmpl false i.tidx none) else none

/-- `replace_parameter_references(is_replica=…)`: `replica` is not looked up for a replica -/
def maskReplica (rep : Bool) (look : Name → Option Val) : Name → Option Val :=
  fun p => if rep && p == replicaName then none else look p

/-- some parameter reference other than `%(replica)s` of a replica is present -/
def strayPar (rep : Bool) (v : Val) : Bool := (paramRefs v).any fun p => !(rep && p == replicaName)

/-- one component: `resolve_parameter_references` on `command.arguments`, then
`convert_outputreferences_to_datareferences`; `Except` = error locations of this component -/
def digest (names : List (Loc × FName)) (rep : Bool) (i : Inst) : Except (List ErrLoc) Comp :=
  let args0 := merge (substV (maskReplica rep fun p => i.params.lookup p) i.arguments)
  -- an unknown parameter makes `_replace_many_parameter_references` raise: the field keeps its text
  let e1 := if strayPar rep args0 then [ErrLoc.tmpl false i.tidx none] else []
  let args := if strayPar rep args0 then merge i.arguments else args0
  if !(partialRefs args).isEmpty then .error (e1 ++ [i.dsl])
  else
    let argRefs := fullRefs args
    let parRefs := i.params.flatMap fun a => fullRefs a.2
    let parPartial := i.params.flatMap fun a => partialRefs a.2
    let all := (parRefs ++ argRefs).eraseDups
    let scopes := names.map (·.1)
    let e2 := if parPartial.all (fun l => argRefs.any (fun r => r.1 == l)) && all.all (fun r => (split scopes r.1).isSome)
              then [] else [i.dsl]
    if (e1 ++ e2).isEmpty then
      .ok { loc := i.loc, stage := ((names.lookup i.loc).getD (0, [])).1, name := ((names.lookup i.loc).getD (0, [])).2,
            args := args.flatMap (convTok names),
            refs := all.flatMap (fun r => convTok names (.ref r.1 (some r.2))),
            producers := (all.filterMap (fun r => (split scopes r.1).map (·.1))).eraseDups,
            env := (envOf i.params i.envParam).getD .unset, replica := rep }
    else .error (e1 ++ e2)

inductive Result where
  | ok (comps : List Comp)
  | invalid (phase : Nat) (errs : List ErrLoc)
  | outOfFuel
  deriving Repr

def collect : List (Except (List ErrLoc) Comp) → List ErrLoc × List Comp
  | [] => ([], [])
  | .ok c :: r => let (e, cs) := collect r; (e, c :: cs)
  | .error x :: r => let (e, cs) := collect r; (x ++ e, cs)

/-- entry scope: arguments (user variables over `entrypoint.execute[0].args`) over the defaults of the entry
template -/
def entryRaw (t : Template) (args : Env) : Env := rawParams t args

def rootVisit (ns : Namespace) (t : Template) : Acc :=
  let raw := entryRaw t ns.effArgs
  let env : Env := raw.map fun a => (a.1, resolve [] (fun _ => none) a.2)
  visit ns ns.templates.length ((ns.templates.map (·.name)).erase t.name) [entryName] t env (.tmpl t.isWf t.idx none)

/-- errors of the entry scope itself: parameter references in the entrypoint arguments (discovery phase),
output references in them (resolution phase: the entrypoint has no sibling steps) -/
def entryErrsA (t : Template) (args : Env) : List ErrLoc :=
  if (entryRaw t args).any (fun a => hasPar a.2) then [ErrLoc.entry] else []

def entryErrsB (t : Template) (args : Env) : List ErrLoc :=
  if (entryRaw t args).all (fun a => siblingOk [] a.2) then [] else [ErrLoc.tmpl t.isWf t.idx none]

/-- naming, `resolve_parameter_references`, `convert_outputreferences_to_datareferences` over the component
instances in visit order -/
def envErrs (insts : List Inst) : List ErrLoc :=
  insts.filterMap fun i => match envOf i.params i.envParam with
    | some _ => none
    | none => some i.dsl

def finish (insts : List Inst) : Result :=
  let steps := insts.map fun i => i.loc.getLast?.getD []
  let badNames := insts.filterMap fun i => if (parseName (i.loc.getLast?.getD [])).isSome then none else some i.dsl
  -- `digest_dsl_component` runs (and its errors are raised) before the components are named
  if !(envErrs insts ++ replicaErrs insts).isEmpty then .invalid 5 (envErrs insts ++ replicaErrs insts)
  else if !badNames.isEmpty then .invalid 3 badNames
  else match assignNames [] steps with
    | none => .outOfFuel
    | some names =>
      let table := (insts.map (·.loc)).zip names
      let (errs, comps) := collect (insts.map fun i => digest table (isReplica insts i) i)
      if errs.isEmpty then .ok comps else .invalid 4 errs

def entryMissing (t : Template) (args : Env) : Bool :=
  t.params.any fun p => (args.lookup p.name).isNone && p.default.isNone

def entryUnknown (t : Template) (args : Env) : Bool := args.any fun a => !t.hasParam a.1

def flattenOp (ns : Namespace) : Result :=
  match ns.find ns.entry with
  | none => .invalid 0 [.entry]
  | some t =>
    if entryMissing t ns.effArgs then .invalid 1 [.tmpl t.isWf t.idx none]
    else if entryUnknown t ns.effArgs then .invalid 1 [.entry]
    else if (rootVisit ns t).fuelOut then .outOfFuel
    else if !(entryErrsA t ns.effArgs ++ (rootVisit ns t).errsA).isEmpty then
      .invalid 1 (entryErrsA t ns.effArgs ++ (rootVisit ns t).errsA)
    else if !(entryErrsB t ns.effArgs ++ (rootVisit ns t).errsB).isEmpty then
      .invalid 2 (entryErrsB t ns.effArgs ++ (rootVisit ns t).errsB)
    else finish (rootVisit ns t).insts

/-! ## denotational specification -/

/-- one link of the call chain: the workflow instance `parent` in which the arguments were written, and the
parameters of the callee as written there (arguments, else declared defaults) -/
structure Frame where
  parent : Loc
  raw : Env

/-- value of parameter `p` of the innermost frame: the argument supplied along the call chain or the default;
parameter references inside it denote parameters of the enclosing frame -/
def valueOf : List Frame → Name → Option Val
  | [], _ => none
  | f :: up, p => (f.raw.lookup p).map (resolve f.parent (valueOf up))

/-- the materialised parameters of the innermost frame: every argument (or declared default) as written by the
caller, resolved against the enclosing call chain — whether or not the component interpolates the parameter into its
`command.arguments` -/
def chainEnv : List Frame → Env
  | [] => []
  | f :: up => f.raw.map fun a => (a.1, resolve f.parent (valueOf up) a.2)

structure SpecInst where
  loc : Loc
  args : Val
  /-- value, along the call chain, of the parameter the component uses as its environment -/
  env : Option Val := none
  /-- value, along the call chain, of every parameter of the component -/
  params : Env := []
  deriving DecidableEq, Repr

/-- every path of step names from the entrypoint that ends in a component step, in `execute` order, with the
template's arguments evaluated along the call chain -/
def specVisit (ns : Namespace) : Nat → List Name → Loc → Template → List Frame → List SpecInst
  | 0, _, _, _, _ => []
  | fuel + 1, avail, loc, t, chain =>
    match t.body with
    | .component arguments envParam _ _ =>
      [⟨loc, merge (substV (valueOf chain) arguments), envParam.bind (valueOf chain), chainEnv chain⟩]
    | .workflow steps execute =>
      (childrenOf ns avail t steps 0 execute).flatMap fun c =>
        specVisit ns fuel (avail.erase c.callee.name) (loc ++ [c.target]) c.callee (⟨loc, c.raw⟩ :: chain)

def Inst.toSpec (i : Inst) : SpecInst :=
  ⟨i.loc, merge (substV (fun p => i.params.lookup p) i.arguments), i.envParam.bind (fun p => i.params.lookup p),
    i.params⟩

def flattenSpec (ns : Namespace) : List SpecInst :=
  match ns.find ns.entry with
  | none => []
  | some t =>
    specVisit ns ns.templates.length ((ns.templates.map (·.name)).erase t.name) [entryName] t
      [⟨[], entryRaw t ns.effArgs⟩]

/-- producer/consumer relation of the specification: a consumer instance and the component instance whose
path is a prefix of the (absolute) location of one of its complete output references -/
def specEdges (insts : List SpecInst) : List (Loc × Loc) :=
  insts.flatMap fun i => (fullRefs i.args).filterMap fun r =>
    (insts.find? (fun p => p.loc.isPrefixOf r.1)).map fun p => (i.loc, p.loc)

/-- the complete output references that reach a component only as parameter values (e.g. `<producer>/file:copy`
handed over to stage a file; the parameter need not be interpolated into `command.arguments`) -/
def SpecInst.paramRefs (i : SpecInst) : List (Loc × S) := i.params.flatMap fun a => fullRefs a.2

/-- producer/consumer relation through the parameter values -/
def specParamEdges (insts : List SpecInst) : List (Loc × Loc) :=
  insts.flatMap fun i => i.paramRefs.filterMap fun r =>
    (insts.find? (fun p => p.loc.isPrefixOf r.1)).map fun p => (i.loc, p.loc)

/-- the whole producer/consumer relation of the specification: through `command.arguments` and through parameters -/
def specEdgesAll (insts : List SpecInst) : List (Loc × Loc) := specEdges insts ++ specParamEdges insts

/-! ## environments of the compiled FlowIR

`namespace_to_flowir` does not store the environment dictionary inside the component: it registers it under a name
`env<k>` in the `environments` section and writes the name into `command.environment`.  Two components share one
entry when `hash_environment` gives the same key for their dictionaries.  The hash is a parameter `h` of the model
(the code: the sorted `(name, str(value))` pairs); the table holds `(hash, dictionary)` in registration order, the
name of an entry is its index. -/

/-- index of the first entry registered under the hash `hv` (`known_environments[dict_hash]`) -/
def findSlot {H : Type} [DecidableEq H] (hv : H) : List (H × S) → Option Nat
  | [] => none
  | e :: r => if e.1 = hv then some 0 else (findSlot hv r).map (· + 1)

/-- one component with a dictionary environment: the name (index) it is bound to and the table afterwards -/
def bindEnv {H : Type} [DecidableEq H] (h : S → H) (tab : List (H × S)) (d : S) : Nat × List (H × S) :=
  match findSlot (h d) tab with
  | some k => (k, tab)
  | none => (tab.length, tab ++ [(h d, d)])

/-- the loop over the components (those with a dictionary environment), in order -/
def bindAll {H : Type} [DecidableEq H] (h : S → H) : List (H × S) → List S → List Nat × List (H × S)
  | tab, [] => ([], tab)
  | tab, d :: r =>
    let (k, tab1) := bindEnv h tab d
    let (ks, tab2) := bindAll h tab1 r
    (k :: ks, tab2)

/-- names `env<k>` of the components of a compiled namespace in component order (`none`: no dictionary), hashing a
dictionary by its canonical text -/
def envNames (cs : List Comp) : List (Option Nat) :=
  let ds := cs.filterMap fun c => match c.env with | .dict d => some d | _ => none
  let ks := (bindAll (fun d => d) [] ds).1
  let rec go : List Comp → List Nat → List (Option Nat)
    | [], _ => []
    | c :: r, ks => match c.env, ks with
      | .dict _, k :: ks' => some k :: go r ks'
      | .dict _, [] => none :: go r []
      | _, ks => none :: go r ks
  go cs ks

end St4sd.Dsl
