import St4sd.Model.Tree
/-!
# Type table vocabulary of `FlowIR.convert_component_types` (C04)

The table itself (`St4sd.Gen.C04.typeTable`) is regenerated from flowir.py on every run.
-/
namespace St4sd.Tree

/-- the converters that occur in `expected_types` -/
inductive Ty where
  | str          -- `str`
  | int          -- `int`
  | bool         -- `bool`
  | float        -- `float`
  | strToBool    -- `str_to_bool`
  | toBool       -- local `to_bool`: strings through `str_to_bool`, anything else through `bool`
  | optInt       -- `optional_int`
  | memory       -- `FlowIR.memory_to_bytes`
  | qos          -- `FlowIR.str_to_kubernetes_qos`
  | dict         -- `dict` ("do not care")
  deriving Repr, DecidableEq, Inhabited

inductive TyTree where
  | leaf (t : Ty) : TyTree
  | node (fields : List (St4sd.Str.S × TyTree)) : TyTree
  deriving Repr, Inhabited

def tyGet : List (St4sd.Str.S × TyTree) → St4sd.Str.S → Option TyTree
  | [], _ => none
  | (k', v) :: r, k => if k' = k then some v else tyGet r k

end St4sd.Tree
