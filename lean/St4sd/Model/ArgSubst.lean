import St4sd.Model.Str
/-!
# C10 — substitution of data references in a component's argument string

Model of `ComponentSpecification.resolveArguments` (python/experiment/model/graph.py).

* `resolve`    — the **repaired** algorithm (fixes/C10-single-pass-reference-substitution.diff):
  every substitutable reference contributes its spellings to a dictionary `spelling ↦ value`
  (first insertion wins, `dict.setdefault`); the argument string is rewritten in ONE left-to-right pass by
  `re.sub` with the alternation of all escaped spellings sorted by length, longest first; a reference is
  *unused* when none of its spellings was matched.
* `resolveOld` — the algorithm before the repair: for each reference in declaration order,
  `str.replace` of the absolute spelling if it occurs (as a substring) in the current string, else of the
  relative one.  Kept only for `St4sd.Witness.C10`.

A reference is abstracted to what the method reads from a `DataReference`: its two spellings
(`absoluteReference`, `relativeReference`), whether the relative spelling denotes it from the consumer
(`stageIndex is None or stageIndex == consumer stage`), its kind and its resolved value.  The resolved value
is itself computed by the model (`Source.value?`, the part of `DataReference.resolve` that the method
observes): a path, the blank-joined paths of all loop instances, the contents of the referenced file minus
its final newline characters (`outputValue`), or the blank-joined per-instance contents (`loopInstanceValue`).
-/
namespace St4sd.ArgSubst
open St4sd.Str

/-- `ref`: `:ref`/`:loopref` (value = path(s)); `output`: `:output`/`:loopoutput` (value = contents of the
file, `""` while it does not exist); `other`: `:copy :link :copyout :extract` (never substituted). -/
inductive Kind | ref | output | other
  deriving DecidableEq, Repr

structure Ref where
  abs : S
  rel : S
  /-- producer lives in the consumer's stage, or the reference is direct (then `abs = rel`) -/
  relActive : Bool
  kind : Kind
  /-- `none`: `reference.resolve` failed and `ignoreErrors` was set -/
  value : Option S
  deriving DecidableEq, Repr

/-- value that is substituted for the reference, `none` when the reference is not substituted at all -/
def Ref.subst? (r : Ref) : Option S :=
  match r.kind, r.value with
  | .output, v => some (v.getD [])
  | .ref, some v => some v
  | _, _ => none

/-- spellings recognised for the reference (repaired code: `spellings_of`) -/
def Ref.spellings (r : Ref) : List S := if r.relActive then [r.abs, r.rel] else [r.abs]

/-- the `(spelling, value)` pairs in the order in which the repaired code offers them to `dict.setdefault` -/
def entries : List Ref → List (S × S)
  | [] => []
  | r :: rs =>
    match r.subst? with
    | none => entries rs
    | some v => r.spellings.map (fun k => (k, v)) ++ entries rs

/-- The alternative that `re` takes at a position whose remaining text is `rest`: alternatives are the
distinct dictionary keys sorted by length (longest first), so the first one that matches is the longest
key that is a prefix of `rest`; its value is the one of the first entry with that key.  Entries with an
empty key are ignored (a spelling always ends in `:method`). -/
def best : List (S × S) → S → Option (S × S)
  | [], _ => none
  | (k, v) :: es, rest =>
    if !k.isEmpty && k.isPrefixOf rest then
      match best es rest with
      | some (k', v') => if k.length < k'.length then some (k', v') else some (k, v)
      | none => some (k, v)
    else best es rest

/-- a piece of the scanned argument string: a character that is copied, or a matched spelling `k` with the
value `v` that replaces it -/
inductive Seg
  | lit (c : Char)
  | tok (k v : S)
  deriving DecidableEq, Repr

/-- the single left-to-right pass of `pattern.sub`; `skip` characters of a matched spelling remain to be dropped -/
def parseAux (es : List (S × S)) : Nat → S → List Seg
  | _, [] => []
  | skip + 1, _ :: s => parseAux es skip s
  | 0, c :: s =>
    match best es (c :: s) with
    | some (k, v) => Seg.tok k v :: parseAux es (k.length - 1) s
    | none => Seg.lit c :: parseAux es 0 s

def parse (es : List (S × S)) (s : S) : List Seg := parseAux es 0 s

/-- the text with every matched spelling replaced by its value (what `pattern.sub` returns) -/
def renderV : List Seg → S
  | [] => []
  | .lit c :: r => c :: renderV r
  | .tok _ v :: r => v ++ renderV r

/-- the text with every matched spelling written back (the scanned string itself, see `renderK_parse`) -/
def renderK : List Seg → S
  | [] => []
  | .lit c :: r => c :: renderK r
  | .tok k _ :: r => k ++ renderK r

/-- the set `used` of the repaired code -/
def usedKeys : List Seg → List S
  | [] => []
  | .lit _ :: r => usedKeys r
  | .tok k _ :: r => k :: usedKeys r

def subst (es : List (S × S)) (s : S) : S := renderV (parse es s)

/-- `FlowIR.data_reference_methods` (the harness checks the list against the imported module) -/
def methods : List S :=
  ["copy".toList, "link".toList, "ref".toList, "copyout".toList, "extract".toList, "output".toList,
   "loopref".toList, "loopoutput".toList]

/-- the scan after the substitution: some `:method` is left in the string -/
def unresolved (out : S) : Bool := methods.any fun m => isInfix (':' :: m) out

structure Result where
  out : S
  /-- absolute spellings of the references reported as `UnusedDataReferenceError`, in declaration order -/
  unused : List S
  unresolved : Bool
  deriving DecidableEq, Repr

def isUnused (used : List S) (r : Ref) : Bool :=
  r.subst?.isSome && !(r.spellings.any fun k => used.contains k)

/-- repaired `resolveArguments` (up to the final `fill_in`, which is outside this property) -/
def resolve (refs : List Ref) (args : S) : Result :=
  let p := parse (entries refs) args
  let out := renderV p
  { out := out, unused := (refs.filter (isUnused (usedKeys p))).map (·.abs), unresolved := unresolved out }

/-! ## The algorithm before the repair -/

/-- one iteration of the old loop: `(arguments, unused so far)` -/
def stepOld (st : S × List S) (r : Ref) : S × List S :=
  match r.subst? with
  | none => st
  | some v =>
    if isInfix r.abs st.1 then (replaceAll r.abs v st.1, st.2)
    else if isInfix r.rel st.1 then (replaceAll r.rel v st.1, st.2)
    else (st.1, st.2 ++ [r.abs])

def resolveOld (refs : List Ref) (args : S) : Result :=
  let st := refs.foldl stepOld (args, [])
  { out := st.1, unused := st.2, unresolved := unresolved st.1 }

/-! ## The value of a reference (`DataReference.resolve` as far as `resolveArguments` observes it) -/

/-- `s.rstrip('\n')`: the text without its final newline characters; nothing else is removed. -/
def dropTrailingNewlines : S → S
  | [] => []
  | c :: s =>
    match dropTrailingNewlines s with
    | [] => if c = '\n' then [] else [c]
    | d :: r => c :: d :: r

/-- worker of `universalNewlines`; the flag says that the previous character was a carriage return -/
def unlAux : Bool → S → S
  | _, [] => []
  | prevCR, c :: s =>
    if c = '\r' then '\n' :: unlAux true s
    else if c = '\n' ∧ prevCR = true then unlAux false s
    else c :: unlAux false s

/-- what `open(path, 'r').read()` does to line terminators (`newline=None`): `\r\n` and a lone `\r` are read as
`\n`.  Only the `:loopoutput` branch reads in text mode; `:output` reads bytes and decodes them. -/
def universalNewlines (s : S) : S := unlAux false s

/-- value of an `:output` reference whose file holds `contents` (decoded bytes): `contents.rstrip('\n')` -/
def outputValue (contents : S) : S := dropTrailingNewlines contents

/-- value contributed by one loop instance to a `:loopoutput` reference: text-mode read, then `rstrip('\n')` -/
def loopInstanceValue (contents : S) : S := dropTrailingNewlines (universalNewlines contents)

/-- What `DataReference.resolve` looks at for one declared reference.
* `path p`   — `:ref` (or any path method): the resolved path;
* `paths ps` — `:loopref`: the paths of all loop instances of the placeholder, in iteration order;
* `file c`   — `:output`: the decoded contents of the one referenced file (`none`: it does not exist yet);
* `files cs` — `:loopoutput`: the contents of the referenced file of every loop instance, in iteration order;
* `failed`   — `resolve` raised `InternalInconsistencyError` and `ignoreErrors` was set. -/
inductive Source
  | path (p : S)
  | paths (ps : List S)
  | file (c : Option S)
  | files (cs : List (Option S))
  | failed
  deriving DecidableEq, Repr

def countMissing : List (Option S) → Nat
  | [] => 0
  | none :: cs => countMissing cs + 1
  | some _ :: cs => countMissing cs

def present : List (Option S) → List S
  | [] => []
  | none :: cs => present cs
  | some c :: cs => c :: present cs

/-- `reference_value` after the `try` block of `resolveArguments` (`none` = Python `None`).  A missing
`:output` file gives `""`; a `:loopoutput` with exactly one missing instance file gives `""`
(`DataReferenceFilesDoNotExistError` with one entry), with several it is an `InternalInconsistencyError`
(→ `None` under `ignoreErrors`, and `None or ""` is substituted). -/
def Source.value? : Source → Option S
  | .path p => some p
  | .paths ps => some (join [' '] ps)
  | .file none => some []
  | .file (some c) => some (outputValue c)
  | .files cs =>
    match countMissing cs with
    | 0 => some (join [' '] ((present cs).map loopInstanceValue))
    | 1 => some []
    | _ => none
  | .failed => none

/-! ## The spellings of a declared reference (`DataReference.absoluteReference` / `relativeReference`)

`FlowIR.ParseDataReference` splits the text of a reference at its one `:` and, for a reference to a component,
the part before it at the FIRST `/`: what precedes is the producer, what follows is the *file part*.  The file
part is `None` when the text has no `/` and the EMPTY string when the text ends in a bare `/`
(`Producer/:ref`, the contents-of-the-directory spelling): the two are different references with different
spellings (`Producer:ref` / `Producer/:ref`) and different values (`<dir>` / `<dir>/`).  Both spellings and the
resolved path append the file part with `os.path.join` whenever it `is not None`. -/

/-- `os.path.join(a, b)`: an absolute `b` replaces `a`; otherwise one separator is put between the two unless `a`
is empty or already ends in one -/
def pjoin (a b : S) : S :=
  if b.head? = some '/' then b
  else if a.isEmpty || a.getLast? = some '/' then a ++ b
  else a ++ '/' :: b

/-- `base` followed by the optional file part (`if self.fileRef is not None: os.path.join(base, self.fileRef)`) -/
def withFile (base : S) : Option S → S
  | none => base
  | some f => pjoin base f

/-- What a `DataReference` keeps of its text.  `stage = none`: direct reference (no namespace). -/
structure Parts where
  stage : Option Nat
  name : S
  /-- `none`: no file part; `some []`: the text ends in a bare `/` -/
  file : Option S
  method : S
  deriving DecidableEq, Repr

def stageText (n : Nat) : S := "stage".toList ++ natToDigits n ++ ['.']

/-- `ComponentIdentifier.identifier` -/
def Parts.identifier (p : Parts) : S :=
  match p.stage with
  | some n => stageText n ++ p.name
  | none => p.name

/-- `DataReference.absoluteReference` -/
def Parts.absSpelling (p : Parts) : S := withFile p.identifier p.file ++ ':' :: p.method

/-- `DataReference.relativeReference` (`relativeIdentifier` is the component name) -/
def Parts.relSpelling (p : Parts) : S := withFile p.name p.file ++ ':' :: p.method

/-- the part of a reference before the `:`, for a reference to a component: split at the first `/` -/
def splitPath (path : S) : S × Option S :=
  match splitFirst '/' path with
  | none => (path, none)
  | some (a, b) => (a, some b)

/-- `re.match("stage([0-9]+)", s)`: the number after a leading `stage` (what follows the digits is ignored) -/
def stagePrefix? (s : S) : Option Nat :=
  if "stage".toList.isPrefixOf s then digitsToNat? ((s.drop 5).takeWhile isDigit) else none

/-- `FlowIR.ParseProducerReference(reference, index)`: `stage<N>.<name>` names its stage, anything else belongs
to the stage `index` of the consumer -/
def parseProducer (index : Nat) (r : S) : Nat × S :=
  match splitFirst '.' r with
  | none => (index, r)
  | some (st, nm) =>
    match stagePrefix? st with
    | some n => (n, nm)
    | none => (index, r)

/-- `DataReference(text, stageIndex=consumer)`.  `direct`: the text before the first `/` is one of
`FlowIR.SpecialFolders` or otherwise not a component of the graph (decided by the loader; an input of the
model): the whole path is the producer, there is no file part and no namespace.  `none`: not exactly one `:`.
Absolute paths (`/…`) are outside the model. -/
def parseRef (consumer : Nat) (direct : Bool) (text : S) : Option Parts :=
  match splitFirst ':' text with
  | none => none
  | some (path, method) =>
    if method.contains ':' then none
    else if direct then some { stage := none, name := path, file := none, method := method }
    else
      let (prod, file) := splitPath path
      let (st, nm) := parseProducer consumer prod
      some { stage := some st, name := nm, file := file, method := method }

/-- the relative spelling denotes the reference from the consumer's stage (`spellings_of` of the repaired code) -/
def Parts.relActive (consumer : Nat) (p : Parts) : Bool :=
  match p.stage with
  | none => true
  | some n => n == consumer

/-- the path a `:ref` (or `:copy`, `:link` …) reference resolves to: the producer's location with the file part
joined to it when there is one — an empty file part leaves the trailing separator -/
def refPath (location : S) (file : Option S) : S := withFile location file

/-- the path one loop instance contributes to a `:loopref` reference: this branch tests the file part for
truthiness (`if self.fileRef:`), an empty file part is dropped here -/
def loopRefPath (location : S) : Option S → S
  | some (c :: f) => pjoin location (c :: f)
  | _ => location

/-- the spellings with the file part tested for TRUTHINESS instead of `is not None` (not what the code does:
kept to state in `Witness.C10` why the distinction matters) -/
def withFileTruthy (base : S) : Option S → S
  | some (c :: f) => pjoin base (c :: f)
  | _ => base

/-! ## The order of the loop instances (`looped_reference_to_paths`)

A placeholder's `represents` is a list made from a SET of instance ids `stage<s>.<iteration>#<name>`: its order carries
no meaning.  `:loopref` / `:loopoutput` list the instances sorted on `int(<iteration>)`. -/

/-- `int(c.split('.', 1)[1].split('#', 1)[0])`.  Python raises for an id of another shape; the model answers 0 (never
reached: `represents` holds instance ids only). -/
def iterOfId (c : S) : Nat :=
  match splitFirst '.' c with
  | none => 0
  | some (_, rest) =>
    match splitFirst '#' rest with
    | none => (digitsToNat? rest).getD 0
    | some (it, _) => (digitsToNat? it).getD 0

/-- insertion into a list sorted on the iteration number, before the first element that is not smaller (stable) -/
def insertInst {α : Type} (a : S × α) : List (S × α) → List (S × α)
  | [] => [a]
  | b :: l => if iterOfId b.1 < iterOfId a.1 then b :: insertInst a l else a :: b :: l

/-- `sorted(represents, key=lambda c: int(c.split('.', 1)[1].split('#', 1)[0]))` on instances `(id, payload)`
(Python's sort is stable; so is this insertion sort from the right) -/
def orderInstances {α : Type} : List (S × α) → List (S × α)
  | [] => []
  | a :: l => insertInst a (orderInstances l)

/-- the id of loop instance `iter` of component `name` in stage `stage`: `'stage%d.%d#%s'` -/
def instId (stage iter : Nat) (name : S) : S := stageText stage ++ (natToDigits iter ++ '#' :: name)

/-- `:loopref` of a placeholder whose instances are `insts` = (id, working directory), in ANY order -/
def loopRefSource (insts : List (S × S)) (file : Option S) : Source :=
  .paths ((orderInstances insts).map fun x => loopRefPath x.2 file)

/-- `:loopoutput` of a placeholder whose instances are `insts` = (id, contents of the referenced file), in ANY order -/
def loopOutputSource (insts : List (S × Option S)) : Source :=
  .files ((orderInstances insts).map fun x => x.2)

/-- the ids sorted AS STRINGS (`sorted(represents)` without the key) — not what the code does; kept to state in
`Witness.C10` why the key matters from the 11th instance on -/
def insertInstLex {α : Type} (a : S × α) : List (S × α) → List (S × α)
  | [] => [a]
  | b :: l => if lexLt b.1 a.1 then b :: insertInstLex a l else a :: b :: l

def orderInstancesLex {α : Type} : List (S × α) → List (S × α)
  | [] => []
  | a :: l => insertInstLex a (orderInstancesLex l)

/-- a declared reference together with what its value is computed from -/
structure Decl where
  abs : S
  rel : S
  relActive : Bool
  kind : Kind
  source : Source
  deriving DecidableEq, Repr

def Decl.toRef (d : Decl) : Ref :=
  { abs := d.abs, rel := d.rel, relActive := d.relActive, kind := d.kind, value := d.source.value? }

/-- `ref`/`loopref` are substituted by path(s), `output`/`loopoutput` by contents, the staging methods not at all -/
def kindOf (method : S) : Kind :=
  if method = "ref".toList || method = "loopref".toList then .ref
  else if method = "output".toList || method = "loopoutput".toList then .output
  else .other

/-- what `resolveArguments` reads from the `DataReference` made of these parts -/
def Parts.toDecl (consumer : Nat) (p : Parts) (source : Source) : Decl :=
  { abs := p.absSpelling, rel := p.relSpelling, relActive := p.relActive consumer, kind := kindOf p.method,
    source := source }

/-- a declared reference given by its TEXT (as written under `references:`), read the way the code reads it -/
def declOfText (consumer : Nat) (direct : Bool) (text : S) (source : Source) : Option Decl :=
  (parseRef consumer direct text).map fun p => p.toDecl consumer source

/-- the text of a reference to a component: producer, optional file part after a `/` … -/
def pathText (producer : S) : Option S → S
  | none => producer
  | some f => producer ++ '/' :: f

/-- … and the method after the `:` -/
def refText (producer : S) (file : Option S) (method : S) : S := pathText producer file ++ ':' :: method

/-- repaired `resolveArguments` with the reference values computed by the model of `DataReference.resolve` -/
def resolveD (decls : List Decl) (args : S) : Result := resolve (decls.map Decl.toRef) args

/-- the pre-repair algorithm on the same input (kept for the witness / the driver's `old` answer) -/
def resolveOldD (decls : List Decl) (args : S) : Result := resolveOld (decls.map Decl.toRef) args

/-- decidable form of: the dictionary does not depend on the insertion order (equal spellings carry equal values) -/
def functionalB (es : List (S × S)) : Bool :=
  es.all fun e1 => es.all fun e2 => e1.1 != e2.1 || e1.2 == e2.2

/-! ## Declarative specification: simultaneous, leftmost-longest substitution -/

/-- `dict[k]` for a dictionary filled with `setdefault` in the order of `es` (first entry wins) -/
def dictGet : List (S × S) → S → Option S
  | [], _ => none
  | (k0, v0) :: es, k => if k = k0 then some v0 else dictGet es k

/-- `segs` is a reading of the argument string `renderK segs` as literal characters and reference tokens in
which (1) no declared spelling starts at a literal character, (2) every token is a declared spelling carrying
the dictionary's value for it, and (3) no longer declared spelling starts where a token starts.  Nothing is
said about how the reading is found, in which order the references were declared, or whether one spelling
contains another. -/
def IsParse (es : List (S × S)) : List Seg → Prop
  | [] => True
  | .lit c :: segs =>
    (∀ e ∈ es, e.1 ≠ [] → e.1.isPrefixOf (c :: renderK segs) = false) ∧ IsParse es segs
  | .tok k v :: segs =>
    k ≠ [] ∧ dictGet es k = some v ∧
    (∀ e ∈ es, e.1.isPrefixOf (k ++ renderK segs) = true → e.1.length ≤ k.length) ∧ IsParse es segs

/-- equal spellings carry equal values (then the dictionary does not depend on the insertion order) -/
def Functional (es : List (S × S)) : Prop := ∀ e1 ∈ es, ∀ e2 ∈ es, e1.1 = e2.1 → e1.2 = e2.2

end St4sd.ArgSubst
