import St4sd.Model.Confine
/-!
# C18 — manifest keys as TEXT (alias spellings), copy onto an existing destination, deployment histories

`Model/Confine.lean` parses a manifest key into components and forgets how it was spelled: `shared`, `shared/`,
`./shared`, `shared//`, `shared/.` all become `[shared]`.  The code, however, works on the text
(storage.py `expandPackageToDirectory`):

* `target_folder_path = join(targetPath, key)`;
* the guard looks at `realpath(dirname(target_folder_path.rstrip('/')))`: trailing separators are stripped first,
  so for `shared/` the guarded directory is the instance directory, while for `shared/.` (and `shared/./`) it is
  `<instance>/shared` ITSELF (links followed);
* `shutil.copytree(src, target_folder_path)` starts with `os.makedirs(target_folder_path)` (no `exist_ok`):
  a destination that exists in any form — directory, file, link to a directory elsewhere — is an error,
  whatever the spelling (`mkdir("x/")`, `mkdir("x/.")` on an existing `x` give `EEXIST`); for a missing
  destination all spellings create the same directory;
* `os.symlink(src, target_folder_path)` fails for a name with a trailing separator (`ENOENT`/`EEXIST`) or a final
  `.` component (`EEXIST`/`ENOENT`).

So two keys that are different dictionary keys can name the same entry.  `deployOneK` is one manifest entry with its
key as text; `deployK`/`loadAndDeployK` a whole manifest; `deployHistory` any number of deployments into the same
instance directory one after the other (the manifest may change in between: link → copy, other spellings, other
order).  `deployOneOverlay` is NOT what the code does: the copy entry merges into an existing destination
(`copytree(..., dirs_exist_ok=True)`) — kept only for `Witness.C18.overlay_copy_*`.
-/
namespace St4sd.Confine
open St4sd.Str

/-- `s.rstrip('/')` -/
def rstripSep (s : S) : S := (s.reverse.dropWhile (· == '/')).reverse

/-- does the text (after stripping trailing separators) end in a `.` component: `.`, `a/.`, `a/./` -/
def endsWithDot (k : S) : Bool :=
  let t := rstripSep k
  t == ['.'] || ['/', '.'].isSuffixOf t

/-- does the text end with a separator -/
def endsWithSep (k : S) : Bool := k.getLast? == some '/'

/-- a manifest entry with its key as written -/
structure KEntry where
  key : S
  /-- absolute source folder (components) -/
  src : List Seg
  method : Method
  deriving DecidableEq, Repr

def KEntry.entry (e : KEntry) : Entry := { key := parsePath e.key, src := e.src, method := e.method }

/-- one manifest entry of the repaired code (`guard = true`) or of the unguarded one, key as text.  Every branch
either returns the state unchanged together with an error or is `deployOne` on the parsed key. -/
def deployOneK (guard : Bool) (target : Path) (st : St) (e : KEntry) : St × Option Err :=
  let pe := e.entry
  if endsWithDot e.key then
    -- the guard sees the entry itself, not its parent
    if pe.key.abs then (st, some Err.rejected) else
    if guard && !allNames pe.key.segs then (st, some Err.rejected) else
    match walk st.fs fuel0 target pe.key.segs with
    | none => (st, some (if guard then Err.rejected else Err.os))
    | some (base, rest, _) =>
      if guard && !under target (extend base rest) then (st, some Err.rejected) else
      match e.method with
      | Method.link => (st, some Err.os)
      | Method.copy => if rest.isEmpty then (st, some Err.os) else deployOne guard target st pe
  else if endsWithSep e.key && e.method == Method.link then
    -- all the checks of a link entry, then `os.symlink` refuses the name
    match deployOne guard target st pe with
    | (_, none) => (st, some Err.os)
    | r => r
  else deployOne guard target st pe

def deployAllK (guard : Bool) (target : Path) : St → List KEntry → St × Option Err
  | st, [] => (st, none)
  | st, e :: es =>
    match deployOneK guard target st e with
    | (st1, none) => deployAllK guard target st1 es
    | (st1, some x) => (st1, some x)

/-- `'conf' not in manifest` is a test on the key TEXT -/
def confIsKeyK (es : List KEntry) : Bool := es.any fun e => e.key == confName

/-- `expandPackageToDirectory` for a single-file package with a manifest, keys as text -/
def deployK (guard : Bool) (target : Path) (st : St) (es : List KEntry) : St × Option Err :=
  match deployAllK guard target st es with
  | (st1, some x) => (st1, some x)
  | (st1, none) => deployConf guard target st1 (confIsKeyK es)

/-- `Manifest.validate` on key texts: `os.path.isabs(key)`, `'..' in key.split('/')` -/
def validateK (fixed : Bool) (es : List KEntry) : Bool :=
  if fixed then validateFixed (es.map KEntry.entry) else validateOld (es.map KEntry.entry)

def loadAndDeployK (fixed : Bool) (target : Path) (st : St) (es : List KEntry) : St × Option Err :=
  if validateK fixed es then deployK fixed target st es else (st, some Err.rejected)

/-- one deployment of a history: the manifest and whether it went through `Manifest.validate` -/
structure Deployment where
  entries : List KEntry
  validate : Bool
  deriving Repr

def deployStep (fixed : Bool) (target : Path) (st : St) (d : Deployment) : St × Option Err :=
  if d.validate then loadAndDeployK fixed target st d.entries else deployK fixed target st d.entries

/-- any number of deployments into the same instance directory; whatever a deployment answers (deployed,
rejected, stopped half-way by an error) the next one starts from the state it left.  Returns the final state
and the answers, oldest first. -/
def deployHistory (fixed : Bool) (target : Path) : St → List Deployment → St × List (Option Err)
  | st, [] => (st, [])
  | st, d :: ds =>
    match deployStep fixed target st d with
    | (st1, r) =>
      match deployHistory fixed target st1 ds with
      | (st2, rs) => (st2, r :: rs)

/-! ## the variant that merges into an existing destination (not the code) -/

/-- `copytree(src, dst, dirs_exist_ok=True)` for a copy entry at `par/s`: an existing destination that denotes a
directory (links followed, as `os.makedirs(exist_ok=True)` + `os.path.isdir` do) receives the content -/
def copyOverlay (st : St) (par : Path) (s : S) : St × Option Err :=
  match st.fs.get (s :: par) with
  | none => ({ fs := (st.fs.put (s :: par) Node.dir).put (['f'] :: s :: par) (Node.file (['f'] :: s :: par)),
               log := (['f'] :: s :: par) :: (s :: par) :: st.log }, none)
  | some _ =>
    match resolve st.fs fuel0 par [Seg.name s] with
    | some p => if st.fs.isDir p then writeAt st (['f'] :: p) else (st, some Err.os)
    | none => (st, some Err.os)

/-- `deployOne true` with the overlaying copy -/
def deployOneOverlay (target : Path) (st : St) (e : Entry) : St × Option Err :=
  if e.key.abs then (st, some Err.rejected) else
  if !allNames e.key.segs then (st, some Err.rejected) else
  match splitLastSeg e.key.segs with
  | some (parents, Seg.name s) =>
    match walk st.fs fuel0 target parents with
    | none => (st, some Err.rejected)
    | some (base, rest, blocked) =>
      if !under target (extend base rest) then (st, some Err.rejected) else
      if blocked then (st, some Err.os) else
      match e.method with
      | Method.copy =>
        match mkChain st base rest with
        | (st1, par) => copyOverlay st1 par s
      | Method.link => deployOne true target st e
  | _ => (st, some Err.os)

def deployAllOverlay (target : Path) : St → List Entry → St × Option Err
  | st, [] => (st, none)
  | st, e :: es =>
    match deployOneOverlay target st e with
    | (st1, none) => deployAllOverlay target st1 es
    | (st1, some x) => (st1, some x)

end St4sd.Confine
