import St4sd.Model.Cache
/-!
# The configuration interface in a verbosely configured process (C08)

How verbose the process is (level of the root logger, of the logger `flowir`, …) is not an argument of any call of
the interface, yet code guarded by `log.isEnabledFor(level)` - or run while a log record is formatted - executes only in
a verbose process.  What such code may do without being an update is to LOOK: ask the interface for the value an option
resolves to (to report "changes from X to Y"), dump a component, flatten the description.  `Verbosity` assigns to every
call the read-only calls the process makes in addition *before* and *after* it (anything that is not read-only is
dropped: logging never updates); `runLogged` is a history executed by such a process.
`Props/C08.logging_is_invisible`: for EVERY verbosity and every history the answers, the description and the
coherence of the cache are those of the quiet process.

The calls a logger makes must stay outside the call proper: `setOptionReportingInside` is the shape that is NOT
covered - a component-level update (fetch the component by reference = invalidate; write) whose report asks the
interface for the current value BETWEEN the fetch and the write.  `Witness/C08.report_inside_update_goes_stale` shows
that it breaks the property; harness/c08.py therefore runs a share of every stream with logging enabled (root / one
logger / every logger, levels 1-19) and a handler that formats every record.
-/
namespace St4sd.Tree
open St4sd.Str

/-- the additional calls of a verbose process around each call of the interface -/
structure Verbosity where
  before : Op → List Op
  after : Op → List Op

/-- a quiet process -/
def Verbosity.quiet : Verbosity := ⟨fun _ => [], fun _ => []⟩

/-- logging only looks -/
def looks (l : List Op) : List Op := l.filter Op.readOnly

/-- one call made by a process of verbosity `V`: the caller sees the answer of the call proper -/
def stepLogged (V : Verbosity) (fuel : Nat) (s : St) (op : Op) : St × Except Err Val :=
  let s0 := (run fuel s (looks (V.before op))).1
  let r := step fuel s0 op
  ((run fuel r.1 (looks (V.after op))).1, r.2)

def runLogged (V : Verbosity) (fuel : Nat) : St → List Op → St × List (Except Err Val)
  | s, [] => (s, [])
  | s, op :: r =>
    let (s1, a) := stepLogged V fuel s op
    let (s2, as) := runLogged V fuel s1 r
    (s2, a :: as)

/-- NOT the code that exists: `set_component_option` on an option route whose report is produced between the
fetch `get_component(return_copy=False)` (the only place where the component's entries are dropped) and the write;
the report asks for the fully resolved configuration on platform `P` and thereby caches the configuration from
before the update. -/
def setOptionReportingInside (fuel : Nat) (s : St) (i : Nat) (n route : S) (v : Val) (P : S) : St × Except Err Val :=
  let s1 := (step fuel s (.touchComp i n)).1
  let s2 := (step fuel s1 (.query i n P)).1
  let r := step fuel s2 (.setOption i n route v)
  (⟨r.1.desc, s2.cache⟩, r.2)

end St4sd.Tree
