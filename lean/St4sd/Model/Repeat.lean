/-!
# Model of the repeating-engine poll protocol (property C13)

Source: `python/experiment/runtime/engine.py`, `RepeatingEngine.run` (closure `EngineTaskController`,
1745-1913), `notify_all_producers_finished` (1973-1994), `exitReason/isAlive/kill` (1996-2072) and the
poll loop of `monitor.CreateMonitor` (259-376, `lastAction` protocol, exceptions of the action are logged
and the loop continues).

Time is logical: `clock` is bumped by every operation, so every event (output, launch, finish) has its
own instant and only the *order* of events matters, exactly what `producersHaveOutputSinceDate(lastLaunched)`
(strict `>` on timestamps) looks at.  The wall-clock "waited more than 20 s since the last launch" override
is the flag `aged`, set by the environment operation `adv` (the clock jumped) and reset by a launch.

One poll (`action(False)`) is split into the atomic sub-steps between which the other threads of the real
program can run:

  idle --mon--> polled last --begin/check--> checked --sample--> sampled --decide(+launch)-->
      running --task end--> ready --post--> idle            (not launched: sampled --decide--> ready)

`Op.eng o` lets the engine thread take its next sub-step (`o` = scripted outcome of the task, read by the
`decide` sub-step only); `Op.env e` is an operation of the environment and may come between any two
sub-steps: `fin` (`notify_all_producers_finished`), `out` (a producer writes output), `kill` (somebody calls
`kill()`), `die` (the `kill-after-producers-done-delay` timer fires), `adv` (more than 20 s pass).

Environment assumption built into `step`: producers write no output after the producers-finished
notification (`out` is ignored once `prodDone`).

Producers: `job.producerInstances` is a LIST (one entry per data reference: several references to one
component give several entries).  Each entry is a `Prod`: the component it stands for (`id`; output belongs to
the component, so entries of one component share it), whether the component is in the observer's stage
(`same`: only those count for `Engine.canConsume`, "Different Stage: Always True") and whether it repeats
(`rep`: `Job.producersHaveOutputSinceDate` treats a non-repeating producer as always having new output).
`Cfg.pre` are the components whose output already exists when `run()` primes `lastLaunched`.
`St.outs` = the components of the list that have produced output so far (`Ev.out c`: component `c` writes
output; ignored when `c` is no producer of the observer).
* `canConsume` (engine.py 1026-1080, `delay = 0`): EVERY same-stage entry of the list has output; the loop
  leaves with `False` at the first same-stage producer without output.  `_consume` caches the first `True`.
* `outSince` (`Job.producersHaveOutputSinceDate(lastLaunched)`): SOME entry does not repeat or has a file
  newer than `lastLaunched`; since every event has its own instant, "some producer's newest file is newer than
  t" is "the newest file of all is newer than t" (`lastOutput`).

Two repairs are switchable so that the code before the repair stays available for `Witness` theorems:
* `guardNone` (fixes/C13-launch-raises.diff): `did_i_execute and my_process is not None and
  my_process.returncode == 0`.  Without it a task generator that raises while the producers are finished
  makes the action die with `AttributeError` before the retry bookkeeping.
* `killOnSuicidePoll` (fixes/C13-kill-delay-between-polls.diff): a poll that finds `_suicide` set calls
  `kill()`.  Without it, a kill-delay timer firing between two polls after at least one launch only signals
  the (finished) process and every later poll is a no-op: the engine never stops.

`init` is the engine as constructed: `run()` has NOT been called yet (`started = false`).  The first sub-step of the
engine thread is `run()` (ghost `started`).  Environment operations - in particular `fin`: `ComponentState.stageIn`
calls `notify_all_producers_finished()` synchronously when no producer is alive at stage-in, and only afterwards the
Controller calls `run()` - may precede it; `notify_all_producers_finished` arms the kill-delay timer whenever the
delay is configured and the engine is alive, whether or not it was started.
Never-ending tasks: `Outcome.hang`; the sub-step out of `running` is not enabled until the task has been killed
(the engine step is a stutter), so a history in which nobody kills the task leaves the engine `blocked` for ever.
* `killAfterLaunch` (fixes/C13-kill-delay-expires-before-launch.diff, /repo 2d673a1): a poll that finds `_suicide` set
  right after it launched a task kills that task.  Without it a kill delay that expires between the `_suicide` check at
  the start of a poll and the launch only signals the PREVIOUS task: a newly launched task that never ends by itself is
  never killed and the engine thread waits for ever.
No Mathlib import (this file is linked into `drv-c13`).
-/
namespace St4sd.Repeat

/-- one entry of `job.producerInstances` -/
structure Prod where
  id : Nat                 -- the component (its output directory)
  same : Bool              -- producer.stageIndex == job.stageIndex
  rep : Bool               -- producer.isRepeat
  deriving DecidableEq, Repr

structure Cfg where
  retries : Nat            -- workflowAttributes['repeatRetries'] (None is 3)
  dieAfter : Bool          -- variable kill-after-producers-done-delay present
  prods : List Prod        -- job.producerInstances, in order
  pre : List Nat           -- components whose output already exists when run() primes lastLaunched
  guardNone : Bool
  killOnSuicidePoll : Bool
  killAfterLaunch : Bool
  deriving DecidableEq, Repr

/-- `job.producerInstances` is empty -/
def Cfg.noProd (cfg : Cfg) : Bool := cfg.prods.isEmpty
/-- some producer is not repeating: `producersHaveOutputSinceDate` is always True -/
def Cfg.alwaysNew (cfg : Cfg) : Bool := cfg.prods.any (fun p => !p.rep)
/-- component `c` is a producer of the observer -/
def Cfg.isProd (cfg : Cfg) (c : Nat) : Bool := cfg.prods.any (fun p => p.id == c)
/-- producer output already exists when `run()` primes `lastLaunched` -/
def Cfg.preOutput (cfg : Cfg) : Bool := cfg.pre.any cfg.isProd

/-- `Engine.canConsume()` with `delay = 0`, given the components that have output: every producer of the
observer's own stage has output (producers of other stages do not count) -/
def canConsume (cfg : Cfg) (outs : List Nat) : Bool :=
  cfg.prods.all (fun p => !p.same || outs.contains p.id)

/-- what the task of a launch does: `hang` = a task that never ends by itself (`tail -f`, a monitoring daemon - the
use-case of `kill-after-producers-done-delay`): `Task.wait()` returns only after somebody called `Task.kill()` -/
inductive Outcome | ok | fail | raised | hang
  deriving DecidableEq, Repr

inductive Ev | fin | out (c : Nat) | kill | die | adv
  deriving DecidableEq, Repr

inductive Op
  | env (e : Ev)
  | eng (o : Outcome)
  deriving DecidableEq, Repr

/-- who set the cancel event first -/
inductive Cause | success | retries | external | killDelay
  deriving DecidableEq, Repr

inductive Pc
  | idle
  | polled (last : Bool)
  | checked (isNew fc : Bool)
  | sampled (isNew fc pdws : Bool)
  | running (isNew fc pdws : Bool) (o : Outcome)
  | ready (isNew fc pdws didExec rc0 raisedNow : Bool)
  | stopped
  deriving DecidableEq, Repr

structure Exec where
  launch : Nat
  pdws : Bool        -- producers_done_when_i_started
  avail : Bool       -- at launch: every same-stage producer has output (`canConsume` of that moment)
  started : Bool     -- the task generator returned a Task object: an execution was really started (`false`: the
                     -- launch itself failed, the generator raised - an attempt, but no execution)
  deriving DecidableEq, Repr

structure St where
  clock : Nat
  prodDone : Bool
  finTime : Nat
  suicide : Bool
  armed : Bool
  consume : Bool
  retries : Nat
  cancel : Bool
  kc : Bool                -- kernelCompleted
  hasProc : Bool           -- self.process is not None
  procKilled : Bool        -- the task of the running poll received kill()
  lastLaunched : Nat
  aged : Bool
  hasOutput : Bool
  lastOutput : Nat
  outs : List Nat          -- producer components that have output (newest first, repetitions possible)
  execLog : List Exec      -- newest first
  pc : Pc
  -- ghost
  cause : Option Cause
  pollsFin : Nat           -- polls (action(False)) begun with the producers-finished flag set
  books : Nat              -- polls that reached the stop/retry bookkeeping
  started : Bool           -- `run()` has been called (`_stateDict['runDate'] is not None`); until then the engine
                           -- exists, is alive and can be notified (ComponentState.stageIn notifies BEFORE run())
  deriving DecidableEq, Repr

def init (cfg : Cfg) : St :=
  { clock := 1, prodDone := false, finTime := 0, suicide := false, armed := false, consume := false,
    retries := cfg.retries, cancel := false, kc := false, hasProc := false, procKilled := false,
    lastLaunched := 0, aged := false, hasOutput := cfg.preOutput, lastOutput := 0,
    outs := cfg.pre.filter cfg.isProd, execLog := [],
    pc := .idle, cause := none, pollsFin := 0, books := 0, started := false }

/-- `RepeatingEngine.isAlive()` = `exitReason() is None` (lastExecution is False: restarts not modelled) -/
def alive (s : St) : Bool := !(s.cancel && (!s.hasProc || s.kc))

/-- `RepeatingEngine.kill()` -/
def doKill (c : Cause) (s : St) : St :=
  if s.cancel then s else { s with cancel := true, cause := some c }

/-- `job.producersHaveOutputSinceDate(self.lastLaunched)` -/
def outSince (cfg : Cfg) (s : St) : Bool :=
  !cfg.noProd && (cfg.alwaysNew || (s.hasOutput && decide (s.lastLaunched < s.lastOutput)))

def b2n (b : Bool) : Nat := if b then 1 else 0

def envStep (cfg : Cfg) (s : St) : Ev → St
  | .fin =>
    let a := cfg.dieAfter && alive s
    { s with prodDone := true, finTime := if s.prodDone then s.finTime else s.clock, armed := s.armed || a }
  | .out c =>
    if s.prodDone || !cfg.isProd c then s
    else { s with hasOutput := true, lastOutput := s.clock, outs := c :: s.outs }
  | .kill => doKill .external s
  | .die =>
    if s.armed then
      let s := { s with armed := false, suicide := true }
      if s.hasProc then
        match s.pc with
        | .running _ _ _ o => if o = .raised then s else { s with procKilled := true }
        | _ => s
      else
        { doKill .killDelay s with kc := true }
    else s
  | .adv => { s with aged := true }

/-- the stop / retry bookkeeping at the end of a poll (engine.py 1882-1913) -/
def post (cfg : Cfg) (s : St) (pdws didExec rc0 raisedNow : Bool) : St :=
  if pdws || s.suicide then
    if didExec && raisedNow && !cfg.guardNone then
      { s with pc := .idle }                    -- AttributeError escapes; CreateMonitor logs it and goes on
    else if didExec && rc0 then
      { doKill (if s.suicide then .killDelay else .success) s with pc := .idle, books := s.books + 1 }
    else if s.suicide then
      { doKill .killDelay s with kc := true, pc := .idle, books := s.books + 1 }
    else if s.retries = 0 then
      { doKill .retries s with pc := .idle, books := s.books + 1 }
    else
      { s with retries := s.retries - 1, pc := .idle, books := s.books + 1 }
  else { s with pc := .idle }

def engStep (cfg : Cfg) (s : St) (o : Outcome) : St :=
  match s.pc with
  | .idle => { s with pc := .polled s.cancel, started := true }
  | .polled true => { s with kc := true, pc := .stopped }
  | .polled false =>
    if s.suicide then
      let s := { s with kc := false, pollsFin := s.pollsFin + b2n s.prodDone, pc := .idle }
      if cfg.killOnSuicidePoll then { doKill .killDelay s with books := s.books + 1 } else s
    else
      let isNew := if s.prodDone && s.aged then true else outSince cfg s
      { s with pollsFin := s.pollsFin + b2n s.prodDone, pc := .checked isNew s.prodDone }
  | .checked isNew fc => { s with pc := .sampled isNew fc s.prodDone }
  | .sampled isNew fc pdws =>
    let consume := s.consume || canConsume cfg s.outs
    if consume && (isNew || cfg.noProd) then
      { s with consume := consume, lastLaunched := s.clock, aged := false,
               execLog := ⟨s.clock, pdws, canConsume cfg s.outs, o != .raised⟩ :: s.execLog,
               hasProc := s.hasProc || (o != .raised),
               -- `if self._suicide: my_process.kill()` right after the launch (third repair)
               procKilled := cfg.killAfterLaunch && s.suicide && (o != .raised),
               pc := .running isNew fc pdws o }
    else
      { s with consume := consume, pc := .ready isNew fc pdws false false false }
  | .running isNew fc pdws o =>
    -- `my_process.wait()`: a task that never ends by itself returns only once it has been killed
    if o == .hang && !s.procKilled then s
    else { s with pc := .ready isNew fc pdws true (o == .ok && !s.procKilled) (o == .raised) }
  | .ready _ _ pdws didExec rc0 raisedNow => post cfg s pdws didExec rc0 raisedNow
  | .stopped => s

def step (cfg : Cfg) (s : St) (op : Op) : St :=
  let s' := match op with
    | .env e => envStep cfg s e
    | .eng o => engStep cfg s o
  { s' with clock := s'.clock + 1 }

def run (cfg : Cfg) (s : St) : List Op → St
  | [] => s
  | op :: ops => run cfg (step cfg s op) ops

/-- state reached from the initial state by a history -/
def exec (cfg : Cfg) (h : List Op) : St := run cfg (init cfg) h

/-! ## Structured scripts (what the harness generates)

One `Iter` is one turn of the monitor loop; the environment events are attached to the points of the poll
at which the harness can inject them into the real engine.  `flatten` decides, from the path the model
takes, where the events of unused points go (after the poll), and produces the flat history; so every
scripted run is literally `run` on a `List Op` and the theorems about all histories cover it. -/

structure Iter where
  gap : List Ev      -- before the monitor looks at the cancel event
  s0 : List Ev       -- after that, before the action starts
  s1 : List Ev       -- after the output check, before producers_done_when_i_started is read
  s2 : List Ev       -- after that, before launch_time is read
  s3 : List Ev       -- while the task runs (or inside a raising task generator)
  s4 : List Ev       -- after the task, before the stop/retry bookkeeping
  out : Outcome
  deriving Repr

def envs (es : List Ev) : List Op := es.map Op.env

/-- the engine thread sits in `wait()` of a task that never ends by itself and that nobody has killed -/
def blocked (s : St) : Bool :=
  match s.pc with
  | .running _ _ _ o => o == .hang && !s.procKilled
  | _ => false

/-- ops of one iteration, given the state at its start -/
def iterOps (cfg : Cfg) (s : St) (it : Iter) : List Op :=
  let e := Op.eng it.out
  let p1 := envs it.gap ++ [e] ++ envs it.s0 ++ [e]
  match (run cfg s p1).pc with
  | .checked _ _ =>
    let p2 := p1 ++ envs it.s1 ++ [e] ++ envs it.s2 ++ [e]
    match (run cfg s p2).pc with
    | .running _ _ _ _ =>
      if it.out == .hang then
        -- a task that never ends by itself: whatever else happens during this turn happens while it runs, and then
        -- time passes until no timer is pending (the harness drives every pending timer: `die`); if nobody killed
        -- the task the poll never gets any further
        let p3 := p2 ++ envs it.s3 ++ envs it.s4 ++ [Op.env .die, e]
        if blocked (run cfg s p3) then p3 else p3 ++ [e]
      else p2 ++ envs it.s3 ++ [e] ++ envs it.s4 ++ [e]
    | _ => p2 ++ envs it.s3 ++ envs it.s4 ++ [e]
  | _ => p1 ++ envs it.s1 ++ envs it.s2 ++ envs it.s3 ++ envs it.s4

/-- runs a script; stops when the monitor has exited; returns the state after each iteration and the
flat history -/
def runScript (cfg : Cfg) : St → List Iter → List St × List Op
  | _, [] => ([], [])
  | s, it :: its =>
    if s.pc = .stopped || blocked s then ([], []) else
    let ops := iterOps cfg s it
    let s' := run cfg s ops
    let (ss, rest) := runScript cfg s' its
    (s' :: ss, ops ++ rest)

end St4sd.Repeat
