import St4sd.Model.StatusFile
/-!
# The key-output listing (property C14): one `key=value` line of output/output.txt

`OutputAgent.updateLogs` (python/experiment/runtime/output.py) writes, per key-output, a section
header and the lines `filename=…`, `filepath=…`, `description=…`, `type=…`, `creationTime=…`,
`version=…`, `production=…`, `final=…` with the values as they are (`"%s"`), and derives
output/output.json by reading that file back through `ConfigurationFileToJson`
(python/experiment/model/conf.py): `configparser.ConfigParser(interpolation=None)`.  So the values a
consumer of output.json sees are whatever the dosini reader makes of each line.

`readLine inl line` is configparser's treatment of one option line (`RawConfigParser._read`):

* inline comments: the line is cut at the first position that holds one of the characters `inl`
  (`inline_comment_prefixes`, single characters) and is the first character of the line or preceded
  by a white-space character.  The reader that exists passes no inline prefixes (`inl = []`).  (For
  several prefixes CPython searches round by round, occurrence k of every prefix in round k; it
  coincides with "first position" for `inl = []` and for one prefix, the cases the theorems use.)
* full-line comments: a line whose first non-blank character is `#` or `;` is skipped (`none`).
* `OPTCRE`: option name = text before the first `=` or `:`, `rstrip()`ed and lower-cased
  (`optionxform`), value = the text after it, `strip()`ed.  A line without delimiter is a parsing
  error (`none`).  (CPython strips the whole line first and the two parts afterwards; splitting at
  the first delimiter and stripping both parts is the same function because a delimiter is not
  white space.)
* no interpolation (`interpolation=None`): `%` is an ordinary character.
-/
namespace St4sd.Listing
open St4sd.Str St4sd.StatusFile

/-- the line up to the first inline comment; `ps`: the previous character is white space (or there is none) -/
def cutInline (inl : List Char) : Bool → List Char → List Char
  | _, [] => []
  | ps, c :: s => if ps && inl.contains c then [] else c :: cutInline inl (pyIsSpace c) s

def isDelim (c : Char) : Bool := c == '=' || c == ':'

/-- split at the first `=` or `:` -/
def splitDelim : List Char → Option (List Char × List Char)
  | [] => none
  | c :: s =>
    if isDelim c then some ([], s)
    else match splitDelim s with
      | none => none
      | some (k, v) => some (c :: k, v)

/-- `line.strip().startswith('#' | ';')` -/
def fullComment (line : List Char) : Bool :=
  match line.dropWhile pyIsSpace with
  | [] => false
  | c :: _ => c == '#' || c == ';'

/-- the writer: `f.write("key=%s\n" % value)` without the newline -/
def writeLine (k v : List Char) : List Char := k ++ '=' :: v

/-- the reader: `(option name, value)` of one line; `none`: no option (comment line or parsing error) -/
def readLine (inl : List Char) (line : List Char) : Option Pair :=
  if fullComment line then none
  else match splitDelim (cutInline inl true line) with
    | none => none
    | some (k, v) => some (lowerAscii (pyStrip k), pyStrip v)

/-- an ASCII letter -/
def letter (c : Char) : Bool := (97 ≤ c.toNat && c.toNat ≤ 122) || (65 ≤ c.toNat && c.toNat ≤ 90)

/-- option names of the listing: ASCII letters (`filename`, `creationTime`, …) -/
def listKey (k : List Char) : Bool :=
  k.all fun c => (97 ≤ c.toNat && c.toNat ≤ 122) || (65 ≤ c.toNat && c.toNat ≤ 90)

/-- the inline-comment trigger somewhere in the text: a character of `inl` that is preceded by a white-space character
(`ps`: the character before the text is white space) -/
def markGo (inl : List Char) : Bool → List Char → Bool
  | _, [] => false
  | ps, c :: s => (ps && inl.contains c) || markGo inl (pyIsSpace c) s

/-- a value as it stands after `key=`: the `=` before it is not white space -/
def hasInlineMark (inl : List Char) (v : List Char) : Bool := markGo inl false v

/-- the fields of one key-output as `updateLogs` writes them, one line each -/
def writeEntry (fields : List Pair) : List (List Char) := fields.map fun p => writeLine p.1 p.2

def readEntry (inl : List Char) (lines : List (List Char)) : List (Option Pair) := lines.map (readLine inl)

end St4sd.Listing
